"""C20 - standard operators, states, gates and random objects satisfy their
definitions.

Proof step: Props/C20.v (Coq) + obligations over the gate tables regenerated
from qutip/core/gates.py by tools/tx_c20_gates.py (translator tie, T).
Correspondence (K): the Gallina models of Model/C20.v are evaluated by
vm_compute and compared exactly (positions, integer radicands / entries,
literal flags, error-or-value) with the real constructors.
Oracle: the property itself on real qutip objects (always run)."""
import itertools
import json
import math
import os
import random
import re

import numpy as np

import vlib
from vlib import cz, cnat, cbool, clist

HEADER = ("From Coq Require Import List ZArith QArith Bool.\nImport ListNotations.\n"
          "From QV Require Import Model.C20 Model.C20_b.\nOpen Scope Z_scope.\n")
DTYPES = ["dia", "csr", "dense"]
ROOT_DIAGS = "number of diagonals does not match number of offsets"

# ------------------------------------------------------------------ helpers


def ulp_close(v, r):
    """v is sqrt(r) to within one unit in the last place (labelled validation:
    NumPy takes a complex sqrt here, which need not be correctly rounded)."""
    s = math.sqrt(r)
    return v == s or v == math.nextafter(s, math.inf) or v == math.nextafter(s, -math.inf)


def rad_entries(M, sqrt_entries=True):
    """non-zero entries of a dense complex matrix as (i, j, radicand) (row
    major); returns (list, problems)"""
    out, bad = [], []
    n, m = M.shape
    for i in range(n):
        for j in range(m):
            v = M[i, j]
            if v == 0:
                continue
            if v.imag != 0:
                bad.append("complex entry at (%d,%d)" % (i, j))
                continue
            if sqrt_entries:
                r = int(round(v.real * v.real))
                if v.real < 0 or not ulp_close(v.real, r):
                    bad.append("entry (%d,%d)=%r is not sqrt of an integer" % (i, j, v.real))
                out.append((i, j, r))
            else:
                if v.real != int(v.real):
                    bad.append("entry (%d,%d)=%r is not an integer" % (i, j, v.real))
                out.append((i, j, int(v.real)))
    return out, bad


def canon_model_nz(v):
    """parsed `znz_res` value -> (n, [(i,j,r)]) or None"""
    if v is None:
        return None
    assert v[0] == "Some", v
    n, l = v[1]
    return (n, [tuple(x) for x in l])


def call(f, *a, **k):
    try:
        return ("ok", f(*a, **k))
    except Exception as e:          # canonicalised below
        return ("err", type(e).__name__, str(e))


class Hang(Exception):
    pass


def call_watchdog(f, seconds=5):
    """call f(); a Python-level loop that does not finish within `seconds`
    is reported as ("err", "Hang", ...)"""
    import signal

    def onalarm(sig, frm):
        raise Hang("no result after %d s" % seconds)
    old = signal.signal(signal.SIGALRM, onalarm)
    signal.setitimer(signal.ITIMER_REAL, seconds)
    try:
        return ("ok", f())
    except Hang as e:
        return ("err", "Hang", str(e))
    except Exception as e:
        return ("err", type(e).__name__, str(e))
    finally:
        signal.setitimer(signal.ITIMER_REAL, 0)
        signal.signal(signal.SIGALRM, old)


def flag(x):
    return None if x is None else bool(x)


# --------------------------------------------------------- correspondence


def gen_cases(ctx, rng):
    """returns list of (key, coq_expr, impl_thunk, nontrivial)"""
    import qutip as q
    from qutip.core import data as _data
    cases = []
    quick = ctx.quick
    Ns = list(range(0, 13)) + ([rng.randrange(13, 41) for _ in range(4)] if quick
                               else list(range(13, 41)))
    offs = [0, 1, 2, 5] if quick else [0, 1, 2, 3, 5, 11, 100]

    # ---- ladder operators
    def ladder_impl(kind, N, off, dt):
        def th():
            f = {"destroy": q.destroy, "create": q.create, "num": q.num}[kind]
            r = call(f, N, off, dtype=dt)
            if r[0] == "err":
                return None, [r[1:]]
            M = r[1].full()
            ent, bad = rad_entries(M, sqrt_entries=(kind != "num"))
            # N <= 0 is not rejected by destroy/create: same 1x1 operator as N = 1
            Nd = N if kind == "num" else max(N, 1)
            if r[1].dims != [[Nd], [Nd]]:
                bad.append("dims %r" % (r[1].dims,))
            return (M.shape[0], ent), bad
        return th
    for kind in ["destroy", "create", "num"]:
        for N in Ns:
            for off in (offs if N <= 12 else offs[:2]):
                dt = rng.choice(DTYPES)
                fn = {"destroy": "destroy_rad", "create": "create_rad", "num": "num_diag"}[kind]
                cases.append((("ladder", kind, N, off, dt),
                              "znz_res (%s %s %s)" % (fn, cz(N), cz(off)),
                              ladder_impl(kind, N, off, dt), N >= 2))

    # ---- spin operators (J = 2j)
    def spin_impl(which, J, dt):
        def th():
            r = call(q.jmat, J / 2.0, which, dtype=dt)
            if r[0] == "err":
                return None, [r[1:]]
            M = r[1].full()
            if which == "-":
                M = M.T
            if which == "z":
                M = 2 * M
            ent, bad = rad_entries(M, sqrt_entries=(which != "z"))
            return (M.shape[0], ent), bad
        return th
    Js = list(range(0, 11)) + ([rng.randrange(11, 41) for _ in range(3)] if quick
                               else list(range(11, 41)))
    for J in Js:
        for which in ["+", "-", "z"]:
            dt = rng.choice(DTYPES)
            fn = "jz2_diag" if which == "z" else "jplus_rad"
            cases.append((("jmat", which, J, dt), "znz_res (%s %s)" % (fn, cz(J)),
                          spin_impl(which, J, dt), J >= 1))

    # ---- charge / tunneling (entries and the literal _isunitary)
    def charge_impl(a, b, fr, dt):
        def th():
            r = call(q.charge, a, b, fr, dtype=dt)
            if r[0] == "err":
                return None, [r[1:]]
            ent, bad = rad_entries(r[1].full(), sqrt_entries=False)
            return ((r[1].shape[0], ent), flag(r[1]._isunitary)), bad
        return th
    for _ in range(20 if quick else 120):
        a, b, fr = rng.randrange(-3, 6), rng.randrange(-6, 4), rng.choice([1, 1, -1, 2, 0])
        dt = rng.choice(DTYPES)
        cases.append((("charge", a, b, fr, dt),
                      "(znz_res (charge_diag %s %s %s), charge_isunitary %s %s %s)" % (
                          cz(a), cz(b), cz(fr), cz(a), cz(b), cz(fr)),
                      charge_impl(a, b, fr, dt), a > b))

    def tunnel_impl(N, m, dt):
        def th():
            r = call(q.tunneling, N, m, dtype=dt)
            if r[0] == "err":
                return None, [r[1:]]
            ent, bad = rad_entries(r[1].full(), sqrt_entries=False)
            return ((r[1].shape[0], ent), flag(r[1]._isunitary)), bad
        return th
    for N in range(1, 9 if quick else 14):
        for m in range(0, N + 2):
            dt = rng.choice(DTYPES)
            cases.append((("tunneling", N, m, dt),
                          "(znz_res (tunneling_mat %s %s), tunneling_isunitary %s %s)" % (
                              cz(N), cz(m), cz(N), cz(m)),
                          tunnel_impl(N, m, dt), 0 < m < N))

    # ---- generic diags (valid and malformed) with integer data
    def diags_impl(ds, offsl, dt, flat):
        def th():
            arg = ds[0] if flat else ds
            r = call(_data.diag[dt], arg, offsl)
            if r[0] == "err":
                return None, [r[1:]]
            ent, bad = rad_entries(r[1].to_array(), sqrt_entries=False)
            return (r[1].shape[0], ent), bad
        return th
    for _ in range(60 if quick else 400):
        n = rng.randrange(1, 7)
        k = rng.randrange(1, 4)
        offsl = [rng.randrange(-n, n + 1) for _ in range(k)]
        if rng.random() < 0.7:
            offsl = list(dict.fromkeys(offsl))     # mostly no duplicates
        mal = rng.random() < 0.3
        ds = []
        for o in offsl:
            ln = n - abs(o)
            if mal and rng.random() < 0.5:
                ln = max(0, ln + rng.choice([-1, 1, 2]))
            ds.append([rng.randrange(-4, 5) for _ in range(ln)])
        if mal and rng.random() < 0.4:
            offsl = offsl + [0]
        flat = (len(ds) == 1 and len(offsl) == 1 and rng.random() < 0.6)
        # duplicate offsets with different lengths broadcast in NumPy: outside the model
        lens = {}
        skip = False
        for o, d in zip(offsl, ds):
            if o in lens and lens[o] != len(d):
                skip = True
            lens[o] = len(d)
        if skip:
            continue
        dt = rng.choice(DTYPES)
        arg = ("Flat %s" % clist(ds[0], cz)) if flat else (
            "Nested %s" % clist(ds, lambda d: clist(d, cz)))
        cases.append((("diags", tuple(map(tuple, ds)), tuple(offsl), dt, flat),
                      "znz_res (zdiags (%s) %s)" % (arg, clist(offsl, cz)),
                      diags_impl(ds, offsl, dt, flat), not mal))

    # ---- qdiags literal flags on Gaussian-integer diagonals
    def qflags_impl(d, offs):
        def th():
            r = call(q.qdiags, [complex(a, b) for a, b in d], offs)
            if r[0] == "err":
                return None, [r[1:]]
            return (flag(r[1]._isherm), flag(r[1]._isunitary)), []
        return th
    for _ in range(60 if quick else 400):
        n = rng.randrange(1, 5)
        pool = [(1, 0), (-1, 0), (0, 1), (0, -1), (0, 0), (1, 1), (2, 0), (0, -2), (1, -1)]
        w = rng.choice([[5, 5, 3, 3, 1, 1, 1, 1, 1], [1] * 9, [6, 2, 0, 0, 0, 0, 0, 0, 0]])
        d = [rng.choices(pool, w)[0] for _ in range(n)]
        off = rng.choice([0, 0, 0, 1, -1])
        cases.append((("qdiags_flags", tuple(d), off),
                      "qdiags_flags (Flat %s) [%s]" % (
                          clist(d, lambda p: "(%s, %s)" % (cz(p[0]), cz(p[1]))), cz(off)),
                      qflags_impl(d, off), True))

    # ---- basis locations with offsets
    def basis_impl(dims, ns, offs_):
        def th():
            r = call(q.basis, dims, ns, offs_)
            if r[0] == "err":
                return None, [r[1:]]
            v = r[1].full()[:, 0]
            nzp = np.flatnonzero(v)
            bad = []
            if len(nzp) != 1 or v[nzp[0]] != 1:
                bad.append("basis vector is not a unit vector")
            if r[1].dims[0] != dims or int(np.prod(r[1].dims[1])) != 1 or not r[1].isket:
                bad.append("dims %r" % (r[1].dims,))
            return int(nzp[0]), bad
        return th
    for _ in range(40 if quick else 300):
        k = rng.randrange(1, 5)
        dims = [rng.randrange(2, 5) for _ in range(k)] if k > 1 else [rng.randrange(1, 6)]
        offs_ = [rng.choice([0, 0, 1, 3]) for _ in range(k)]
        ns = [o + rng.randrange(0, d) for o, d in zip(offs_, dims)]
        if rng.random() < 0.25:
            i = rng.randrange(k)
            ns[i] = offs_[i] + rng.choice([-1, dims[i], dims[i] + 2])
        if rng.random() < 0.1:
            ns = ns + [0]
        cases.append((("basis", tuple(dims), tuple(ns), tuple(offs_)),
                      "match basis_loc %s %s %s with Ok p => Some p | Err _ => None end" % (
                          clist(dims, cz), clist(ns, cz), clist(offs_, cz)),
                      basis_impl(dims, ns, offs_), k > 1))

    # ---- W / GHZ positions
    def pos_impl(kind, N):
        def th():
            st = (q.w_state if kind == "w" else q.ghz_state)(N).full()[:, 0]
            nzp = [int(p) for p in np.flatnonzero(st)]
            bad = []
            amp = math.sqrt(1.0 / N) if kind == "w" else math.sqrt(0.5)
            if any(st[p] != amp for p in nzp):
                bad.append("amplitudes differ from %r" % amp)
            return sorted(nzp), bad
        return th
    for N in range(1, 7 if quick else 11):
        cases.append((("w", N), "w_positions %s" % cnat(N), pos_impl("w", N), N > 1))
        cases.append((("ghz", N), "ghz_positions %s" % cnat(N), pos_impl("ghz", N), N > 1))

    # ---- state_number_enumerate and the ENR operators
    def enum_impl(dims, E):
        def th():
            r = call(lambda: list(q.state_number_enumerate(dims, E)))
            if r[0] == "err":
                return None, []
            return [list(map(int, s)) for s in r[1]], []
        return th

    def enr_impl(dims, E):
        def th():
            n, s2i, i2s = q.enr_state_dictionaries(dims, E)
            bad = []
            if [i2s[k] for k in range(n)] != list(q.state_number_enumerate(dims, E)):
                bad.append("idx2state is not the enumeration")
            if any(s2i[i2s[k]] != k for k in range(n)):
                bad.append("state2idx is not the inverse of idx2state")
            ops = q.enr_destroy(dims, E, dtype=rng.choice(["csr", "dense"]))
            res = []
            for a in ops:
                ent, b = rad_entries(a.full(), sqrt_entries=True)
                bad += b
                res.append(sorted(ent))
            return res, bad
        return th
    for _ in range(40 if quick else 300):
        k = rng.randrange(1, 5)
        dims = [rng.choice([1, 2, 2, 3, 3, 4, 5]) for _ in range(k)]
        if rng.random() < 0.08:
            dims[rng.randrange(k)] = 0                       # malformed
        E = rng.choice([-1, 0, 1, 1, 2, 2, 3, 4, 6, 9])
        cases.append((("enumerate", tuple(dims), E),
                      "match state_number_enumerate %s %s with Ok r => Some r | Err _ => None end" % (
                          clist(dims, cz), cz(E)),
                      enum_impl(dims, E), k > 1 and E >= 1))
        if all(d >= 1 for d in dims) and E >= 0 and np.prod(dims) <= 200:
            cases.append((("enr_destroy", tuple(dims), E),
                          "match state_number_enumerate %s %s with Ok (l, _) => "
                          "map (enr_destroy_mode l) (seq 0 %d) | Err _ => [] end" % (
                              clist(dims, cz), cz(E), k),
                          enr_impl(dims, E), k > 1 and E >= 1))
    cases.append((("enumerate", (), 1),
                  "match state_number_enumerate [] 1 with Ok r => Some r | Err _ => None end",
                  enum_impl([], 1), False))

    # ---- _implicit_tensor_dimensions
    def itd_impl(form, sup):
        def th():
            from qutip.random_objects import _implicit_tensor_dimensions as itd
            r = call(itd, form, sup)
            if r[0] == "err":
                return None, []
            N, dd = r[1]
            bad = []
            if dd[0] != dd[1]:
                bad.append("dims halves differ")
            return (int(N), dd[0]), bad
        return th
    for _ in range(40 if quick else 200):
        kind = rng.choice(["int", "list", "nest"])
        sup = rng.random() < 0.5
        if kind == "int":
            form = rng.randrange(0, 7) if rng.random() < 0.9 else -2
            cf = "DInt %s" % cz(form)
        elif kind == "list":
            form = [rng.randrange(1, 5) for _ in range(rng.randrange(1, 4))]
            if rng.random() < 0.1:
                form[0] = -1
            cf = "DList %s" % clist(form, cz)
        else:
            a = [rng.randrange(1, 4) for _ in range(rng.randrange(1, 3))]
            form = [list(a), list(a)]
            cf = "DNest %s" % clist(form, lambda l: clist(l, cz))
        cases.append((("itd", json.dumps(form), sup),
                      "match implicit_tensor_dimensions (%s) %s with Ok r => Some r | Err _ => None end"
                      % (cf, cbool(sup)), itd_impl(form, sup), kind != "int"))
    # ---- swap(N, M): the whole column table for small sizes, sampled rows across
    # the 2^8 / 2^16 boundaries
    def swap_impl(Na, Mb, rows):
        def th():
            sw = q.swap(Na, Mb)
            A = sw.to("csr").data.as_scipy()
            bad = []
            if A.nnz != Na * Mb or np.any(A.data != 1) or list(A.indptr) != list(range(Na * Mb + 1)):
                bad.append("not one unit entry per row")
            return [int(A.indices[r]) for r in rows], bad
        return th
    for _ in range(12 if quick else 60):
        Na, Mb = rng.randrange(1, 7), rng.randrange(1, 7)
        cases.append((("swap", Na, Mb), "swap_cols %s %s" % (cnat(Na), cnat(Mb)),
                      swap_impl(Na, Mb, list(range(Na * Mb))), Na > 1 and Mb > 1))
    for Na, Mb in [(15, 17), (16, 16), (255, 257), (257, 255), (256, 256)]:
        rows = sorted({0, 1, Na * Mb - 1, Na, Mb, 255, 256, 257} | {rng.randrange(Na * Mb) for _ in range(8)})
        rows = [r for r in rows if r < Na * Mb]
        cases.append((("swap_rows", Na, Mb, tuple(rows)),
                      "map (swap_col_formula %s %s) %s" % (cz(Na), cz(Mb), clist(rows, cz)),
                      swap_impl(Na, Mb, rows), True))

    # ---- thermal_dm analytic populations, exact rationals (occupations for which
    # every float operation of the implementation is exact)
    def thermal_impl(N, nb):
        def th():
            from fractions import Fraction
            d = q.thermal_dm(N, float(nb), method="analytic").diag()
            bad = [] if not np.any(d.imag) else ["complex population"]
            return [(Fraction(float(x.real)).numerator, Fraction(float(x.real)).denominator) for x in d], bad
        return th
    for nb, Nmax in [(1, 40), (3, 30), (7, 17), (15, 12)]:
        for N in ([2, Nmax] if quick else [1, 2, 5, Nmax // 2, Nmax]):
            cases.append((("thermal", N, nb),
                          "map (fun x => (Qnum (Qred x), Zpos (Qden (Qred x)))) (thermal_analytic %s (%d # 1))"
                          % (cnat(N), nb), thermal_impl(N, nb), N > 1))

    # ---- qft: exponent of the root of unity at sampled entries
    def qft_impl(N, pairs):
        def th():
            U = q.qft(N).full()
            out, bad = [], []
            for r, c in pairs:
                z = U[r, c] * math.sqrt(N)
                k = int(round(math.atan2(z.imag, z.real) * N / (2 * math.pi))) % N
                if abs(z - complex(math.cos(2 * math.pi * k / N), math.sin(2 * math.pi * k / N))) > 1e-9:
                    bad.append("entry (%d,%d) is not a root of unity / sqrt(N)" % (r, c))
                out.append(k)
            return out, bad
        return th
    for N in ([1, 2, 3, 5, 8, 16, 255, 257] if quick else [1, 2, 3, 4, 5, 7, 8, 12, 16, 64, 255, 256, 257]):
        pairs = sorted({(0, 0), (N - 1, N - 1), (1 % N, N - 1), (N // 2, N // 2)}
                       | {(rng.randrange(N), rng.randrange(N)) for _ in range(8)})
        cases.append((("qft", N, tuple(pairs)),
                      "map (fun p => Nat.modulo (qft_exponent (fst p) (snd p)) %s) %s" % (
                          cnat(N), clist(pairs, lambda p: "(%s, %s)" % (cnat(p[0]), cnat(p[1])))),
                      qft_impl(N, pairs), N > 2))

    # ---- enr_thermal_dm at occupations for which the unnormalised weights and their
    # sum are exact floats (n in {0, 1, 3}; mixed zero / non-zero lists): the
    # implementation must return the correctly rounded quotient of the model's
    # exact rationals
    def enrth_impl(dims, E, ns):
        def th():
            r = call(q.enr_thermal_dm, dims, E, [float(x) for x in ns])
            if r[0] == "err":
                return None, [r[1:]]
            M = r[1].full()
            bad = []
            if np.any(M - np.diag(np.diag(M))) or np.any(np.diag(M).imag):
                bad.append("not a real diagonal matrix")
            if not np.all(np.isfinite(M)):
                bad.append("non-finite entries")
            return [float(x.real).hex() for x in np.diag(M)], bad
        return th
    for _ in range(14 if quick else 80):
        k = rng.randrange(1, 4)
        dims = [rng.randrange(1, 5) for _ in range(k)]
        E = rng.randrange(0, 5)
        ns = [rng.choice([0, 0, 1, 3]) for _ in range(k)]
        cases.append((("enr_thermal", tuple(dims), E, tuple(ns)),
                      "match state_number_enumerate %s %s with Ok (l, _) => map (fun x => (Qnum (Qred x), "
                      "Zpos (Qden (Qred x)))) (enr_thermal l %s) | Err _ => [] end" % (
                          clist(dims, cz), cz(E), clist(ns, lambda x: "(%d # 1)%%Q" % x)),
                      enrth_impl(dims, E, ns), any(ns) and not all(ns)))

    # ---- hadamard_transform: sampled entries against the model (sign and the
    # exact common factor 2**(-N/2)); qubit counts across the 8-bit boundary
    from qutip.core import gates as G

    def had_impl(N, i, j):
        def th():
            M = hadamard_matrix(N)
            x = M[i, j]
            f = 2 ** (-N / 2)
            bad = []
            if x.imag != 0 or abs(x.real) != f:
                bad.append("entry (%d,%d) = %r is not +-2**(-N/2)" % (i, j, x))
                return None, bad
            sg = 1 if x.real > 0 else -1
            return (sg, sg), bad
        return th
    for N in ([1, 2, 3, 8, 9, 10] if quick else [1, 2, 3, 4, 7, 8, 9, 10, 11, 12]):
        top = 2 ** N - 1
        idx = {0, 1, top, top // 2, min(top, 255), min(top, 256), min(top, 257), min(top, 300),
               min(top, 511), min(top, 512), min(top, 768)}
        idx |= {rng.randrange(0, top + 1) for _ in range(4)}
        idx |= {rng.randrange(top // 2, top + 1) for _ in range(3)}
        pairs = {(i, j) for i in sorted(idx)[-5:] for j in sorted(idx)[-5:]}
        pairs |= {(rng.choice(sorted(idx)), rng.choice(sorted(idx))) for _ in range(12)}
        for (i, j) in sorted(pairs)[: (30 if quick else 60)]:
            cases.append((("hadamard", N, i, j),
                          "(hadamard_sign %d%%N %d%%N, hpow %s %d%%N %d%%N)" % (i, j, cnat(N), i, j),
                          had_impl(N, i, j), N >= 2))
    return cases


_HAD = {}


def hadamard_matrix(N):
    """the real hadamard_transform(N) as a dense array (built once per run)"""
    if N not in _HAD:
        from qutip.core import gates as G
        _HAD[N] = G.hadamard_transform(N).full()
    return _HAD[N]


def canon_model(key, v):
    """bring a parsed Coq value into the shape the impl thunk returns"""
    kind = key[0]
    if kind in ("ladder", "jmat", "diags"):
        return canon_model_nz(v)
    if kind in ("charge", "tunneling"):
        nz = canon_model_nz(v[0])
        return None if nz is None else (nz, v[1])
    if kind == "qdiags_flags":
        def ob(x):
            return None if x is None else x[1]
        return (ob(v[0]), ob(v[1]))
    if kind == "hadamard":
        return (v[0], v[1])
    if kind in ("swap", "swap_rows", "qft"):
        return list(v)
    if kind == "thermal":
        return [tuple(x) for x in v]
    if kind == "enr_thermal":
        return [float(a / b).hex() if b else "nan" for a, b in v]   # int / int is correctly rounded
    if kind == "basis":
        return None if v is None else v[1]
    if kind in ("w", "ghz"):
        return sorted(x[1] for x in v)
    if kind == "enumerate":
        if v is None:
            return None
        l, ok = v[1]
        return [list(s) for s in l] if ok else ("out-of-fuel", l)
    if kind == "enr_destroy":
        res = []
        for mode in v:
            res.append(sorted((x[1][0], x[1][1], x[1][2]) if isinstance(x, tuple) and x[0] == "Ok"
                              else ("KeyError",) for x in mode))
        return res
    if kind == "itd":
        if v is None:
            return None
        N, form = v[1]
        if form[0] == "DList":
            return (N, list(form[1]))
        if form[0] == "DNest":
            return (N, [list(x) for x in form[1]])
        return (N, form[1])
    raise KeyError(kind)


def impl_shape(key, r):
    kind = key[0]
    if r is None:
        return None
    if kind in ("charge", "tunneling"):
        return ((r[0][0], [tuple(x) for x in r[0][1]]), r[1])
    if kind in ("ladder", "jmat", "diags"):
        return (r[0], [tuple(x) for x in r[1]])
    if kind == "enr_destroy":
        return [sorted(tuple(x) for x in m) for m in r]
    return r


# ------------------------------------------------- implementation-level oracle


def _report(ctx, site, sig, what, detail):
    ctx.violation(site, sig, what, detail)


FLAGBAD = []


def check_cached_flags(ctx, name, args, qobj, tol=1e-9):
    """cached _isherm/_isunitary literal flags against the matrix itself;
    mismatches are collected in FLAGBAD and reported (grouped) by
    report_flags()"""
    M = qobj.full()
    if M.shape[0] != M.shape[1]:
        return
    herm_dev = float(np.max(np.abs(M - M.conj().T))) if M.size else 0.0
    uni_dev = float(np.max(np.abs(M @ M.conj().T - np.eye(M.shape[0])))) if M.size else 0.0
    isdiag = not np.any(M - np.diag(np.diag(M)))
    d = np.diag(M)
    for fname, cached, dv in (("isherm", qobj._isherm, herm_dev),
                              ("isunitary", qobj._isunitary, uni_dev)):
        if cached is None:
            continue
        cached = bool(cached)
        truth = dv < tol
        if dv > 1e-12 and dv < 1e-6:
            continue                    # numerically borderline: not judged
        if cached == truth:
            continue
        detail = {"constructor": name, "args": args, "flag": fname, "cached": cached,
                  "deviation": dv, "matrix": [[[float(z.real), float(z.imag)] for z in row]
                                              for row in M[:6, :6]]}
        # attribution to the two qdiags formula defects (model: qdiags_flags)
        if (isdiag and fname == "isunitary" and cached and np.all(np.abs(d) <= 1 + 1e-12)):
            grp = "qdiags:isunitary"
        elif (isdiag and fname == "isherm" and cached and np.all(d.imag <= 1e-12)):
            grp = "qdiags:isherm"
        elif M.shape == (1, 1):
            grp = "dim1"
        else:
            grp = "other"
        FLAGBAD.append((grp, detail))


def report_flags(ctx):
    groups = {}
    for grp, det in FLAGBAD:
        groups.setdefault(grp, []).append(det)
    del FLAGBAD[:]
    if "qdiags:isunitary" in groups:
        g = groups["qdiags:isunitary"]
        ctx.violation("operators.qdiags:isunitary", "abs(d)-1<=atol without outer abs",
                      "%s%r is flagged isunitary=True but is not unitary (diagonal entries with |d|<1); "
                      "%d constructor calls affected" % (g[0]["constructor"], tuple(g[0]["args"]), len(g)),
                      {"first": g[0], "constructor": g[0]["constructor"], "args": g[0]["args"],
                       "affected": sorted(set(x["constructor"] for x in g))})
    if "qdiags:isherm" in groups:
        g = groups["qdiags:isherm"]
        ctx.violation("operators.qdiags:isherm", "imag(d)<=atol without abs",
                      "%s%r is flagged isherm=True but has a negative imaginary diagonal entry"
                      % (g[0]["constructor"], tuple(g[0]["args"])),
                      {"first": g[0], "constructor": g[0]["constructor"], "args": g[0]["args"],
                       "affected": sorted(set(x["constructor"] for x in g))})
    if "dim1" in groups:
        g = groups["dim1"]
        sig = sorted(set("%s:%s=%s" % (x["constructor"], x["flag"], x["cached"]) for x in g))
        ctx.violation("flags:dimension-1-literals", sig,
                      "literal flags are wrong for the 1x1 result of: %s" % ", ".join(sig),
                      {"mismatches": g})
    for det in groups.get("other", []):
        ctx.violation("flags:" + det["constructor"], "%s cached %s" % (det["flag"], det["cached"]),
                      "%s%r: cached %s=%s contradicts the matrix (deviation %.3g)"
                      % (det["constructor"], tuple(det["args"]), det["flag"], det["cached"],
                         det["deviation"]), det)


def dev(A, B):
    return float(np.max(np.abs(A - B))) if A.size else 0.0


def oracle(ctx, rng):
    import qutip as q
    nchk = [0]

    def case(key, nontrivial=True):
        nchk[0] += 1
        ctx.count_case(("oracle",) + tuple(key), nontrivial)

    # -- dimension 1 and 2: every constructor must return an object
    dim1_root = []
    dim1_calls = [
        ("destroy", lambda: q.destroy(1)), ("create", lambda: q.create(1)),
        ("num", lambda: q.num(1)), ("position", lambda: q.position(1)),
        ("momentum", lambda: q.momentum(1)), ("jmat+", lambda: q.jmat(0, "+")),
        ("jmat-", lambda: q.jmat(0, "-")), ("jmatx", lambda: q.jmat(0, "x")),
        ("jmaty", lambda: q.jmat(0, "y")), ("jmatz", lambda: q.jmat(0, "z")),
        ("displace", lambda: q.displace(1, 0.5)), ("squeeze", lambda: q.squeeze(1, 0.5)),
        ("coherent", lambda: q.coherent(1, 0.5)),
        ("coherent_analytic", lambda: q.coherent(1, 0.5, method="analytic")),
        ("coherent_dm", lambda: q.coherent_dm(1, 0.5)),
        ("thermal_dm", lambda: q.thermal_dm(1, 0.5)),
        ("spin_coherent", lambda: q.spin_coherent(0, 0.3, 0.2)),
        ("spin_state", lambda: q.spin_state(0, 0)), ("qft", lambda: q.qft(1)),
        ("phase", lambda: q.phase(1)), ("charge", lambda: q.charge(0)),
        ("tunneling", lambda: q.tunneling(1, 1)), ("basis", lambda: q.basis(1, 0)),
        ("fock_dm", lambda: q.fock_dm(1, 0)), ("qeye", lambda: q.qeye(1)),
        ("projection", lambda: q.projection(1, 0, 0)), ("qzero", lambda: q.qzero(1)),
        ("maximally_mixed_dm", lambda: q.maximally_mixed_dm(1)), ("swap", lambda: q.swap(1, 1)),
        ("qutrit_ops", lambda: q.qutrit_ops()[0]), ("sigmax", lambda: q.sigmax()),
        ("rand_kraus_map", lambda: q.rand_kraus_map(1, seed=1)[0]),
        ("enr_destroy", lambda: q.enr_destroy([1], 0)[0]),
        ("rand_herm", lambda: q.rand_herm(1, seed=1)), ("rand_unitary", lambda: q.rand_unitary(1, seed=1)),
        ("rand_herm_eigen", lambda: q.rand_herm(1, distribution="eigen", eigenvalues=[2.0], seed=1)),
        ("rand_herm_pos_def", lambda: q.rand_herm(1, distribution="pos_def", seed=1)),
        ("rand_dm_eigen", lambda: q.rand_dm(1, distribution="eigen", eigenvalues=[1.0], seed=1)),
        ("rand_dm_pure", lambda: q.rand_dm(1, distribution="pure", seed=1)),
        ("rand_dm_herm", lambda: q.rand_dm(1, distribution="herm", seed=1)),
        ("rand_dm_hs", lambda: q.rand_dm(1, distribution="hs", seed=1)),
        ("rand_unitary_exp", lambda: q.rand_unitary(1, distribution="exp", seed=1)),
        ("rand_ket_fill", lambda: q.rand_ket(1, distribution="fill", seed=1)),
        ("rand_ket", lambda: q.rand_ket(1, seed=1)), ("rand_dm", lambda: q.rand_dm(1, seed=1)),
        ("rand_stochastic", lambda: q.rand_stochastic(1, seed=1)),
        ("rand_super", lambda: q.rand_super(1, seed=1)),
        ("rand_super_bcsz", lambda: q.rand_super_bcsz(1, seed=1)),
    ]
    for name, th in dim1_calls:
        case(("dim1", name), False)
        r = call_watchdog(th)
        if r[0] == "err":
            if r[1] == "ValueError" and ROOT_DIAGS in r[2]:
                dim1_root.append(name)
            else:
                _report(ctx, "dim1:" + name, r[1], "%s raises %s at dimension 1: %s" % (
                    name, r[1], r[2][:200]), {"constructor": name, "error": r[1:]})
        else:
            if isinstance(r[1], q.Qobj) and name not in ("basis", "spin_state", "rand_ket",
                                                         "coherent", "coherent_analytic",
                                                         "spin_coherent"):
                check_cached_flags(ctx, name, [1], r[1])
    if dim1_root:
        _report(ctx, "data.diags:empty-flat-diagonal", "dimension-1 constructors raise",
                "constructors raise ValueError('%s') for dimension 1 / spin 0: %s" % (
                    ROOT_DIAGS, ", ".join(dim1_root)),
                {"constructors": dim1_root, "replay": "destroy(1)"})

    # -- ladder operators on number states, commutator, position/momentum
    Ns = [2, 3, 4, 5, 8, 13] + [rng.randrange(2, 40) for _ in range(2 if ctx.quick else 12)]
    for N, off in [(2, 1)] + [(N, off) for N in Ns for off in [0, rng.choice([1, 2, 7])]]:
        if True:
            case(("ladder", N, off))
            a, ad, n_ = q.destroy(N, off), q.create(N, off), q.num(N, off)
            A, AD = a.full(), ad.full()
            bad = []
            if not np.array_equal(AD, A.conj().T):
                bad.append("create != destroy.dag() exactly")
            for k in range(N):
                ket = q.basis(N, k + off, offset=off)
                low = (a @ ket).full()[:, 0]
                want = np.zeros(N, complex)
                if k >= 1:
                    want[k - 1] = math.sqrt(k + off)
                if dev(low, want) > 1e-12 * max(1, N + off):
                    bad.append("a|%d> has wrong matrix element" % (k + off))
                    break
            comm = A @ AD - AD @ A
            want = np.eye(N, dtype=complex)
            want[0, 0] += off
            want[N - 1, N - 1] -= N + off
            if dev(comm, want) > 1e-9 * (N + off):
                bad.append("truncated commutator [a,a^dag] wrong")
            wantn = np.diag(np.arange(off, off + N)).astype(complex)
            if not np.array_equal(n_.full(), wantn):
                bad.append("num != diag(offset..offset+N-1)")
            x, p = q.position(N, off).full(), q.momentum(N, off).full()
            if dev(x, (A + AD) / math.sqrt(2)) > 1e-12 * N or dev(p, -1j * (A - AD) / math.sqrt(2)) > 1e-12 * N:
                bad.append("position/momentum differ from (a +- a^dag)/sqrt2")
            for b in bad:
                _report(ctx, "operators.ladder", b.split(" ")[0] + ":" + b.split(" ")[-1], b,
                        {"N": N, "offset": off, "what": b})
            for nm, ob in (("destroy", a), ("create", ad), ("num", n_),
                           ("position", q.position(N, off)), ("momentum", q.momentum(N, off))):
                check_cached_flags(ctx, nm, [N, off], ob)
                if ob.dims != [[N], [N]]:
                    _report(ctx, "operators." + nm, "dims", "wrong dims", {"N": N, "dims": ob.dims})

    # -- spin algebra for integer and half-integer j
    for J in [1, 2, 3, 4, 5, 9] + [rng.randrange(1, 30) for _ in range(2 if ctx.quick else 10)]:
        j = J / 2.0
        case(("spin", J))
        jx, jy, jz = (o.full() for o in q.jmat(j))
        jp, jm = q.jmat(j, "+").full(), q.jmat(j, "-").full()
        tol = 1e-9 * (J + 1) ** 2
        bad = []
        if dev(jp @ jm - jm @ jp, 2 * jz) > tol:
            bad.append("[J+,J-] != 2Jz")
        if dev(jz @ jp - jp @ jz, jp) > tol or dev(jz @ jm - jm @ jz, -jm) > tol:
            bad.append("[Jz,J+-] != +-J+-")
        if dev(jx @ jy - jy @ jx, 1j * jz) > tol or dev(jy @ jz - jz @ jy, 1j * jx) > tol:
            bad.append("[Jx,Jy] != iJz")
        if dev(jx @ jx + jy @ jy + jz @ jz, j * (j + 1) * np.eye(J + 1)) > tol:
            bad.append("J^2 != j(j+1)")
        if not np.array_equal(2 * jx, jp + jm) or not np.array_equal(jm, jp.conj().T):
            bad.append("Jx != (J+ + J-)/2 exactly")
        # the linear combinations of C20_spin_xyz_commutator, bit for bit
        if not np.array_equal(jx, (jp + jm) * 0.5) or not np.array_equal(jy, jp * (-0.5j) + jm * (0.5j)):
            bad.append("Jx/Jy are not (J+ + J-) 0.5 and J+ (-0.5i) + J- (0.5i)")
        if not np.array_equal(np.diag(jz), np.array([j - k for k in range(J + 1)], complex)):
            bad.append("Jz diagonal != j..-j")
        for b in bad:
            _report(ctx, "operators.jmat", b, b, {"J": J, "what": b})
        for w in "xyz+-":
            check_cached_flags(ctx, "jmat" + w, [j], q.jmat(j, w))

    # -- qdiags literal flags against the matrix (exact Gaussian-integer data)
    for d, off in [([0, 1], 0), ([1, -1], 0), ([1j, -1j], 0), ([-1j], 0), ([2, 1], 0),
                   ([0.5, 0.5], 0), ([0, 0], 1), ([1, 1], 1), ([0, 0, 0], -1)]:
        case(("qdiags", str(d), off), False)
        ob = q.qdiags(d, off)
        M = ob.full()
        if off != 0 and not np.any(M) and ob._isherm is False:
            _report(ctx, "operators.qdiags:offdiagonal-zero", "isherm=False for the zero matrix",
                    "qdiags(%r, %d) is the zero matrix but is flagged isherm=False" % (d, off),
                    {"diag": str(d), "offset": off})
        else:
            check_cached_flags(ctx, "qdiags", [str(d), off], ob)

    # -- exponentials of generators, Fourier transform, parametrised gates: unitary
    from qutip.core import gates as G
    for N in [2, 3, 5, 9]:
        z = complex(rng.randrange(-8, 9), rng.randrange(-8, 9)) / 8
        for nm, ob in (("displace", q.displace(N, z)), ("squeeze", q.squeeze(N, z)),
                       ("qft", q.qft(N)), ("phase", q.phase(N)), ("charge", q.charge(N)),
                       ("tunneling", q.tunneling(2 * N, N)), ("tunneling", q.tunneling(N + 1, 1))):
            case((nm, N))
            U = ob.full()
            if nm in ("displace", "squeeze", "qft") and dev(U @ U.conj().T, np.eye(U.shape[0])) > 1e-9 * N:
                _report(ctx, "operators." + nm, "not unitary", "%s(%d) not unitary" % (nm, N),
                        {"N": N, "z": [z.real, z.imag]})
            check_cached_flags(ctx, nm, [N], ob)
        # displacement group relation D(z)D(-z) = 1 holds up to truncation only; not judged
    for k in range(6 if ctx.quick else 40):
        th, ph = rng.randrange(-16, 17) * math.pi / 8, rng.randrange(-16, 17) * math.pi / 8
        gl = [("rx", G.rx(th)), ("ry", G.ry(th)), ("rz", G.rz(th)), ("phasegate", G.phasegate(th)),
              ("qrot", G.qrot(th, ph)), ("cphase", G.cphase(th)), ("swapalpha", G.swapalpha(th)),
              ("molmer_sorensen", G.molmer_sorensen(th)), ("globalphase", G.globalphase(th, 2))]
        for nm, ob in gl:
            case((nm, k))
            U = ob.full()
            if dev(U @ U.conj().T, np.eye(U.shape[0])) > 1e-12 * 8:
                _report(ctx, "gates." + nm, "not unitary", "%s(%r) not unitary" % (nm, th),
                        {"theta_over_pi8": round(th * 8 / math.pi)})
            check_cached_flags(ctx, nm, [round(th * 8 / math.pi)], ob)
        # group relations: R(a)R(b) = R(a+b)
        for nm, f in (("rx", G.rx), ("ry", G.ry), ("rz", G.rz)):
            if dev((f(th) @ f(ph)).full(), f(th + ph).full()) > 1e-12 * 8:
                _report(ctx, "gates." + nm, "group", "%s(a)%s(b) != %s(a+b)" % (nm, nm, nm),
                        {"a": th, "b": ph})
    for nm in ["cnot", "csign", "berkeley", "swap", "iswap", "sqrtswap", "sqrtiswap", "fredkin",
               "toffoli", "snot", "sqrtnot", "cy_gate", "cz_gate", "s_gate", "t_gate", "cs_gate",
               "ct_gate"]:
        case(("gate", nm))
        ob = getattr(G, nm)()
        U = ob.full()
        if dev(U @ U.conj().T, np.eye(U.shape[0])) > 1e-12 * 8:
            _report(ctx, "gates." + nm, "not unitary", nm + " not unitary", {})
        check_cached_flags(ctx, nm, [], ob)
    for N in [1, 2, 3]:
        case(("hadamard", N))
        ob = G.hadamard_transform(N)
        U = ob.full()
        if dev(U @ U, np.eye(2 ** N)) > 1e-12 * 8:
            _report(ctx, "gates.hadamard_transform", "involution", "H^2 != 1", {"N": N})
        check_cached_flags(ctx, "hadamard_transform", [N], ob)
    cl = G.qubit_clifford_group()
    case(("clifford",))
    if len(cl) != 24 or any(dev(c.full() @ c.full().conj().T, np.eye(2)) > 1e-9 for c in cl):
        _report(ctx, "gates.qubit_clifford_group", "unitary-24", "Clifford group wrong", {})
    else:
        X, Zm = q.sigmax().full(), q.sigmaz().full()
        P = [np.eye(2), X, Zm, X @ Zm]
        for c in cl:      # Clifford: conjugation maps Paulis to Paulis up to phase
            for p in (X, Zm):
                img = c.full() @ p @ c.full().conj().T
                if not any(abs(abs(np.trace(img @ pp.conj().T)) - 2) < 1e-9 for pp in P):
                    _report(ctx, "gates.qubit_clifford_group", "normaliser",
                            "an element does not normalise the Pauli group", {})

    # -- named states: normalisation, moments, closed forms
    for st, want in (("00", [1, 0, 0, 1]), ("01", [1, 0, 0, -1]), ("10", [0, 1, 1, 0]), ("11", [0, 1, -1, 0])):
        case(("bell", st), False)
        v = q.bell_state(st)
        if not np.array_equal(v.full()[:, 0], np.array(want, complex) * math.sqrt(0.5)) \
                or v.dims[0] != [2, 2] or not v.isket:
            _report(ctx, "states.bell_state", st, "bell_state(%s) entries/dims wrong" % st, {"state": st})
    if not np.array_equal(q.singlet_state().full(), q.bell_state("11").full()):
        _report(ctx, "states.singlet_state", "value", "singlet != B11", {})
    tr = q.triplet_states()
    if [list(np.flatnonzero(t.full()[:, 0])) for t in tr] != [[3], [1, 2], [0]]:
        _report(ctx, "states.triplet_states", "positions", "triplet positions wrong", {})
    for N in [1, 2, 3, 5, 8] + ([rng.randrange(2, 30)] if ctx.quick else list(range(9, 30))):
        for alpha in [0.0, 0.5, complex(rng.randrange(-6, 7), rng.randrange(-6, 7)) / 4]:
            case(("coherent", N, str(alpha)))
            # analytic variant = closed-form entries of the untruncated state
            ca = q.coherent(N, alpha, method="analytic").full()[:, 0]
            want = np.array([np.exp(-abs(alpha) ** 2 / 2) * alpha ** n / math.sqrt(math.factorial(n))
                             for n in range(N)], complex)
            if dev(ca, want) > 1e-12:
                _report(ctx, "states.coherent", "analytic-entries",
                        "coherent(analytic) differs from exp(-|a|^2/2) a^n/sqrt(n!)",
                        {"N": N, "alpha": [alpha.real if isinstance(alpha, complex) else alpha,
                                           alpha.imag if isinstance(alpha, complex) else 0]})
            if N >= 2:
                co = q.coherent(N, alpha)
                if abs(co.norm() - 1) > 1e-9:
                    _report(ctx, "states.coherent", "operator-norm", "coherent(operator) not normalised",
                            {"N": N})
                cd = q.coherent_dm(N, alpha)
                if abs(cd.tr() - 1) > 1e-9 or dev(cd.full(), (co @ co.dag()).full()) > 1e-12:
                    _report(ctx, "states.coherent_dm", "projector", "coherent_dm != |a><a|", {"N": N})
        for nbar in [0, 0.5, 2.0]:
            case(("thermal", N, nbar))
            ta = q.thermal_dm(N, nbar, method="analytic")
            to = q.thermal_dm(N, nbar)
            d_ = np.real(np.diag(ta.full()))
            if nbar > 0 and N >= 2:
                ratio = d_[1:] / d_[:-1]
                if np.max(np.abs(ratio - nbar / (1 + nbar))) > 1e-9:
                    _report(ctx, "states.thermal_dm", "analytic-ratio",
                            "analytic thermal populations are not geometric with ratio n/(1+n)",
                            {"N": N, "n": nbar})
            if abs(to.tr() - 1) > 1e-9:
                _report(ctx, "states.thermal_dm", "operator-trace", "thermal_dm(operator) trace != 1",
                        {"N": N, "n": nbar})
            check_cached_flags(ctx, "thermal_dm_analytic", [N, nbar], ta)
            check_cached_flags(ctx, "thermal_dm", [N, nbar], to)
        case(("fock_dm", N), False)
        check_cached_flags(ctx, "fock_dm", [N, N - 1], q.fock_dm(N, N - 1))
        check_cached_flags(ctx, "maximally_mixed_dm", [N], q.maximally_mixed_dm(N))
        if N >= 2:
            check_cached_flags(ctx, "projection", [N, 0, N - 1], q.projection(N, 0, N - 1))
        check_cached_flags(ctx, "qeye", [N], q.qeye(N))
        check_cached_flags(ctx, "qzero", [N], q.qzero(N))
    for J in [1, 2, 3, 6]:
        j = J / 2.0
        th, ph = rng.randrange(0, 9) * math.pi / 8, rng.randrange(0, 17) * math.pi / 8
        case(("spin_coherent", J))
        sc = q.spin_coherent(j, th, ph)
        jx, jy, jz = q.jmat(j)
        m = [q.expect(o, sc) for o in (jx, jy, jz)]
        want = [j * math.sin(th) * math.cos(ph), j * math.sin(th) * math.sin(ph), j * math.cos(th)]
        if abs(sc.norm() - 1) > 1e-9 or max(abs(a - b) for a, b in zip(m, want)) > 1e-9:
            _report(ctx, "states.spin_coherent", "moments",
                    "spin_coherent norm/<J> differ from j(sin t cos p, sin t sin p, cos t)",
                    {"J": J, "theta_pi8": round(th * 8 / math.pi), "phi_pi8": round(ph * 8 / math.pi)})
    for N in [2, 3, 6]:
        case(("phase_basis", N))
        vs = [q.phase_basis(N, m).full()[:, 0] for m in range(N)]
        Gm = np.array([[np.vdot(a, b) for b in vs] for a in vs])
        if dev(Gm, np.eye(N)) > 1e-9:
            _report(ctx, "states.phase_basis", "orthonormal", "phase basis not orthonormal", {"N": N})

    # -- ENR operators = full-space operators restricted to the allowed subspace
    for _ in range(6 if ctx.quick else 40):
        k = rng.randrange(1, 4)
        dims = [rng.randrange(1, 5) for _ in range(k)]
        E = rng.randrange(0, 6)
        case(("enr", tuple(dims), E), k > 1)
        n, s2i, i2s = q.enr_state_dictionaries(dims, E)
        allowed = [s for s in itertools.product(*[range(d) for d in dims]) if sum(s) <= E]
        if [i2s[i] for i in range(n)] != allowed:
            _report(ctx, "energy_restricted.enr_state_dictionaries", "enumeration",
                    "restricted states are not the admissible states in standard order",
                    {"dims": dims, "excitations": E})
            continue
        ops = q.enr_destroy(dims, E)
        fullidx = [int(np.ravel_multi_index(s, dims)) for s in allowed]
        for m, a in enumerate(ops):
            fa = q.tensor([q.destroy(d) if (i == m and d > 1) else
                           (q.qzero(1) if (i == m) else q.qeye(d))
                           for i, d in enumerate(dims)]).full()
            if not np.array_equal(a.full(), fa[np.ix_(fullidx, fullidx)]):
                _report(ctx, "energy_restricted.enr_destroy", "restriction",
                        "enr_destroy differs from the restricted full-space operator",
                        {"dims": dims, "excitations": E, "mode": m})
        st = list(rng.choice(allowed))
        f = q.enr_fock(dims, E, st).full()[:, 0]
        if list(np.flatnonzero(f)) != [s2i[tuple(st)]] or f[s2i[tuple(st)]] != 1:
            _report(ctx, "energy_restricted.enr_fock", "position", "enr_fock wrong", {"dims": dims})
        if not np.array_equal(q.enr_identity(dims, E).full(), np.eye(n)):
            _report(ctx, "energy_restricted.enr_identity", "value", "enr_identity wrong", {"dims": dims})

    # -- random objects: class membership, dims labels, determinism
    def rnd_cases():
        for _ in range(5 if ctx.quick else 40):
            form = rng.choice([2, 3, 4, 6, [2, 2], [2, 3], [3], 1, 5])
            yield form, rng.randrange(1 << 30)
    for form, seed in rnd_cases():
        N = int(np.prod(form))
        dl = form if isinstance(form, list) else [form]
        dens = rng.choice([0.05, 0.3, 0.5, 0.75, 1.0])
        kw = {"form": form, "seed": seed, "density": dens}

        def twice(f):
            a, b = f(seed), f(seed)
            return a, (a.dims == b.dims and np.array_equal(a.full(), b.full()))
        for dist in ["fill", "pos_def", "eigen"]:
            if dist == "eigen" and N == 1:
                continue            # covered (with a watchdog) by the dimension-1 calls
            case(("rand_herm", str(form), dist, dens))
            extra = {"eigenvalues": list(np.arange(N) - 1.0)} if dist == "eigen" else {}
            H, same = twice(lambda s: q.rand_herm(form, dens, dist, seed=s, **extra))
            M = H.full()
            bad = []
            if dist != "eigen" and not np.array_equal(M, M.conj().T):
                bad.append("not exactly Hermitian")
            if dist == "eigen" and dev(M, M.conj().T) > 1e-12 * N:
                bad.append("not Hermitian")
            if dist == "pos_def" and np.min(np.linalg.eigvalsh(M)) <= 0:
                bad.append("pos_def not positive")
            if dist == "eigen" and dev(np.sort(np.linalg.eigvalsh(M)), np.arange(N) - 1.0) > 1e-9 * N:
                bad.append("eigenvalues not the requested ones")
            if H.dims != [dl, dl]:
                bad.append("dims label")
            if not same:
                bad.append("same seed gives different object")
            for b in bad:
                _report(ctx, "random_objects.rand_herm", dist + ":" + b, "rand_herm: " + b, dict(kw, dist=dist))
            check_cached_flags(ctx, "rand_herm_" + dist, [str(form)], H)
        for dist in ["haar", "exp"]:
            case(("rand_unitary", str(form), dist, dens))
            U, same = twice(lambda s: q.rand_unitary(form, dens, dist, seed=s))
            bad = []
            if dev(U.full() @ U.full().conj().T, np.eye(N)) > 1e-9 * N:
                bad.append("not unitary")
            if U.dims != [dl, dl]:
                bad.append("dims label")
            if not same:
                bad.append("same seed gives different object")
            for b in bad:
                _report(ctx, "random_objects.rand_unitary", dist + ":" + b, "rand_unitary: " + b, dict(kw, dist=dist))
        for dist in ["haar", "fill"]:
            case(("rand_ket", str(form), dist, dens))
            k_, same = twice(lambda s: q.rand_ket(form, dens, dist, seed=s))
            bad = []
            if abs(k_.norm() - 1) > 1e-9:
                bad.append("not normalised")
            if k_.dims[0] != dl or int(np.prod(k_.dims[1])) != 1 or not (k_.isket or N == 1):
                bad.append("dims label")
            if not same:
                bad.append("same seed gives different object")
            for b in bad:
                _report(ctx, "random_objects.rand_ket", dist + ":" + b, "rand_ket: " + b, dict(kw, dist=dist))
        for dist in ["ginibre", "hs", "pure", "eigen", "herm"]:
            rank = rng.randrange(1, N + 1) if dist == "ginibre" else None
            if dist == "eigen" and N == 1:
                continue
            case(("rand_dm", str(form), dist, dens, rank))
            extra = {}
            if dist == "eigen":
                ev = np.arange(1, N + 1, dtype=float)
                extra["eigenvalues"] = list(ev / ev.sum())
            if rank:
                extra["rank"] = rank
            D, same = twice(lambda s: q.rand_dm(form, dens, dist, seed=s, **extra))
            M = D.full()
            bad = []
            if dev(M, M.conj().T) > 1e-12:
                bad.append("not Hermitian")
            if abs(np.trace(M) - 1) > 1e-9:
                bad.append("trace != 1")
            ev_ = np.linalg.eigvalsh((M + M.conj().T) / 2)
            if ev_.min() < -1e-9:
                bad.append("not positive semidefinite")
            if dist == "ginibre" and int(np.sum(ev_ > 1e-9)) != rank:
                bad.append("rank != requested")
            if dist == "pure" and int(np.sum(ev_ > 1e-9)) != 1:
                bad.append("pure state rank != 1")
            if D.dims != [dl, dl]:
                bad.append("dims label")
            if not same:
                bad.append("same seed gives different object")
            for b in bad:
                _report(ctx, "random_objects.rand_dm", dist + ":" + b, "rand_dm: " + b,
                        dict(kw, dist=dist, rank=rank))
            check_cached_flags(ctx, "rand_dm_" + dist, [str(form)], D)
        for kind in ["left", "right"]:
            case(("rand_stochastic", str(form), kind, dens))
            S, same = twice(lambda s: q.rand_stochastic(form, dens, kind, seed=s))
            M = S.full()
            sums = M.sum(axis=0 if kind == "left" else 1)
            bad = []
            if np.max(np.abs(sums - 1)) > 1e-12 or M.imag.any() or (M.real < 0).any():
                bad.append("not stochastic")
            if S.dims != [dl, dl]:
                bad.append("dims label")
            if not same:
                bad.append("same seed gives different object")
            for b in bad:
                _report(ctx, "random_objects.rand_stochastic", kind + ":" + b, "rand_stochastic: " + b,
                        dict(kw, kind=kind))
        if 2 <= N <= 4:
            case(("rand_kraus_map", str(form)))
            K = q.rand_kraus_map(form, seed=seed)
            K2 = q.rand_kraus_map(form, seed=seed)
            tot = sum(k.full().conj().T @ k.full() for k in K)
            bad = []
            if len(K) != N * N or dev(tot, np.eye(N)) > 1e-9:
                bad.append("not a complete Kraus set")
            if any(k.dims != [dl, dl] for k in K):
                bad.append("dims label")
            if any(not np.array_equal(a.full(), b.full()) for a, b in zip(K, K2)):
                bad.append("same seed gives different object")
            for b in bad:
                _report(ctx, "random_objects.rand_kraus_map", b, "rand_kraus_map: " + b, kw)
            for nm, f in (("rand_super", lambda s: q.rand_super(form, seed=s)),
                          ("rand_super_bcsz", lambda s: q.rand_super_bcsz(form, seed=s)),
                          ("rand_super_bcsz_rank", lambda s: q.rand_super_bcsz(form, rank=2, seed=s))):
                case((nm, str(form)))
                S, same = twice(f)
                bad = []
                if not S.issuper or S.dims != [[dl, dl], [dl, dl]]:
                    bad.append("dims label")
                C = q.to_choi(S).full()
                evs = np.linalg.eigvalsh((C + C.conj().T) / 2)
                if dev(C, C.conj().T) > 1e-9 or evs.min() < -1e-9:
                    bad.append("not completely positive")
                # trace preserving: sum_i C[(i,a),(i,b)]... use the superoperator: tr(S(rho)) = tr(rho)
                Sm = q.to_super(S).full()
                vecI = np.eye(N).reshape(-1, order="F")
                if dev(vecI.conj() @ Sm, vecI.conj()) > 1e-9:
                    bad.append("not trace preserving")
                if nm == "rand_super_bcsz_rank" and int(np.sum(evs > 1e-9)) != 2:
                    bad.append("Choi rank != requested")
                if not same:
                    bad.append("same seed gives different object")
                for b in bad:
                    _report(ctx, "random_objects." + nm, b, nm + ": " + b, kw)
    report_flags(ctx)
    return nchk[0]



# --------------------------------------------- boundary-size parameter oracle
# Offsets / dimensions / spins / amplitudes at the places where an
# intermediate quantity leaves a machine range although the answer does not:
# 20!/21! (int64), 170!/171! (double), exp(-|a|^2/2) underflow (|a| > 38.6),
# a**n overflow, large N.  References are independent of the implementation:
# log-gamma in log space (float) and exact integer arithmetic.
BOUNDARY_INTS = [0, 1, 2, 3, 12, 19, 20, 21, 22, 23, 25, 30, 33, 34, 57, 64, 100, 150,
                 169, 170, 171, 172, 175, 250, 300, 301, 340, 400, 1000]


def ref_coherent(N, alpha, off):
    """exp(-|a|^2/2) a^n / sqrt(n!) for n = off .. off+N-1, evaluated in log
    space (entries below 1e-300 are returned as None: not judged)"""
    import cmath
    a = abs(alpha)
    ph = cmath.phase(alpha) if a else 0.0
    out = []
    for n in range(off, off + N):
        if a == 0:
            out.append(complex(1.0 if n == 0 else 0.0))
            continue
        lg = -a * a / 2 + n * math.log(a) - math.lgamma(n + 1) / 2
        out.append(cmath.exp(complex(lg, n * ph)) if lg > -690 else None)
    return out


def judge_vector(v, ref, tol):
    """-> None or one of 'nonfinite', 'underflow-to-zero', 'wrong-amplitude'"""
    if not np.all(np.isfinite(v)):
        return "nonfinite"
    worst = None
    for x, r in zip(v, ref):
        if r is None:
            continue
        if r == 0:
            if abs(x) > 1e-300:
                worst = "wrong-amplitude"
            continue
        if abs(x - r) > tol * abs(r):
            if x == 0:
                worst = worst or "underflow-to-zero"
            else:
                return "wrong-amplitude"
    return worst


def boundary_oracle(ctx, rng):
    import qutip as q
    nchk = [0]

    def case(key, nontrivial=True):
        nchk[0] += 1
        ctx.count_case(("boundary",) + tuple(key), nontrivial)

    pick = (lambda l, k: l) if not ctx.quick else (lambda l, k: rng.sample(l, min(k, len(l))))

    # ---- coherent / coherent_dm, analytic closed form with Fock offsets
    alphas = [0, 0.01, 0.5, complex(5, 1), 12.5, 20j, 40, complex(-30, 30)]
    offs = [0, 1, 3, 19, 20, 21, 22, 23, 25, 30, 57, 100, 150, 169, 170, 171, 175, 250, 300, 301,
            400, 1000, 1590]
    fixed = [(12, complex(5, 1), 23), (12, complex(5, 1), 21), (4, 0.5, 25), (3, 12.5, 171),
             (5, 12.5, 300), (4, 40, 100), (6, 40, 1590), (40, 40, 0), (2, 20j, 250)]
    grid = fixed + [(N, a, o) for o in pick(offs, 9) for N in pick([1, 2, 12, 40], 2)
                    for a in pick(alphas, 3)]
    seen = set()
    for N, alpha, off in grid:
        if (N, alpha, off) in seen:
            continue
        seen.add((N, alpha, off))
        case(("coherent_analytic", N, str(alpha), off))
        ref = ref_coherent(N, alpha, off)
        det = {"N": N, "alpha": [complex(alpha).real, complex(alpha).imag], "offset": off,
               "reference_first": None if ref[0] is None else [ref[0].real, ref[0].imag]}
        tol = 1e-11 * (N + off + abs(alpha) ** 2 + 10)
        r = call(q.coherent, N, alpha, offset=off, method="analytic")
        if r[0] == "err":
            kind = r[1]
            det["error"] = r[2][:200]
        else:
            v = r[1].full()[:, 0]
            kind = judge_vector(v, ref, tol)
            det["got_first"] = [float(v[0].real), float(v[0].imag)]
            if kind is None and r[1].dims != [[N], [1]]:
                kind = "dims"
        if kind is None and r[0] == "ok" and N <= 12:
            rd = call(q.coherent_dm, N, alpha, offset=off, method="analytic")
            if rd[0] == "err":
                kind = "coherent_dm:" + rd[1]
            else:
                M = rd[1].full()
                if not np.all(np.isfinite(M)):
                    kind = "coherent_dm:nonfinite"
                elif dev(M, np.outer(v, v.conj())) > 1e-12 * (1 + np.max(np.abs(M))):
                    kind = "coherent_dm:not-the-projector"
                elif np.trace(M).real > 1 + 1e-9:
                    kind = "coherent_dm:trace>1"
        if kind is not None:
            ctx.violation("states.coherent:analytic", kind,
                          "coherent(%d, %r, offset=%d, method='analytic'): %s (closed form "
                          "exp(-|a|^2/2) a^n/sqrt(n!) evaluated with log-gamma)" % (N, alpha, off, kind), det)
        # the analytic state never has norm > 1
        if r[0] == "ok" and np.all(np.isfinite(v)) and np.linalg.norm(v) > 1 + 1e-9:
            ctx.violation("states.coherent:analytic", "norm>1", "coherent analytic norm exceeds 1", det)

    # ---- coherent / displace / squeeze, operator method: large N, large amplitude
    for N, alpha in [(64, 0.5), (171, complex(5, 1)), (300, 12.5), (40, 40), (25, complex(-30, 30))]:
        case(("coherent_operator", N, str(alpha)))
        co = q.coherent(N, alpha)
        v = co.full()[:, 0]
        if not np.all(np.isfinite(v)) or abs(np.linalg.norm(v) - 1) > 1e-9:
            ctx.violation("states.coherent:operator", "norm", "coherent(%d, %r) is not a unit vector" % (N, alpha),
                          {"N": N, "alpha": [complex(alpha).real, complex(alpha).imag]})
        if N >= 4 * abs(alpha) ** 2 + 40:          # far from truncation: moments of the state
            a = q.destroy(N)
            if abs(q.expect(a, co) - alpha) > 1e-6 * (1 + abs(alpha)):
                ctx.violation("states.coherent:operator", "moment", "<a> != alpha for coherent(%d, %r)" % (N, alpha),
                              {"N": N})
        for nm, U in (("displace", q.displace(N, alpha).full()), ("squeeze", q.squeeze(N, alpha / 8).full())):
            if not np.all(np.isfinite(U)) or dev(U @ U.conj().T, np.eye(N)) > 1e-8 * N:
                ctx.violation("operators." + nm, "not unitary (boundary)", "%s(%d, .) not unitary" % (nm, N),
                              {"N": N, "alpha": [complex(alpha).real, complex(alpha).imag]})

    # ---- thermal states: geometric populations, extreme occupation numbers
    for N, nb in [(2, 1e-12), (25, 1e-12), (170, 0.5), (300, 2.0), (1000, 50.0), (40, 1e6), (171, 1e12),
                  (1100, 1e-3)]:
        case(("thermal", N, nb))
        lr = math.log(nb) - math.log1p(nb)
        ref = [math.exp(-math.log1p(nb) + k * lr) if (-math.log1p(nb) + k * lr) > -690 else None
               for k in range(N)]
        ta = call(q.thermal_dm, N, nb, method="analytic")
        to = call(q.thermal_dm, N, nb)
        for nm, r_ in (("analytic", ta), ("operator", to)):
            if r_[0] == "err":
                ctx.violation("states.thermal_dm:" + nm, r_[1], "thermal_dm(%d, %g, %s) raises %s" % (N, nb, nm, r_[1]),
                              {"N": N, "n": nb, "error": r_[2][:200]})
                continue
            M = r_[1].full()
            d_ = np.diag(M)
            kind = None
            if not np.all(np.isfinite(M)):
                kind = "nonfinite"
            elif np.any(M - np.diag(d_)):
                kind = "not diagonal"
            elif nm == "analytic":
                kind = judge_vector(d_, ref, 1e-11 * (N + 10))
            else:
                # truncated Gibbs state: trace 1 and geometric ratios
                if abs(np.sum(d_).real - 1) > 1e-9:
                    kind = "trace != 1"
                else:
                    z = sum(math.exp(k * lr) for k in range(N))
                    kind = judge_vector(d_, [None if x is None else x * (1 + nb) / z for x in ref],
                                        1e-10 * (N + 10))
            if kind:
                ctx.violation("states.thermal_dm:" + nm, kind, "thermal_dm(%d, %g, method=%s): %s" % (N, nb, nm, kind),
                              {"N": N, "n": nb, "first": [float(x.real) for x in d_[:4]]})

    # ---- ladder / number / basis with boundary offsets and large N (exact)
    for N, off in [(3, 20), (3, 21), (4, 170), (4, 171), (171, 0), (300, 25), (5, 10 ** 6),
                   (3, 2 ** 31 - 2), (3, 2 ** 31), (2, 2 ** 40), (1000, 3)]:
        case(("ladder_boundary", N, off))
        a, ad, nn = q.destroy(N, off), q.create(N, off), q.num(N, off)
        A = a.to("csr").data.as_scipy().tocoo()
        bad = None
        want = {(i, i + 1): off + i + 1 for i in range(N - 1)}
        got = {(int(i), int(j)): v for i, j, v in zip(A.row, A.col, A.data)}
        if set(got) != set(want):
            bad = "positions"
        else:
            for k_, rad in want.items():
                x = got[k_]
                if x.imag != 0 or not ulp_close(x.real, rad):
                    bad = "entry %r is not sqrt(%d)" % (k_, rad)
                    break
        ADm = ad.to("csr").data.as_scipy()
        if bad is None and (ADm != a.to("csr").data.as_scipy().conj().T).nnz:
            bad = "create != destroy.dag()"
        dn = nn.diag() if hasattr(nn, "diag") else np.diag(nn.full())
        if bad is None and [int(x.real) for x in dn] != list(range(off, off + N)):
            bad = "num diagonal"
        for k_ in (off, off + N - 1):
            b = q.basis(N, k_, offset=off).full()[:, 0]
            if list(np.flatnonzero(b)) != [k_ - off]:
                bad = bad or "basis position"
        if bad:
            ctx.violation("operators.ladder:boundary", bad.split(" ")[0], "destroy/create/num(%d, offset=%d): %s" % (N, off, bad),
                          {"N": N, "offset": off, "what": bad})

    # ---- spins at large j: exact radicands, algebra, coherent-state moments
    for J in [20, 21, 170, 171, 341, 600]:
        case(("spin_boundary", J))
        j = J / 2.0
        jp = q.jmat(j, "+").to("csr").data.as_scipy().tocoo()
        bad = None
        got = {(int(i), int(k)): v for i, k, v in zip(jp.row, jp.col, jp.data)}
        want = {(i, i + 1): (i + 1) * (J - i) for i in range(J)}
        if set(got) != set(want) or any(got[k].imag != 0 or not ulp_close(got[k].real, want[k]) for k in want):
            bad = "J+ entries are not sqrt((j-m)(j+m+1))"
        jz = q.jmat(j, "z").full()
        if bad is None and not np.array_equal(np.diag(jz), np.array([j - k for k in range(J + 1)], complex)):
            bad = "Jz diagonal"
        if bad is None and J <= 171:
            P = q.jmat(j, "+").full()
            if dev(P @ P.conj().T - P.conj().T @ P, 2 * jz) > 1e-9 * (J + 1) ** 2:
                bad = "[J+,J-] != 2Jz"
        if bad:
            ctx.violation("operators.jmat:boundary", bad.split(" ")[0], "jmat(%g): %s" % (j, bad), {"J": J})
    for J in [20, 57, 170]:
        j = J / 2.0
        th, ph = 3 * math.pi / 8, 5 * math.pi / 8
        case(("spin_coherent_boundary", J))
        r = call(q.spin_coherent, j, th, ph)
        kind = None
        if r[0] == "err":
            kind = r[1]
        else:
            v = r[1].full()[:, 0]
            if not np.all(np.isfinite(v)) or abs(np.linalg.norm(v) - 1) > 1e-8:
                kind = "norm"
            else:
                # closed form |<j,m|theta,phi>|^2 = C(2j, j+m) cos^(2(j+m))(t/2) sin^(2(j-m))(t/2)
                lc, ls = math.log(math.cos(th / 2)), math.log(math.sin(th / 2))
                refp = [math.exp(math.lgamma(J + 1) - math.lgamma(k + 1) - math.lgamma(J - k + 1)
                                 + 2 * (J - k) * lc + 2 * k * ls) for k in range(J + 1)]
                if np.max(np.abs(np.abs(v) ** 2 - np.array(refp))) > 1e-8:
                    kind = "populations differ from the binomial closed form"
        if kind:
            ctx.violation("states.spin_coherent:boundary", kind.split(" ")[0], "spin_coherent(%g, ..): %s" % (j, kind), {"J": J})

    # ---- Fourier transform, phase operator / basis, Hadamard at large sizes
    for N in [21, 64, 171, 256]:
        case(("qft_boundary", N))
        U = q.qft(N).full()
        if not np.all(np.isfinite(U)) or dev(U @ U.conj().T, np.eye(N)) > 1e-9 * N \
                or np.max(np.abs(np.abs(U) ** 2 - 1.0 / N)) > 1e-12:
            ctx.violation("operators.qft:boundary", "unitary", "qft(%d) not unitary / not flat" % N, {"N": N})
        vs = np.array([q.phase_basis(N, m).full()[:, 0] for m in (0, 1, N - 1)])
        if dev(vs.conj() @ vs.T, np.eye(3)) > 1e-9:
            ctx.violation("states.phase_basis:boundary", "orthonormal", "phase_basis(%d) not orthonormal" % N, {"N": N})
        P = q.phase(N).full()
        if not np.all(np.isfinite(P)) or dev(P, P.conj().T) > 1e-9 * N:
            ctx.violation("operators.phase:boundary", "hermitian", "phase(%d) not Hermitian" % N, {"N": N})
    from qutip.core import gates as G
    for n_ in [6, 8]:
        case(("hadamard_boundary", n_))
        H = G.hadamard_transform(n_).full()
        if dev(H @ H, np.eye(2 ** n_)) > 1e-9 or np.max(np.abs(np.abs(H) - 2 ** (-n_ / 2))) > 1e-12:
            ctx.violation("gates.hadamard_transform:boundary", "involution", "hadamard_transform(%d)" % n_, {"N": n_})
    for n_ in [9, 12]:
        case(("wghz_boundary", n_))
        w, g = q.w_state(n_).full()[:, 0], q.ghz_state(n_).full()[:, 0]
        if sorted(np.flatnonzero(w)) != sorted(2 ** k for k in range(n_)) or abs(np.linalg.norm(w) - 1) > 1e-12 \
                or list(np.flatnonzero(g)) != [0, 2 ** n_ - 1] or abs(np.linalg.norm(g) - 1) > 1e-12:
            ctx.violation("states.w_ghz:boundary", "positions", "w/ghz_state(%d) wrong" % n_, {"N": n_})

    # ---- charge / tunneling / ENR at larger sizes (exact integers)
    for a_, b_ in [(170, -171), (2 ** 31, 2 ** 31 - 3)]:
        case(("charge_boundary", a_, b_))
        c = q.charge(a_, b_)
        if [int(x.real) for x in c.diag()] != list(range(b_, a_ + 1)):
            ctx.violation("operators.charge:boundary", "diagonal", "charge(%d, %d) diagonal wrong" % (a_, b_), {})
    for N, m in [(171, 21), (342, 171), (256, 255)]:
        case(("tunneling_boundary", N, m))
        T = q.tunneling(N, m)
        M = T.full()
        want = np.eye(N, k=m) + np.eye(N, k=-m)
        if not np.array_equal(M, want) or bool(T._isunitary) != (dev(want @ want, np.eye(N)) == 0):
            ctx.violation("operators.tunneling:boundary", "entries/flag", "tunneling(%d, %d) wrong" % (N, m), {"N": N, "m": m})
    for dims, E in [([25, 25], 30), ([3] * 6, 4), ([171, 2], 171), ([2] * 10, 3)]:
        case(("enr_boundary", tuple(dims), E))
        n, s2i, i2s = q.enr_state_dictionaries(dims, E)
        allowed = [s for s in itertools.product(*[range(d) for d in dims]) if sum(s) <= E]
        if [i2s[i] for i in range(n)] != allowed:
            ctx.violation("energy_restricted.enr_state_dictionaries", "enumeration (boundary)",
                          "restricted states of %r, E=%d wrong" % (dims, E), {"dims": dims, "excitations": E})
            continue
        ops = q.enr_destroy(dims, E)
        for m_, a in enumerate(ops):
            A = a.to("csr").data.as_scipy().tocoo()
            got = {(int(i), int(k)): v for i, k, v in zip(A.row, A.col, A.data)}
            want = {}
            for st in allowed:
                if st[m_] > 0:
                    lo = st[:m_] + (st[m_] - 1,) + st[m_ + 1:]
                    want[(s2i[lo], s2i[st])] = st[m_]
            if set(got) != set(want) or any(not ulp_close(got[k].real, want[k]) for k in want):
                ctx.violation("energy_restricted.enr_destroy", "restriction (boundary)",
                              "enr_destroy(%r, %d) mode %d wrong" % (dims, E, m_), {"dims": dims, "excitations": E})
                break

    # ---- random generators at large dimension and extreme density / rank
    big = [(150, 0.01), (150, 1.0), (64, 0.5)] if not ctx.quick else [(96, 0.02), (64, 1.0)]
    for N, dens in big:
        sd = rng.randrange(1 << 30)
        case(("random_boundary", N, dens))
        kw = {"N": N, "density": dens, "seed": sd}
        H = q.rand_herm(N, dens, seed=sd).full()
        if not np.array_equal(H, H.conj().T) or not np.all(np.isfinite(H)):
            ctx.violation("random_objects.rand_herm", "boundary:not Hermitian", "rand_herm large N", kw)
        U = q.rand_unitary(N, dens, seed=sd).full()
        if dev(U @ U.conj().T, np.eye(N)) > 1e-9 * N:
            ctx.violation("random_objects.rand_unitary", "boundary:not unitary", "rand_unitary large N", kw)
        k_ = q.rand_ket(N, dens, seed=sd)
        if abs(k_.norm() - 1) > 1e-9:
            ctx.violation("random_objects.rand_ket", "boundary:not normalised", "rand_ket large N", kw)
        for rank in (1, N):
            D = q.rand_dm(N, distribution="ginibre", rank=rank, seed=sd).full()
            ev = np.linalg.eigvalsh((D + D.conj().T) / 2)
            if abs(np.trace(D) - 1) > 1e-9 or ev.min() < -1e-9 or int(np.sum(ev > 1e-12)) != rank:
                ctx.violation("random_objects.rand_dm", "boundary:rank/trace", "rand_dm rank %d of %d" % (rank, N), kw)
        S = q.rand_stochastic(N, dens, seed=sd).full()
        if np.max(np.abs(S.sum(axis=0) - 1)) > 1e-11 or (S.real < 0).any():
            ctx.violation("random_objects.rand_stochastic", "boundary:not stochastic", "rand_stochastic large N", kw)
    return nchk[0]



# ------------------------------------------- integer-width crossing oracle
# Sizes at which a vectorised implementation would cross the width of an
# integer type: 2^8 and 2^16 elements / indices (qubit counts 9..12, 16, 17;
# dimensions 255..257 and 65535..65537).  References by an independent route:
# recursive tensor power / entry formula with Python integers on sampled
# entries; structural laws on sampled rows and columns.
def _bits(i, n):
    return [(i >> (n - 1 - k)) & 1 for k in range(n)]


def _sparse_entries(qobj):
    A = qobj.to("csr").data.as_scipy().tocoo()
    return {(int(i), int(j)): v for i, j, v in zip(A.row, A.col, A.data) if v != 0}


def width_oracle(ctx, rng):
    import qutip as q
    from qutip.core import gates as G
    nchk = [0]

    def case(key, nontrivial=True):
        nchk[0] += 1
        ctx.count_case(("width",) + tuple(key), nontrivial)

    def viol(site, sig, what, det):
        ctx.violation(site, sig, what, det)

    def samples(top, k=10):
        base = {0, 1, top, top - 1, top // 2, 255, 256, 257, 65535, 65536, 65537}
        base = {x for x in base if 0 <= x <= top}
        return sorted(base | {rng.randrange(0, top + 1) for _ in range(k)}
                      | {rng.randrange(top // 2, top + 1) for _ in range(k // 2)})

    # ---- N-qubit Hadamard transform: tensor power of H1, unitarity, involution
    H1 = ((1, 1), (1, -1))
    for N in ([9, 10] if ctx.quick else [9, 10, 11, 12]):
        case(("hadamard", N))
        ob = G.hadamard_transform(N)
        M = hadamard_matrix(N)
        dim = 2 ** N
        f = 2 ** (-N / 2)
        idx = samples(dim - 1)
        bad = None
        for i in idx:
            bi = _bits(i, N)
            for j in idx:
                bj = _bits(j, N)
                sg = 1
                for a_, b_ in zip(bi, bj):          # entry of the N-fold tensor power
                    sg *= H1[a_][b_]
                if M[i, j] != sg * f:
                    bad = ("entry", i, j, sg * f, complex(M[i, j]))
                    break
            if bad:
                break
        if bad is None:
            cols = idx[-8:] + idx[:4]
            Gm = M[:, cols].conj().T @ M[:, cols]
            if dev(Gm, np.eye(len(cols))) > 1e-10:
                k_ = int(np.argmax(np.abs(Gm - np.eye(len(cols))).max(axis=1)))
                bad = ("columns not orthonormal", cols[k_], cols[k_], 1.0, complex(Gm[k_, k_]))
            elif dev(M[idx[-6:], :] @ M[:, idx[-6:]], np.eye(dim)[np.ix_(idx[-6:], idx[-6:])]) > 1e-10:
                bad = ("not self-inverse", idx[-1], idx[-1], 1.0, 0.0)
            elif not np.array_equal(M, M.T):
                bad = ("not symmetric", 0, 0, 0, 0)
        if bad:
            viol("gates.hadamard_transform", bad[0].split(" ")[0] + ":width",
                 "hadamard_transform(%d): %s at (%d, %d): expected %r (entry of the %d-fold tensor power "
                 "of H), got %r" % (N, bad[0], bad[1], bad[2], bad[3], N, bad[4]),
                 {"N": N, "what": bad[0], "row": bad[1], "col": bad[2], "expected": str(bad[3]), "got": str(bad[4]),
                  "cached_flags": [flag(ob._isherm), flag(ob._isunitary)]})
        if ob.dims != [[2] * N, [2] * N]:
            viol("gates.hadamard_transform", "dims:width", "hadamard_transform(%d) dims" % N, {"N": N})
        if N <= 10:
            check_cached_flags(ctx, "hadamard_transform", [N], ob)

    # ---- other qubit-count constructors across 2^8 and 2^16 amplitudes
    for N in [9, 10, 12, 16, 17]:
        case(("qubit_states", N))
        w, g = q.w_state(N).full()[:, 0], q.ghz_state(N).full()[:, 0]
        bad = []
        if sorted(int(x) for x in np.flatnonzero(w)) != sorted(2 ** k for k in range(N)) \
                or abs(np.linalg.norm(w) - 1) > 1e-12:
            bad.append("w_state")
        if [int(x) for x in np.flatnonzero(g)] != [0, 2 ** N - 1] or abs(np.linalg.norm(g) - 1) > 1e-12:
            bad.append("ghz_state")
        for lab in (samples(2 ** N - 1, 3)[-4:]):
            bits = _bits(lab, N)
            for nm, v in (("basis", q.basis([2] * N, bits)), ("ket", q.ket("".join(map(str, bits)))),
                          ("bra", q.bra("".join(map(str, bits))).dag())):
                arr = v.full()[:, 0]
                if [int(x) for x in np.flatnonzero(arr)] != [lab] or arr[lab] != 1:
                    bad.append("%s label %d" % (nm, lab))
        for b in bad[:2]:
            viol("states.qubit_register:width", b.split(" ")[0], "%d qubits: %s wrong" % (N, b), {"N": N, "what": b})
    for N in [9, 10]:
        case(("globalphase_fermion", N))
        gp = G.globalphase(0.3, N)
        if _sparse_entries(gp) != {(k, k): np.exp(0.3j) for k in range(2 ** N)}:
            viol("gates.globalphase:width", "entries", "globalphase(0.3, %d) wrong" % N, {"N": N})
        # canonical anticommutation relations of the Jordan-Wigner operators
        c0, cl = q.fdestroy(N, 0), q.fdestroy(N, N - 1)
        I = q.qeye([2] * N)
        acomm = lambda a, b: (a @ b + b @ a)
        z = lambda x: x.to("csr").data.as_scipy()
        if abs(z(acomm(cl, cl.dag()) - I)).max() != 0 or abs(z(acomm(c0, c0.dag()) - I)).max() != 0 \
                or abs(z(acomm(c0, cl.dag()))).max() != 0 or abs(z(acomm(c0, cl))).max() != 0 \
                or not np.array_equal(z(q.fcreate(N, N - 1)).toarray(), z(cl.dag()).toarray()):
            viol("operators.fdestroy:width", "anticommutator", "fdestroy(%d, .) violate the CAR" % N, {"N": N})

    # ---- dimension-parameter constructors across 2^8 and 2^16
    for N in [255, 256, 257, 65535, 65536, 65537]:
        off = rng.choice([0, 1, 20])
        case(("ladder_width", N, off))
        bad = None
        ent = _sparse_entries(q.destroy(N, off))
        entc = _sparse_entries(q.create(N, off))
        if len(ent) != N - 1 or len(entc) != N - 1:
            bad = "number of entries"
        else:
            for i in samples(N - 2):
                x, y = ent.get((i, i + 1)), entc.get((i + 1, i))
                if x is None or y is None or x != y or x.imag != 0 or not ulp_close(x.real, off + i + 1):
                    bad = "entry (%d,%d) is not sqrt(%d)" % (i, i + 1, off + i + 1)
                    break
        nn = q.num(N, off).diag()
        if bad is None and any(nn[i] != off + i for i in samples(N - 1)):
            bad = "num diagonal"
        for lab in samples(N - 1, 2)[-3:]:
            b = q.basis(N, lab + off, offset=off).full()[:, 0]
            if [int(x) for x in np.flatnonzero(b)] != [lab]:
                bad = bad or "basis(%d, %d) position" % (N, lab + off)
        pj = _sparse_entries(q.projection(N, N - 1, 0, dtype="csr"))
        fd = _sparse_entries(q.fock_dm(N, N - 1, dtype="csr"))
        if bad is None and (pj != {(N - 1, 0): 1} or fd != {(N - 1, N - 1): 1}):
            bad = "projection / fock_dm position"
        if bad is None and (len(_sparse_entries(q.qeye(N))) != N or len(_sparse_entries(q.qzero(N))) != 0
                            or abs(q.maximally_mixed_dm(N).tr() - 1) > 1e-9):
            bad = "qeye / qzero / maximally_mixed_dm"
        if bad:
            viol("operators.ladder:width", bad.split(" ")[0], "dimension %d, offset %d: %s" % (N, off, bad),
                 {"N": N, "offset": off, "what": bad})
        # spin with 2j+1 = N
        J = N - 1
        entp = _sparse_entries(q.jmat(J / 2.0, "+"))
        zz = q.jmat(J / 2.0, "z").diag()
        badj = None
        if len(entp) != J:
            badj = "number of J+ entries"
        else:
            for i in samples(J - 1):
                x = entp.get((i, i + 1))
                if x is None or x.imag != 0 or not ulp_close(x.real, (i + 1) * (J - i)):
                    badj = "J+ entry (%d,%d) is not sqrt(%d)" % (i, i + 1, (i + 1) * (J - i))
                    break
            if badj is None and any(zz[i] != J / 2.0 - i for i in samples(J)):
                badj = "Jz diagonal"
        if badj:
            viol("operators.jmat:width", badj.split(" ")[0], "jmat(%g): %s" % (J / 2.0, badj), {"J": J, "what": badj})
        # charge / tunneling / thermal / coherent(analytic) entries at sampled positions
        half = (N - 1) // 2
        cd = q.charge(half, half - N + 1).diag()
        if len(cd) != N or any(cd[i] != half - N + 1 + i for i in samples(N - 1)):
            viol("operators.charge:width", "diagonal", "charge over %d states wrong" % N, {"N": N})
        m = 255
        te = _sparse_entries(q.tunneling(N, m)) if N > m else {}
        if N > m and (len(te) != 2 * (N - m) or any(te.get((i, i + m)) != 1 or te.get((i + m, i)) != 1
                                                    for i in samples(N - m - 1))):
            viol("operators.tunneling:width", "entries", "tunneling(%d, %d) wrong" % (N, m), {"N": N, "m": m})
        td = q.thermal_dm(N, 2.0, method="analytic").diag()
        for i in samples(N - 1):
            lg = -math.log(3.0) + i * math.log(2.0 / 3.0)
            r_ = math.exp(lg) if lg > -690 else None
            if r_ is not None and abs(td[i] - r_) > 1e-11 * (i + 10) * r_:
                viol("states.thermal_dm:width", "entry", "thermal_dm(%d, 2.0, analytic)[%d] wrong" % (N, i),
                     {"N": N, "index": i})
                break
        al = 0.75 * math.sqrt(min(N, 1200))
        cv = q.coherent(N, al, method="analytic").full()[:, 0]
        rf = ref_coherent(min(N, 1400), al, 0)
        kind = judge_vector(cv[:len(rf)], rf, 1e-11 * (len(rf) + al * al + 10))
        if kind or abs(np.linalg.norm(cv) - 1) > 1e-9:
            viol("states.coherent:width", kind or "norm", "coherent(%d, %g, analytic): %s" % (N, al, kind or "norm != 1"),
                 {"N": N, "alpha": al})

    # ---- dense unitary tables at 255..257: entry formula with Python integers
    for N in [255, 256, 257]:
        case(("qft_width", N))
        U = q.qft(N).full()
        bad = None
        for j in samples(N - 1, 6):
            for k_ in samples(N - 1, 6):
                ang = 2 * math.pi * ((j * k_) % N) / N
                if abs(U[j, k_] - complex(math.cos(ang), math.sin(ang)) / math.sqrt(N)) > 1e-12:
                    bad = (j, k_)
        if bad or dev(U @ U.conj().T, np.eye(N)) > 1e-10 * N:
            viol("operators.qft:width", "entries" if bad else "unitary", "qft(%d) wrong at %r" % (N, bad), {"N": N})
        pb = q.phase_basis(N, N - 1).full()[:, 0]
        if any(abs(pb[n_] - np.exp(2j * math.pi * ((n_ * (N - 1)) % N) / N) / math.sqrt(N)) > 1e-12
               for n_ in samples(N - 1, 4)):
            viol("states.phase_basis:width", "entries", "phase_basis(%d, %d) wrong" % (N, N - 1), {"N": N})
    # ---- swap(N, M): N*M across 2^8 and 2^16; action on sampled product states
    for Na, Mb in [(15, 17), (16, 16), (17, 15), (255, 257), (256, 256), (257, 255), (1, 65537), (65536, 1)]:
        case(("swap_width", Na, Mb))
        sw = q.swap(Na, Mb)
        A = sw.to("csr").data.as_scipy().tocsc()
        bad = None
        if A.nnz != Na * Mb or sw.dims != [[Mb, Na], [Na, Mb]] and (Na, Mb) != (1, 1):
            bad = "nnz/dims"
        else:
            for col in samples(Na * Mb - 1):
                n_, m_ = divmod(col, Mb)
                rows = A.indices[A.indptr[col]:A.indptr[col + 1]]
                if list(rows) != [m_ * Na + n_] or A.data[A.indptr[col]] != 1:
                    bad = "column %d" % col
                    break
        if bad:
            viol("operators.swap:width", bad.split(" ")[0], "swap(%d, %d): %s" % (Na, Mb, bad), {"N": Na, "M": Mb})

    # ---- index bookkeeping with products across 2^16 and 2^32
    from qutip.random_objects import _implicit_tensor_dimensions as itd
    for dims in [[256, 256], [255, 257], [65536, 65536], [65537, 65535], [2] * 17, [3, 65536, 5]]:
        case(("index_width", tuple(dims)))
        tot = 1
        for d in dims:
            tot *= d
        for lab in samples(tot - 1, 4):
            st, r_ = [], lab
            for d in reversed(dims):
                r_, x = divmod(r_, d)
                st.insert(0, x)
            if int(q.state_number_index(dims, st)) != lab or [int(x) for x in q.state_index_number(dims, lab)] != st:
                viol("states.state_number_index:width", "mixed radix", "state_number_index(%r, %r) != %d" % (dims, st, lab),
                     {"dims": dims, "state": st, "index": lab})
                break
        # (superoperator form only where the matrix size tot^2 is an int64: larger
        # objects cannot be allocated anyway)
        if int(itd(dims)[0]) != tot or (tot * tot < 2 ** 62 and int(itd([dims, dims], True)[0]) != tot):
            viol("random_objects._implicit_tensor_dimensions:width", "size", "size of %r wrong" % dims, {"dims": dims})
    for dims, E in [([23, 23], 22), ([257, 257], 2), ([2] * 9, 2), ([16, 17], 40)]:
        case(("enr_width", tuple(dims), E))
        n, s2i, i2s = q.enr_state_dictionaries(dims, E)
        allowed = [s_ for s_ in itertools.product(*[range(d) for d in dims]) if sum(s_) <= E] \
            if np.prod(dims) <= 70000 else None
        if allowed is not None and ([i2s[i] for i in range(n)] != allowed or any(s2i[i2s[i]] != i for i in range(n))):
            viol("energy_restricted.enr_state_dictionaries", "enumeration (width)", "ENR states of %r, E=%d" % (dims, E),
                 {"dims": dims, "excitations": E})
            continue
        a0 = _sparse_entries(q.enr_destroy(dims, E)[0])
        want = {(s2i[(st[0] - 1,) + st[1:]], k_): st[0] for k_, st in i2s.items() if st[0] > 0}
        if set(a0) != set(want) or any(not ulp_close(a0[k_].real, want[k_]) for k_ in want):
            viol("energy_restricted.enr_destroy", "restriction (width)", "enr_destroy(%r, %d)[0]" % (dims, E),
                 {"dims": dims, "excitations": E})

    # ---- random generators at 255..257 and one sparse ket at 65537
    for N in [255, 256, 257]:
        sd = rng.randrange(1 << 30)
        case(("random_width", N))
        kw = {"N": N, "seed": sd}
        H = q.rand_herm(N, 0.02, seed=sd)
        Hm = H.full()
        if not np.array_equal(Hm, Hm.conj().T) or H.dims != [[N], [N]]:
            viol("random_objects.rand_herm", "width:not Hermitian", "rand_herm(%d)" % N, kw)
        S = q.rand_stochastic(N, 0.05, seed=sd).full()
        if np.max(np.abs(S.sum(axis=0) - 1)) > 1e-11 or (S.real < 0).any():
            viol("random_objects.rand_stochastic", "width:not stochastic", "rand_stochastic(%d)" % N, kw)
        U = q.rand_unitary(N, 0.5, seed=sd).full()
        if dev(U @ U.conj().T, np.eye(N)) > 1e-9 * N:
            viol("random_objects.rand_unitary", "width:not unitary", "rand_unitary(%d)" % N, kw)
        D = q.rand_dm(N, rank=N - 1, seed=sd).full()
        ev = np.linalg.eigvalsh((D + D.conj().T) / 2)
        if abs(np.trace(D) - 1) > 1e-9 or ev.min() < -1e-9 or int(np.sum(ev > 1e-12)) != N - 1:
            viol("random_objects.rand_dm", "width:rank/trace", "rand_dm(%d, rank=%d)" % (N, N - 1), kw)
    for N in [65535, 65537]:
        case(("rand_ket_width", N))
        k_ = q.rand_ket(N, 1e-4, "fill", seed=7)
        if abs(k_.norm() - 1) > 1e-9 or k_.shape != (N, 1):
            viol("random_objects.rand_ket", "width:not normalised", "rand_ket(%d, fill)" % N, {"N": N})
    report_flags(ctx)
    return nchk[0]



# ------------------------------------------------ boundary-VALUE oracle
# Every constructor with a vector-valued / per-mode / continuous parameter is
# swept over boundary values of each entry (0, tiny, huge, mixed zero and
# non-zero, illegal values must raise) against a definition-level reference;
# non-finite entries, lost normalisation or positivity are direct violations.
def _finite_dm(M, tol=1e-9):
    """None or the first failed density-matrix predicate"""
    if not np.all(np.isfinite(M)):
        return "nonfinite"
    if dev(M, M.conj().T) > tol:
        return "not Hermitian"
    if abs(np.trace(M) - 1) > tol:
        return "trace != 1"
    if np.linalg.eigvalsh((M + M.conj().T) / 2).min() < -tol:
        return "not positive"
    return None


def value_oracle(ctx, rng):
    import qutip as q
    nchk = [0]

    def case(key, nontrivial=True):
        nchk[0] += 1
        ctx.count_case(("value",) + tuple(key), nontrivial)

    def viol(site, sig, what, det):
        ctx.violation(site, sig, what, det)

    TINY, HUGE = [1e-300, 1e-18, 1e-12], [1e6, 1e12]

    # ---- enr_thermal_dm: per-mode occupations, reference = product of thermal
    # states restricted to the allowed states and renormalised (0^0 = 1)
    occ_lists = lambda k: ([[0.0] * k, [0.5] + [0.0] * (k - 1), [0.0] * (k - 1) + [2.0],
                            [1e-300] + [3.0] * (k - 1), [1e12] * k, [0.0, 1e12][:k] + [0.25] * max(0, k - 2),
                            [1e-12] * k, [rng.choice([0.0, 0.5, 1.0, 7.5]) for _ in range(k)]])
    for dims, E in [([3, 4], 2), ([2, 2, 2], 3), ([5], 4), ([1, 3], 2), ([4, 4], 0), ([3, 2, 4], 4)]:
        k = len(dims)
        allowed = [s_ for s_ in itertools.product(*[range(d) for d in dims]) if sum(s_) <= E]
        for n in occ_lists(k) + [0.0, 0.5, 1e-300, 1e12]:
            nl = list(n) if isinstance(n, list) else [n] * k
            case(("enr_thermal_dm", tuple(dims), E, str(n)))
            r = call(q.enr_thermal_dm, dims, E, n)
            det = {"dims": dims, "excitations": E, "n": n}
            if r[0] == "err":
                viol("energy_restricted.enr_thermal_dm", r[1], "enr_thermal_dm(%r, %d, %r) raises %s: %s" % (
                    dims, E, n, r[1], r[2][:120]), det)
                continue
            M = r[1].full()
            kind = _finite_dm(M)
            if kind is None:
                w = []
                for st in allowed:
                    x = 1.0
                    for nk, sk in zip(nl, st):
                        rr = nk / (1.0 + nk)
                        x *= 1.0 if sk == 0 else rr ** sk
                    w.append(x)
                tot = sum(w)
                ref = np.array(w) / tot
                if np.any(M - np.diag(np.diag(M))) or np.max(np.abs(np.diag(M).real - ref)) > 1e-12:
                    kind = "differs from the restricted product of thermal states"
                elif r[1].dims[0] != dims and not (len(dims) == 1):
                    kind = None
            if kind:
                det["got_diag"] = [repr(float(x.real)) for x in np.diag(M)[:6]]
                viol("energy_restricted.enr_thermal_dm", kind.split(" ")[0],
                     "enr_thermal_dm(%r, %d, %r): %s" % (dims, E, n, kind), det)
            else:
                check_cached_flags(ctx, "enr_thermal_dm", [str(dims), E, str(n)], r[1])
    for dims, E in [([3, 4], 2), ([1, 1], 0), ([2, 2, 2], 0)]:
        case(("enr_fock_values", tuple(dims), E), False)
        n, s2i, i2s = q.enr_state_dictionaries(dims, E)
        for idx in (0, n - 1):
            f = q.enr_fock(dims, E, list(i2s[idx])).full()[:, 0]
            if [int(x) for x in np.flatnonzero(f)] != [idx]:
                viol("energy_restricted.enr_fock", "position (values)", "enr_fock(%r, %d, %r)" % (dims, E, i2s[idx]), {})
        r = call(q.enr_fock, dims, E, [d for d in dims])        # outside the space: must raise
        if r[0] != "err" or r[1] != "ValueError":
            viol("energy_restricted.enr_fock", "no ValueError outside the space", "enr_fock outside the space", {"dims": dims})

    # ---- thermal_dm: n = 0, tiny, huge, both methods
    for N in [1, 2, 5, 40]:
        for nb in [0, 0.0] + TINY + [1e-320, 0.5] + HUGE + [1e300]:
            for method in ("operator", "analytic"):
                case(("thermal_values", N, repr(nb), method))
                r = call(q.thermal_dm, N, nb, method=method)
                det = {"N": N, "n": repr(nb), "method": method}
                if r[0] == "err":
                    viol("states.thermal_dm:values", r[1], "thermal_dm(%d, %r, %s) raises %s" % (N, nb, method, r[1]), det)
                    continue
                M = r[1].full()
                d_ = np.diag(M).real
                rr = nb / (1.0 + nb)
                ref = np.array([1.0 if k_ == 0 else rr ** k_ for k_ in range(N)])
                ref = ref / ref.sum() if method == "operator" else ref / (1.0 + nb)
                kind = None
                if not np.all(np.isfinite(M)):
                    kind = "nonfinite"
                elif np.any(M - np.diag(np.diag(M))) or (d_ < 0).any():
                    kind = "not a non-negative diagonal"
                elif method == "operator" and abs(d_.sum() - 1) > 1e-9:
                    kind = "trace != 1"
                elif np.max(np.abs(d_ - ref)) > 1e-12:
                    kind = "populations differ from (n/(1+n))^k"
                if kind:
                    det["got"] = [repr(float(x)) for x in d_[:4]]
                    viol("states.thermal_dm:values", kind.split(" ")[0] + ":" + method,
                         "thermal_dm(%d, %r, method=%s): %s" % (N, nb, method, kind), det)

    # ---- zero / tiny arguments of the exponential constructors and closed forms
    for N in [2, 5, 12]:
        for z in [0, 0.0, 0j, 1e-300, 1e-18, complex(0, 1e-12)]:
            case(("exp_values", N, repr(z)))
            for nm, f in (("displace", q.displace), ("squeeze", q.squeeze)):
                r = call(f, N, z)
                if r[0] == "err":
                    viol("operators.%s:values" % nm, r[1], "%s(%d, %r) raises" % (nm, N, z), {"N": N, "z": repr(z)})
                    continue
                U = r[1].full()
                if not np.all(np.isfinite(U)) or dev(U, np.eye(N)) > 1e-9:
                    viol("operators.%s:values" % nm, "identity", "%s(%d, %r) is not the identity" % (nm, N, z),
                         {"N": N, "z": repr(z)})
                if z == 0:       # for 0 < |z| << atol the literal flags are mathematically right
                    check_cached_flags(ctx, nm, [N, repr(z)], r[1])
            for method in ("operator", "analytic"):
                r = call(q.coherent, N, z, method=method)
                v = r[1].full()[:, 0] if r[0] == "ok" else None
                e0 = np.zeros(N, complex)
                e0[0] = 1
                if v is None or not np.all(np.isfinite(v)) or dev(v, e0) > 1e-9:
                    viol("states.coherent:values", method, "coherent(%d, %r, %s) is not the vacuum" % (N, z, method),
                         {"N": N, "alpha": repr(z)})
            r = call(q.coherent_dm, N, z)
            if r[0] == "err" or _finite_dm(r[1].full()):
                viol("states.coherent_dm:values", "dm", "coherent_dm(%d, %r) wrong" % (N, z), {"N": N})
    for j in [0.5, 1, 3.5]:
        for th_, want in [(0.0, 0), (math.pi, int(2 * j))]:
            case(("spin_coherent_values", j, th_))
            v = q.spin_coherent(j, th_, 0.7).full()[:, 0]
            if not np.all(np.isfinite(v)) or abs(abs(v[want]) - 1) > 1e-9:
                viol("states.spin_coherent:values", "pole", "spin_coherent(%g, %g, .) is not a pole state" % (j, th_), {"j": j})
    for bad_j in [-0.5, 0.3, -1]:
        case(("jmat_illegal", bad_j), False)
        r = call(q.jmat, bad_j, "z")
        if r[0] != "err" or r[1] != "ValueError":
            viol("operators.jmat:values", "no ValueError", "jmat(%r) is accepted" % bad_j, {"j": bad_j})

    # ---- qdiags value lists: zeros, tiny (below atol), huge, mixed
    for d_ in [[0, 0, 0], [1, 0], [1e-13j, 1], [1 + 1e-13, 1], [1e300, 1], [-1, 1e-300], [1j, -1j, 0], [5e-324, 1]]:
        case(("qdiags_values", str(d_)), False)
        for off in (0, 1, -2):
            r = call(q.qdiags, d_, off)
            if r[0] == "err":
                viol("operators.qdiags:values", r[1], "qdiags(%r, %d) raises" % (d_, off), {"diag": str(d_)})
                continue
            M = r[1].full()
            want = np.diag(np.array(d_, complex), off)
            if not np.array_equal(M, want):
                viol("operators.qdiags:values", "entries", "qdiags(%r, %d) entries" % (d_, off), {"diag": str(d_)})
            check_cached_flags(ctx, "qdiags", [str(d_), off], r[1])

    # ---- tensor-structured state builders with 1-dimensional / boundary labels
    for dims, lab in [([1, 3], [0, 2]), ([3, 1, 2], [2, 0, 1]), ([2, 2], [0, 0]), ([4], [3])]:
        case(("builders", tuple(dims)), False)
        want = int(np.ravel_multi_index(lab, dims))
        for nm, v in (("basis", q.basis(dims, lab)), ("fock", q.fock(dims, lab)),
                      ("fock_dm", q.fock_dm(dims, lab)), ("projection", q.projection(dims, lab, lab))):
            A = v.full()
            pos = [int(x) for x in np.flatnonzero(A if A.shape[1] == 1 else np.diag(A))]
            if pos != [want] or abs(A.sum() - 1) != 0:
                viol("states.%s:values" % nm, "position", "%s(%r, %r) wrong" % (nm, dims, lab), {"dims": dims, "label": lab})
        if np.any(q.zero_ket(dims).full()) or abs(q.maximally_mixed_dm(dims).tr() - 1) > 1e-12:
            viol("states.zero_ket:values", "value", "zero_ket / maximally_mixed_dm(%r)" % dims, {"dims": dims})

    # ---- random generators at density 0 and 1, zero eigenvalues, rank 1 (watchdog)
    for N in [2, 5]:
        for dens in [0.0, 1e-12, 1.0]:
            sd = rng.randrange(1 << 30)
            case(("random_values", N, dens))
            kw = {"N": N, "density": dens, "seed": sd}
            calls = [
                ("rand_herm", lambda: q.rand_herm(N, dens, seed=sd),
                 lambda o: np.array_equal(o.full(), o.full().conj().T)),
                ("rand_herm_pos_def", lambda: q.rand_herm(N, dens, "pos_def", seed=sd),
                 lambda o: np.linalg.eigvalsh(o.full()).min() > 0),
                ("rand_unitary", lambda: q.rand_unitary(N, dens, seed=sd),
                 lambda o: dev(o.full() @ o.full().conj().T, np.eye(N)) < 1e-9),
                ("rand_unitary_exp", lambda: q.rand_unitary(N, dens, "exp", seed=sd),
                 lambda o: dev(o.full() @ o.full().conj().T, np.eye(N)) < 1e-9),
                ("rand_ket_fill", lambda: q.rand_ket(N, dens, "fill", seed=sd), lambda o: abs(o.norm() - 1) < 1e-9),
                ("rand_ket_haar", lambda: q.rand_ket(N, dens, "haar", seed=sd), lambda o: abs(o.norm() - 1) < 1e-9),
                ("rand_dm", lambda: q.rand_dm(N, dens, seed=sd), lambda o: _finite_dm(o.full()) is None),
                ("rand_dm_pure", lambda: q.rand_dm(N, dens, "pure", seed=sd), lambda o: _finite_dm(o.full()) is None),
                ("rand_dm_herm", lambda: q.rand_dm(N, dens, "herm", seed=sd), lambda o: _finite_dm(o.full()) is None),
                ("rand_dm_eigen0", lambda: q.rand_dm(N, max(dens, 0.5), "eigen",
                                                    eigenvalues=[1.0] + [0.0] * (N - 1), seed=sd),
                 lambda o: _finite_dm(o.full()) is None),
                ("rand_stochastic", lambda: q.rand_stochastic(N, dens, seed=sd),
                 lambda o: np.max(np.abs(o.full().sum(axis=0) - 1)) < 1e-12 and (o.full().real >= 0).all()),
            ]
            for nm, th, ok in calls:
                r = call_watchdog(th, 10)
                if r[0] == "err":
                    viol("random_objects." + nm.split("_")[0] + "_" + nm.split("_")[1] + ":values", nm + ":" + r[1],
                         "%s(N=%d, density=%r) raises %s: %s" % (nm, N, dens, r[1], r[2][:100]), kw)
                elif not np.all(np.isfinite(r[1].full())) or not ok(r[1]):
                    viol("random_objects." + nm.split("_")[0] + "_" + nm.split("_")[1] + ":values", nm + ":class",
                         "%s(N=%d, density=%r) is not in its class" % (nm, N, dens), kw)
    report_flags(ctx)
    return nchk[0]



# ----------------------------------- identical seeds give identical objects
# A FIXED, always complete family (no sampling): every random generator x
# distribution x seed form x density (including density*N < 0.5, where the
# retry / fallback branches run, and 1) x flat and composite dims.  Each is
# called twice and compared bitwise; between the two calls the GLOBAL NumPy
# stream and qutip's module-level default generator are re-seeded differently,
# so any draw that leaks to a global stream shows deterministically.
def determinism_oracle(ctx):
    import qutip as q
    import qutip.random_objects as ro
    from numpy.random import SeedSequence, default_rng
    nchk = [0]
    fam = []
    dens3 = [0.0005, 0.01, 0.3, 1.0]     # 0.0005: sqrt(d)*N < 0.5 too (rand_dm 'pure' retry branch)
    flat, comp = 16, [2, 3]
    for form in (flat, comp):
        N = int(np.prod(form))
        ev = list(np.arange(N) - 1.0)
        pv = list(np.arange(1, N + 1) / np.arange(1, N + 1).sum())
        for d in dens3:
            fam += [("rand_herm", "fill", form, d, lambda s, f=form, d=d: q.rand_herm(f, d, "fill", seed=s)),
                    ("rand_herm", "pos_def", form, d, lambda s, f=form, d=d: q.rand_herm(f, d, "pos_def", seed=s)),
                    ("rand_herm", "eigen", form, d,
                     lambda s, f=form, d=d, ev=ev: q.rand_herm(f, d, "eigen", eigenvalues=ev, seed=s)),
                    ("rand_unitary", "haar", form, d, lambda s, f=form, d=d: q.rand_unitary(f, d, "haar", seed=s)),
                    ("rand_unitary", "exp", form, d, lambda s, f=form, d=d: q.rand_unitary(f, d, "exp", seed=s)),
                    ("rand_ket", "haar", form, d, lambda s, f=form, d=d: q.rand_ket(f, d, "haar", seed=s)),
                    ("rand_ket", "fill", form, d, lambda s, f=form, d=d: q.rand_ket(f, d, "fill", seed=s)),
                    ("rand_dm", "ginibre", form, d, lambda s, f=form, d=d: q.rand_dm(f, d, "ginibre", seed=s)),
                    ("rand_dm", "ginibre-rank1", form, d,
                     lambda s, f=form, d=d: q.rand_dm(f, d, "ginibre", rank=1, seed=s)),
                    ("rand_dm", "hs", form, d, lambda s, f=form, d=d: q.rand_dm(f, d, "hs", seed=s)),
                    ("rand_dm", "pure", form, d, lambda s, f=form, d=d: q.rand_dm(f, d, "pure", seed=s)),
                    ("rand_dm", "eigen", form, d,
                     lambda s, f=form, d=d, pv=pv: q.rand_dm(f, d, "eigen", eigenvalues=pv, seed=s)),
                    ("rand_dm", "herm", form, d, lambda s, f=form, d=d: q.rand_dm(f, d, "herm", seed=s)),
                    ("rand_stochastic", "left", form, d, lambda s, f=form, d=d: q.rand_stochastic(f, d, "left", seed=s)),
                    ("rand_stochastic", "right", form, d, lambda s, f=form, d=d: q.rand_stochastic(f, d, "right", seed=s))]
    for form in (3, [2, 2]):
        fam += [("rand_kraus_map", "", form, None, lambda s, f=form: q.rand_kraus_map(f, seed=s)),
                ("rand_super", "", form, None, lambda s, f=form: q.rand_super(f, seed=s)),
                ("rand_super_bcsz", "", form, None, lambda s, f=form: q.rand_super_bcsz(f, seed=s)),
                ("rand_super_bcsz", "rank1", form, None, lambda s, f=form: q.rand_super_bcsz(f, rank=1, seed=s)),
                ("rand_super_bcsz", "no-tp", form, None,
                 lambda s, f=form: q.rand_super_bcsz(f, enforce_tp=False, seed=s))]
    seedforms = [("int", lambda k: k), ("SeedSequence", lambda k: SeedSequence(k)),
                 ("Generator", lambda k: default_rng(k))]

    def snapshot(o):
        obs = o if isinstance(o, list) else [o]
        return [(x.dims, x.full().tobytes(), x.shape) for x in obs]

    saved_rand = ro._RAND
    try:
        for fn, dist, form, d, f in fam:
            for k, (sname, mk) in enumerate(seedforms):
                sd = 20200 + 7 * k
                nchk[0] += 1
                ctx.count_case(("determinism", fn, dist, str(form), d, sname))
                res = []
                for glob in (111, 222):
                    np.random.seed(glob)
                    np.random.random(glob % 7)
                    ro._RAND = default_rng(glob)
                    r = call_watchdog(lambda: f(mk(sd)), 20)
                    res.append(r)
                if res[0][0] == "err" or res[1][0] == "err":
                    e = res[0] if res[0][0] == "err" else res[1]
                    ctx.violation("random_objects." + fn, (dist + ":" if dist else "") + "raises " + e[1],
                                  "%s(%r, density=%r, %s, seed=<%s>) raises %s: %s" % (fn, form, d, dist, sname, e[1], e[2][:100]),
                                  {"generator": fn, "distribution": dist, "dims": form, "density": d, "seed_form": sname,
                                   "seed": sd})
                    continue
                if snapshot(res[0][1]) != snapshot(res[1][1]):
                    ctx.violation("random_objects." + fn, (dist + ":" if dist else "") + "same seed gives different object",
                                  "%s(%r, density=%r, distribution=%r, seed=<%s %d>): two calls with equal seeds differ "
                                  "(global streams re-seeded differently in between)" % (fn, form, d, dist, sname, sd),
                                  {"generator": fn, "distribution": dist, "dims": form, "density": d, "seed_form": sname,
                                   "seed": sd})
    finally:
        ro._RAND = saved_rand
    return nchk[0]


# ------------------------------------------------------------------------ run


def primfloat_validation(ctx, rads):
    """labelled validation: the float entries agree with PrimFloat.sqrt of
    the model's radicand to one ulp"""
    import qutip as q
    rads = sorted(set(rads))[:400]
    hdr = "From Coq Require Import Floats ZArith Uint63 List.\nImport ListNotations.\n"
    ex = "map (fun z => PrimFloat.sqrt (PrimFloat.of_uint63 (Uint63.of_Z z))) %s" % clist(rads, cz)
    ok, out = vlib.coq_eval("cases_C20_sqrt", hdr + "Eval vm_compute in (%s).\n" % ex)
    if not ok:
        ctx.notes.append("PrimFloat validation could not be evaluated")
        return 0
    vals = [float(x) for x in re.findall(r"(-?[0-9.]+(?:e[-+]?\d+)?)%float", out)]
    if len(vals) != len(rads):
        ctx.notes.append("PrimFloat validation: parse mismatch")
        return 0
    mx = max(rads)
    impl = q.destroy(mx + 1).full()
    nb = 0
    for r, v in zip(rads, vals):
        if r == 0 or r > mx:
            continue
        w = impl[r - 1, r].real
        if not (w == v or w == math.nextafter(v, math.inf) or w == math.nextafter(v, -math.inf)):
            nb += 1
            ctx.violation("validation:sqrt", "ulp", "destroy entry differs from PrimFloat.sqrt by > 1 ulp",
                          {"radicand": r, "impl": w, "primfloat": v})
    ctx.cov["primfloat_sqrt_validated"] = len(rads)
    return nb


def run(ctx):
    rng = random.Random(ctx.seed * 7919 + 20)
    ctx.cov["rule"] = (
        "correspondence case = (constructor, integer parameters, storage format): the Gallina "
        "model is evaluated by vm_compute and compared exactly (shape, positions, integer "
        "radicands/entries, literal flags, raises-or-returns); parameters: dimensions 0..40, "
        "offsets, doubled spins 0..40, Gaussian-integer diagonals, malformed diagonals/indices/"
        "dims; oracle case = one constructor call on real qutip objects checked against its "
        "defining relation.  A case is non-trivial when the dimension is >= 2 (or the input is "
        "well-formed for the malformed streams); distinct by (kind, parameters).  Boundary oracle: "
        "every constructor family at offsets/dimensions/spins around 20-25 (int64 factorial), "
        "170-175 and 250-1600 (double range), |alpha| up to 42 (exp underflow), N up to 1000, "
        "against log-gamma / exact-integer references; non-finite entries and norms > 1 are "
        "direct violations.  Width oracle: qubit counts 9-12, 16, 17 and dimensions 255-257, "
        "65535-65537 (2^8 / 2^16 index and element counts) against tensor-power / entry-formula "
        "references evaluated with Python integers on sampled entries, plus sampled-column "
        "unitarity, involution and flag checks.  Value oracle: per-mode / vector / continuous "
        "parameters at 0, tiny, huge and mixed zero / non-zero values (enr_thermal_dm, thermal_dm, "
        "displace, squeeze, coherent, spin_coherent, qdiags lists, state builders, rand_* at density "
        "0 and 1) against definition-level references; finiteness, normalisation and positivity "
        "are direct violations.  Determinism family (fixed, complete): every random generator x "
        "distribution x seed form (int, SeedSequence, Generator) x density (0.01 with N = 16 so that "
        "density*N < 0.5, 0.3, 1) x flat and composite dims, called twice with the global NumPy "
        "stream and qutip's default generator re-seeded differently in between, compared bitwise.")
    ctx.cov["trusted_base"] += [
        "Model/C20.v is hand-written from operators.py / states.py / energy_restricted.py / "
        "random_objects.py / the shared front end of data/{dia,csr,dense}.pyx diags; tied by the "
        "exact correspondence run below (all three storage formats)",
        "radicand convention: the model stores r where the library stores sqrt(r); the theorems "
        "hold for any function sq with sq(r)^2 = r in any commutative ring; that NumPy's sqrt "
        "is such a function up to rounding is validated to 1 ulp against PrimFloat.sqrt, not proved",
        "tools/tx_c20_gates.py (ast translator; its subset = literal Gaussian-integer/half-integer "
        "tables and qdiags lists in gates.py); parametrised gates, displace/squeeze/qft "
        "(matrix exponential, trigonometric entries), coherent/thermal states and all random "
        "generators (NumPy RNG, QR, expm, sqrtm, inv) are checked by the implementation-level "
        "oracle only",
        "Section hypotheses of Proofs/C20_alg.v: a commutative ring with an involutive "
        "conjugation that is a ring morphism (stands for the complex numbers)",
        "Section hypotheses of Proofs/C20_qft.v: w with w^N = 1 such that w^d - 1 (0 < d < N) is "
        "no zero divisor (stands for exp(2 pi i/N); the code's entries are tied to the exponent "
        "table r*c by recovering the root index of sampled entries); C20_spin_xyz_commutator: "
        "half + half = 1 and an arbitrary element im (stand for 0.5 and 1j; the linear "
        "combinations are compared bit for bit with jmat(j,'x'|'y'))",
        "thermal_dm is modelled in exact rationals; tied exactly for occupations 1, 3, 7, 15 "
        "(all float operations of the implementation are exact there); the operator method's "
        "log/exp are outside the model",
    ]

    # ---- translator (T): regenerate the gate tables from the source
    gen = None
    try:
        import tx_c20_gates
        gen = tx_c20_gates.generate(vlib.REPO, os.path.join(vlib.COQ, "Gen"))
    except Exception as e:        # fail closed
        ctx.cov["obligations"] += 1
        ctx.violation("translator:gates.py", type(e).__name__,
                      "gates.py is outside the translator's subset: %s" % e,
                      {"error": str(e)}, found_input=False)

    def search(failed, log):
        # a theorem no longer checks: look for a failing input on the implementation
        n0 = len(ctx.violations) + len(ctx.known)
        oracle(ctx, random.Random(ctx.seed + 1))
        return len(ctx.violations) + len(ctx.known) > n0

    proved = vlib.standard_proof_step(ctx, ["Props/C20.vo"], ["Props/C20.v"], search)
    if proved and not ctx.quick:
        # independent re-check of the compiled proofs by the stand-alone checker
        with vlib.Lock("coq"):
            rc, out = vlib.sh(["timeout", "900", "coqchk", "-silent", "-o", "-Q", ".", "QV",
                               "QV.Props.C20"], timeout=930, cwd=vlib.COQ)
        okchk = rc == 0 and "Axioms: <none>" in out
        ctx.cov["coqchk"] = "ok: Axioms <none>" if okchk else out[-600:]
        ctx.add_obligation("coqchk QV.Props.C20", okchk)
        if not okchk:
            ctx.violation("proof:coqchk", "Props.C20", "coqchk rejects Props/C20.vo or reports axioms",
                          {"log": out[-2000:]}, found_input=False)

    if gen is not None:
        ok, out = vlib.coqc_file("Gen/C20_gates.v")
        bad_line = None
        if not ok:
            m = re.search(r"line (\d+), characters", out)
            bad_line = int(m.group(1)) if m else 0
        txt = open(gen["path"]).read().split("\n")
        for ob in gen["obligations"]:
            ln = next(i + 1 for i, l in enumerate(txt) if l.startswith("Lemma %s " % ob))
            good = ok or (bad_line and ln + 1 < bad_line)
            ctx.add_obligation("Gen/C20_gates.v:" + ob, bool(good))
            if not good and (bad_line and ln <= bad_line <= ln + 1):
                import qutip.core.gates as G
                gname = ob.replace("gen_gate_ok_", "").replace("gen_rel_", "")
                detail = {"obligation": ob, "log": out[-1500:]}
                found = False
                g0 = next((g for g in gen["gates"] if gname.startswith(g)), None)
                if g0:
                    U = getattr(G, g0)()
                    detail["matrix"] = [[[z.real, z.imag] for z in r] for r in U.full()]
                    detail["cached_flags"] = [flag(U._isherm), flag(U._isunitary)]
                    found = True
                ctx.violation("gates." + (g0 or gname), ob,
                              "obligation %s over the table generated from gates.py fails" % ob,
                              detail, found_input=found)
        ctx.cov["translated_gates"] = sorted(gen["gates"])
        ctx.cov["gates_outside_translator_subset"] = gen["inexact"]
        for ext in (".vo", ".glob", ".vok", ".vos"):
            try:
                os.remove(os.path.join(vlib.COQ, "Gen", "C20_gates" + ext))
            except OSError:
                pass

    # ---- correspondence (K)
    cases = gen_cases(ctx, rng)
    try:
        vals = vlib.coq_eval_values("cases_C20", HEADER, [c[1] for c in cases], chunk=150)
    except RuntimeError as e:
        ctx.violation("corr:C20:model-eval", "coqc", "model evaluation failed",
                      {"log": str(e)}, found_input=False)
        vals = None
    dist = {}
    rads = []
    mism = 0
    mism_kind = {}
    if vals is not None:
        for (key, expr, th, nontriv), s in zip(cases, vals):
            dist[key[0]] = dist.get(key[0], 0) + 1
            ctx.count_case(key, nontriv)
            try:
                model = canon_model(key, vlib.parse_coq_value(s))
            except Exception as e:
                ctx.violation("corr:C20:parse", key[0], "cannot parse model value",
                              {"key": key, "value": s[:500], "error": str(e)}, found_input=False)
                continue
            r, bad = th()
            im = impl_shape(key, r)
            ctx.cov["traces_validated_against_impl"] += 1
            if (key[0], key[1]) in (("ladder", "destroy"), ("ladder", "create"), ("jmat", "+"),
                                    ("jmat", "-")) and im is not None:
                rads += [x[2] for x in im[1] if 0 < x[2] < 3000]
            errs = [b for b in bad if isinstance(b, tuple)]
            probs = [b for b in bad if not isinstance(b, tuple)]
            if model != im or probs:
                # known root cause: the empty flat diagonal at dimension 1 / spin 0
                if (model is None and im is None and errs and ROOT_DIAGS in errs[0][1]
                        and key[0] in ("ladder", "jmat")):
                    continue
                mism += 1
                mism_kind[key[0]] = mism_kind.get(key[0], 0) + 1
                if mism_kind[key[0]] <= 2:          # a few examples per constructor family
                    ctx.violation("corr:" + key[0], "model-differs" if model != im else probs[0][:40],
                                  "model and implementation disagree on %r" % (key,),
                                  {"key": key, "model": model, "impl": im, "problems": probs,
                                   "coq": expr})
            elif model is None and im is None and key[0] in ("ladder", "jmat"):
                pass
        ctx.sample({"case": cases[3][0], "coq": cases[3][1], "model_value": vals[3][:200]})
        ctx.sample({"case": cases[-1][0], "coq": cases[-1][1], "model_value": vals[-1][:200]})
        k = next(i for i, c in enumerate(cases) if c[0][0] == "enr_destroy")
        ctx.sample({"case": cases[k][0], "coq": cases[k][1], "model_value": vals[k][:300]})
    ctx.cov["input_distribution"] = dist
    primfloat_validation(ctx, rads)

    # ---- implementation-level oracle (always)
    n = oracle(ctx, rng)
    ctx.cov["oracle_checks"] = n
    ctx.cov["boundary_checks"] = boundary_oracle(ctx, rng)
    ctx.cov["width_checks"] = width_oracle(ctx, rng)
    ctx.cov["value_checks"] = value_oracle(ctx, rng)
    ctx.cov["determinism_checks"] = determinism_oracle(ctx)
    ctx.cov["explanation"] = (
        "Theorems (Props/C20.v) hold for every dimension/offset/spin/excitation bound of the "
        "models; models are tied to the source by exact comparison on generated parameters in "
        "all three storage formats and by regenerating the literal gate tables from gates.py; "
        "exponential-based constructors, closed-form states and random generators are covered "
        "by the oracle only (differential against NumPy / closed forms; tolerance comparisons "
        "there are validation, not proof obligations).")


def replay(ctx, payload):
    import qutip as q
    site = payload["site"]
    d = payload.get("detail", {})
    if site == "data.diags:empty-flat-diagonal":
        r = call(q.destroy, 1)
        if r[0] == "err":
            ctx.violation(site, payload["signature"], "destroy(1) raises: %s" % r[2], d)
        return
    if site == "flags:dimension-1-literals":
        for ob, nm in ((q.enr_destroy([1], 0)[0], "enr_destroy"), (q.qft(1), "qft")):
            check_cached_flags(ctx, nm, [1], ob)
        report_flags(ctx)
        return
    if site.startswith("operators.qdiags:is") or site.startswith("flags:"):
        d = d.get("first", d)
        name, args = d.get("constructor"), d.get("args", [])
        cands = {"num": lambda: q.num(2), "qdiags": lambda: q.qdiags([-1j], 0)}
        ob = None
        try:
            ob = getattr(q, name)(*args)
        except Exception:
            ob = cands.get(name, cands["num"])()
        if site == "operators.qdiags:isherm":
            ob = q.qdiags([-1j], 0)
        check_cached_flags(ctx, name, args, ob)
        report_flags(ctx)
        return
    if site == "operators.qdiags:offdiagonal-zero":
        ob = q.qdiags([0, 0], 1)
        if ob._isherm is False and not np.any(ob.full()):
            ctx.violation(site, payload["signature"], "qdiags([0,0],1) flagged isherm=False", d)
        return
    if "same seed gives different object" in str(payload.get("signature")):
        determinism_oracle(ctx)
        return
    if ":values" in site or site == "energy_restricted.enr_thermal_dm":
        value_oracle(ctx, random.Random(payload.get("seed", 0) * 7919 + 20))
        return
    if ":width" in site or ":width" in str(payload.get("signature")) or site == "gates.hadamard_transform":
        width_oracle(ctx, random.Random(payload.get("seed", 0) * 7919 + 20))
        return
    if ":boundary" in site or site.startswith("states.coherent:") or site.startswith("states.thermal_dm:"):
        boundary_oracle(ctx, random.Random(payload.get("seed", 0) * 7919 + 20))
        return
    oracle(ctx, random.Random(payload.get("seed", 0) * 7919 + 20))
