"""C14 - the parallel map delivers every task result exactly once.

Tie (K): the real qutip.solver.parallel._generic_pmap / serial_map are driven
with a scripted executor, a scripted concurrent.futures.wait and a scripted
clock; the decisions taken online are recorded as a schedule and the Coq
model (coq/Model/C14.v) is evaluated on the same schedule by vm_compute.
"""
import json
import os
import random
import sys

import vlib
from vlib import cz, cnat, cbool, clist

HEADER = "From Coq Require Import List ZArith Bool.\nImport ListNotations.\nFrom QV Require Import Model.C14.\n"


# ------------------------------------------------------------ implementation
NONE_CODE = -999   # a task whose Python result is None (falsy results must be delivered too)
ZERO_LIKE = (0, -999)


def run_impl(case, rng_seed):
    """Drive the real _generic_pmap; choose decisions online (recorded)."""
    import concurrent.futures
    import qutip.solver.parallel as par

    rng = random.Random(rng_seed)
    outs = case["outs"]            # list of ("val", v, stop) | ("err", e)
    W = case["workers"]
    n = len(outs)
    style = case["style"]          # how completions are chosen
    sched = []                     # recorded decisions (expire, [indices])
    state = {"expired": False, "clock_calls": 0, "maxfly": 0}
    futures = {}
    submitted = []
    completed = set()
    rlog = []
    events = []                    # ("submit", i) / ("stop", cause) in real order
    fixed = list(case.get("sched") or [])
    replaying = case.get("sched") is not None

    class Err(Exception):
        pass

    class FakeFuture:
        def __init__(self, i):
            self.i = i
            self.cb = None

        def cancelled(self):
            return False

        def add_done_callback(self, cb):
            self.cb = cb
            futures[self.i] = self
            submitted.append(self.i)
            events.append(("submit", self.i))
            decide("window")

    def inflight():
        return [j for j in submitted if j not in completed]

    def fire(j):
        if j in futures and j not in completed and futures[j].cb is not None:
            completed.add(j)
            state["cur"] = j
            futures[j].cb(futures[j])
            o = outs[j]
            if (o[0] == "err" and case["fail_fast"]) or \
                    (o[0] == "val" and case["reducer"] and o[2]):
                events.append(("stop", j))

    def decide(kind):
        fl = inflight()
        if replaying:
            if fixed:
                exp, done = fixed.pop(0)
            else:
                exp, done = False, (list(fl) if kind != "window" else [])
        else:
            exp = False
            if kind == "window":
                p = {"lazy": 0.0, "eager": 0.7, "mixed": 0.25, "timeout": 0.1}[style]
                done = [j for j in fl if rng.random() < p]
            elif kind == "wait_first":
                if style == "timeout" and rng.random() < 0.25:
                    exp = True
                    done = [j for j in fl if rng.random() < 0.3]
                else:
                    k = rng.randint(1, max(1, len(fl))) if fl else 0
                    done = rng.sample(fl, k) if fl else []
                    if rng.random() < 0.05:
                        done = []      # spurious wake-up
            elif kind == "wait_all":
                if style == "timeout" and rng.random() < 0.5:
                    exp = True
                    done = [j for j in fl if rng.random() < 0.5]
                else:
                    done = list(fl)
            else:  # shutdown
                if case["kill_at_shutdown"]:
                    done = [j for j in fl if rng.random() < 0.3]
                else:
                    done = list(fl)
            rng.shuffle(done)
            if rng.random() < 0.1:
                done = done + [rng.randrange(0, n + 2)]   # junk index
        sched.append((exp, list(done)))
        for j in done:
            fire(j)
        if exp:
            state["expired"] = True
            events.append(("stop", "clock"))

    class FakeExecutor:
        def __enter__(self):
            return self

        def __exit__(self, *a):
            return False

        def submit(self, task, *args, **kw):
            f = FakeFuture(args[0])
            f.args = args
            f.task = task
            return f

    def fake_wait(fs, timeout=None, return_when=None):
        state["maxfly"] = max(state["maxfly"], len(fs))
        kind = ("wait_first" if return_when == concurrent.futures.FIRST_COMPLETED
                else "wait_all")
        decide(kind)
        done = {f for f in fs if f.i in completed}
        return done, set(fs) - done

    class FakeTime:
        @staticmethod
        def time():
            state["clock_calls"] += 1
            if state["clock_calls"] == 1:
                return 1000.0
            return 1e9 if state["expired"] else 1000.0

    def extract_result(future):
        o = outs[future.i]
        if o[0] == "err":
            return None, Err(o[1])
        return future.task(*future.args), None

    def shutdown_executor(executor, waiting):
        state["maxfly"] = max(state["maxfly"], len(waiting))
        decide("shutdown")

    def task(k):
        o = outs[k]
        if case["reducer"] and o[1] == NONE_CODE:
            return None                      # a task run for its side effect
        if case["reducer"] and o[1] == 0:
            return 0                         # a falsy result that is not None
        return (k, o[1]) if case["reducer"] else o[1]

    def reducer(res):
        k = state["cur"]
        v = NONE_CODE if res is None else (0 if isinstance(res, int) else res[1])
        rlog.append((k, v))
        return 0 if outs[k][2] else (None if v % 2 else 5)

    if case["expired0"]:
        state["expired"] = True
        events.append(("stop", "clock"))
    real_wait, real_time = concurrent.futures.wait, par.time
    concurrent.futures.wait = fake_wait
    par.time = FakeTime
    try:
        try:
            r = par._generic_pmap(
                task, list(range(n)), None, None,
                reducer if case["reducer"] else None,
                100.0, case["fail_fast"], W, "", {},
                FakeExecutor, extract_result, shutdown_executor)
            final = ("Return", r)
        except par.MapExceptions as e:
            final = ("RaiseMap", sorted((k, v.args[0]) for k, v in e.errors.items())
                     if False else [(k, v.args[0]) for k, v in e.errors.items()],
                     e.results)
        except Err as e:
            final = ("Raise", e.args[0])
    finally:
        concurrent.futures.wait = real_wait
        par.time = real_time
    return {"submitted": submitted, "rlog": rlog, "final": final,
            "sched": sched, "maxfly": state["maxfly"],
            "completed": sorted(completed), "events": events}


def run_serial_impl(case):
    import qutip.solver.parallel as par
    outs = case["outs"]
    n = len(outs)
    rlog = []
    cur = {"k": None}
    calls = {"n": 0}
    expire_at = case["expire_at"]

    class Err(Exception):
        pass

    class FakeTime:
        @staticmethod
        def time():
            calls["n"] += 1
            # call 1 computes end_time; call k+2 is the test of iteration k
            if calls["n"] == 1:
                return 1000.0
            k = calls["n"] - 2
            return 1e9 if (expire_at is not None and k >= expire_at) else 1000.0

    def task(k):
        o = outs[k]
        if o[0] == "err":
            raise Err(o[1])
        cur["k"] = k
        if case["reducer"] and o[1] == NONE_CODE:
            return None
        if case["reducer"] and o[1] == 0:
            return 0
        return (k, o[1]) if case["reducer"] else o[1]

    def reducer(res):
        k = cur["k"]
        v = NONE_CODE if res is None else (0 if isinstance(res, int) else res[1])
        rlog.append((k, v))
        return 0 if outs[k][2] else (None if v % 2 else 5)

    real_time = par.time
    par.time = FakeTime
    try:
        try:
            r = par.serial_map(task, list(range(n)),
                               reduce_func=reducer if case["reducer"] else None,
                               map_kw={"timeout": 100.0, "fail_fast": case["fail_fast"]})
            final = ("Return", r)
        except par.MapExceptions as e:
            final = ("RaiseMap", [(k, v.args[0]) for k, v in e.errors.items()], e.results)
        except Err as e:
            final = ("Raise", e.args[0])
    finally:
        par.time = real_time
    return {"rlog": rlog, "final": final}


# ------------------------------------------------------------------- model
def coq_outs(outs):
    def f(o):
        if o[0] == "err":
            return "Err %s" % cz(o[1])
        return "Val %s %s" % (cz(o[1]), cbool(o[2]))
    return clist(outs, f)


def coq_cfg(case):
    return "{| outs := %s; workers := %s; fail_fast := %s; reducer := %s |}" % (
        coq_outs(case["outs"]), cnat(case["workers"]), cbool(case["fail_fast"]),
        cbool(case["reducer"]))


def coq_sched(sched):
    return clist(sched, lambda d: "{| d_expire := %s; d_done := %s |}" % (
        cbool(d[0]), clist(d[1], cnat)))


def canon_final_py(final):
    kind = final[0]
    if kind == "Return":
        return ("Return", final[1])
    if kind == "Raise":
        return ("Raise", final[1])
    return ("RaiseMap", [tuple(x) for x in final[1]], final[2])


def canon_final_coq(v):
    def res(x):
        if x is None:
            return None
        assert x[0] == "Some"
        return [None if e is None else e[1] for e in x[1]]
    if v == "OutOfFuel":
        return ("OutOfFuel",)
    if v[0] == "Return":
        return ("Return", res(v[1]))
    if v[0] == "Raise":
        return ("Raise", v[1])
    return ("RaiseMap", [tuple(x) for x in v[1]], res(v[2]))


# ---------------------------------------------------------------- generator
def gen_case(rng):
    n = rng.choice([0, 1, 2, 3, 4, 5, 6, 8, 12])
    W = rng.choice([1, 1, 2, 3, 4, 7])
    perr = rng.choice([0.0, 0.0, 0.15, 0.4])
    pstop = rng.choice([0.0, 0.1, 0.3])
    outs = []
    for k in range(n):
        if rng.random() < perr:
            outs.append(("err", rng.randrange(1, 50)))
        else:
            outs.append(("val", rng.randrange(-20, 100), rng.random() < pstop))
    red = rng.random() < 0.6
    if red:
        # results that are falsy in Python (None, 0) must be delivered like any other
        outs = [(o[0], rng.choice(ZERO_LIKE), o[2]) if (o[0] == "val" and rng.random() < 0.2) else o
                for o in outs]
    return {"outs": outs, "workers": W, "fail_fast": rng.random() < 0.5,
            "reducer": red,
            "style": rng.choice(["lazy", "eager", "mixed", "mixed", "timeout"]),
            "kill_at_shutdown": rng.random() < 0.3,
            "expired0": rng.random() < 0.04}


# ------------------------------------------------ implementation-level oracle
def oracle(case, r):
    """The property itself, checked on an implementation trace."""
    outs, W = case["outs"], case["workers"]
    n = len(outs)
    bad = []
    if r["maxfly"] > W:
        bad.append("more than num_workers tasks in flight: %d > %d" % (r["maxfly"], W))
    ev = r.get("events") or []
    stops = [k for k, e in enumerate(ev) if e[0] == "stop"]
    if stops:
        late = sum(1 for e in ev[stops[0]:] if e[0] == "submit")
        if late >= W:
            bad.append("submissions after a stop signal: %d tasks were still submitted after %r "
                       "(must be fewer than num_workers = %d)" % (late, ev[stops[0]], W))
    sub = r["submitted"]
    if sub != list(range(len(sub))):
        bad.append("submission order is not 0..k-1: %r" % sub)
    ks = [k for k, _ in r["rlog"]]
    if len(set(ks)) != len(ks):
        bad.append("a result was handed to the reducer twice: %r" % ks)
    comp_vals = [k for k in r["completed"] if outs[k][0] == "val"]
    if case["reducer"] and sorted(ks) != comp_vals:
        bad.append("reducer calls %r != completed tasks %r" % (sorted(ks), comp_vals))
    for k, v in r["rlog"]:
        if outs[k][1] != v:
            bad.append("reducer got wrong value for task %d" % k)
    errs = [(k, outs[k][1]) for k in r["completed"] if outs[k][0] == "err"]
    fin = r["final"]
    if errs:
        if fin[0] == "Return":
            bad.append("task error silently dropped: %r" % errs)
        elif fin[0] == "Raise":
            if not case["fail_fast"]:
                bad.append("bare error raised though fail_fast is off")
            if fin[1] not in [e for _, e in errs]:
                bad.append("raised error is not a task error")
        else:
            if case["fail_fast"]:
                bad.append("MapExceptions raised in fail_fast mode")
            if sorted(fin[1]) != sorted(errs):
                bad.append("MapExceptions.errors %r != %r" % (fin[1], errs))
    elif fin[0] != "Return":
        bad.append("exception raised without a failing task")
    if not case["reducer"]:
        res = fin[1] if fin[0] == "Return" else (fin[2] if fin[0] == "RaiseMap" else None)
        if res is not None:
            for k in range(n):
                want = outs[k][1] if (k in r["completed"] and outs[k][0] == "val") else None
                if res[k] != want:
                    bad.append("results[%d] = %r, expected %r" % (k, res[k], want))
                    break
    elif fin[0] == "Return" and fin[1] is not None:
        bad.append("results returned although a reducer was given")
    return bad


# ---------------------------------------------------------------------- run
def run(ctx):
    rng = random.Random(ctx.seed * 7919 + 14)
    ctx.cov["rule"] = (
        "case = (task outcomes, num_workers, fail_fast, reducer?, completion style); "
        "decisions are drawn online at every wait/submit/shutdown point of the real "
        "_generic_pmap and replayed in the Coq model; a case is non-trivial when at "
        "least 2 tasks were submitted; distinct by (case, recorded schedule)")
    ctx.cov["trusted_base"] += [
        "scripted executor / wait / clock in tools/c14.py standing for "
        "ProcessPoolExecutor, loky and MPI executors and the OS scheduler",
        "Model/C14.v is hand-written; tied to parallel.py by the trace "
        "correspondence run below"]

    def search(failed, log):
        # a proof broke: look for a trace of the implementation that violates
        # the property itself
        r2 = random.Random(ctx.seed + 1)
        for _ in range(3000):
            case = gen_case(r2)
            r = run_impl(case, r2.randrange(1 << 30))
            bad = oracle(case, r)
            if bad:
                ctx.violation("parallel._generic_pmap", bad[0].split(":")[0],
                              bad[0], {"case": case, "trace": r, "failed_theorems": failed})
                return

    vlib.standard_proof_step(ctx, ["Props/C14.vo"], ["Props/C14.v"], search)

    # corpus first, then random
    ncases = 300 if ctx.quick else 3000
    cases = []
    cdir = os.path.join(vlib.VERIF, "corpus", "C14")
    if os.path.isdir(cdir):
        for f in sorted(os.listdir(cdir)):
            cases.append(json.load(open(os.path.join(cdir, f))))
    while len(cases) < ncases:
        cases.append(gen_case(rng))
    impl = []
    exprs = []
    dist = {"style": {}, "final": {}, "n": {}}
    for case in cases:
        r = run_impl(case, rng.randrange(1 << 30))
        impl.append(r)
        exprs.append("observe %s %s %s" % (coq_cfg(case), coq_sched(r["sched"]),
                                          cbool(case["expired0"])))
        dist["style"][case["style"]] = dist["style"].get(case["style"], 0) + 1
        dist["final"][r["final"][0]] = dist["final"].get(r["final"][0], 0) + 1
        dist["n"][len(case["outs"])] = dist["n"].get(len(case["outs"]), 0) + 1
        ctx.count_case((json.dumps(case, sort_keys=True), r["sched"]),
                       nontrivial=len(r["submitted"]) >= 2)
        bad = oracle(case, r)
        if bad:
            ctx.violation("parallel._generic_pmap", bad[0].split(":")[0], bad[0],
                          {"case": case, "trace": r})
    # serial_map cases
    scases = []
    for _ in range(ncases // 3):
        c = gen_case(rng)
        c["expire_at"] = rng.choice([None, None, 0, 1, 2, 3])
        scases.append(c)
    simpl = [run_serial_impl(c) for c in scases]
    sexprs = ["serial_observe %s (fun k => %s)" % (
        coq_cfg(c), "false" if c["expire_at"] is None else "Nat.leb %s k" % cnat(c["expire_at"]))
        for c in scases]
    try:
        vals = vlib.coq_eval_values("cases_C14", HEADER, exprs + sexprs)
    except RuntimeError as e:
        ctx.violation("corr:C14:model-eval", "coqc", "model evaluation failed",
                      {"log": str(e)}, found_input=False)
        return
    mism = 0
    for k, (case, r) in enumerate(zip(cases, impl)):
        v = vlib.parse_coq_value(vals[k])
        msub, mrlog, mfin = v
        model = (list(msub), [tuple(x) for x in mrlog], canon_final_coq(mfin))
        im = (r["submitted"], [tuple(x) for x in r["rlog"]], canon_final_py(r["final"]))
        if model != im:
            mism += 1
            if mism <= 3:
                bad = oracle(case, r)
                ctx.violation("corr:parallel._generic_pmap",
                              bad[0].split(":")[0] if bad else "model-differs",
                              "model and implementation disagree on a schedule"
                              + ("; implementation violates: " + bad[0] if bad else ""),
                              {"case": case, "schedule": r["sched"], "impl": im,
                               "model": model}, found_input=bool(bad))
        ctx.cov["traces_validated_against_impl"] += 1
    for k, (case, r) in enumerate(zip(scases, simpl)):
        v = vlib.parse_coq_value(vals[len(cases) + k])
        mrlog, mfin = v
        model = ([tuple(x) for x in mrlog], canon_final_coq(mfin))
        im = ([tuple(x) for x in r["rlog"]], canon_final_py(r["final"]))
        ctx.count_case(("serial", json.dumps(case, sort_keys=True)),
                       nontrivial=len(case["outs"]) >= 2)
        if model != im:
            mism += 1
            if mism <= 3:
                ctx.violation("corr:parallel.serial_map", "model-differs",
                              "serial_map model and implementation disagree",
                              {"case": case, "impl": im, "model": model},
                              found_input=True)
        ctx.cov["traces_validated_against_impl"] += 1
    ctx.cov["input_distribution"] = dist
    ctx.sample({"case": cases[-1], "schedule": impl[-1]["sched"],
                "impl_trace": [impl[-1]["submitted"], impl[-1]["rlog"], impl[-1]["final"]]})
    ctx.sample({"serial_case": scases[-1], "impl": simpl[-1]})

    # the three executor wrappers around _generic_pmap (what the scripted
    # executor of the correspondence stands for)
    wrap_ok, wrap_msg = wrappers_obligation()
    ctx.add_obligation("wrappers: parallel_map / mpi_pmap wait for every in-flight task at "
                       "shutdown, loky_pmap may kill them, results are extracted as value-or-"
                       "exception, arguments reach _generic_pmap in order", wrap_ok)
    # real process pool (not part of the proof): positional results, and the
    # property itself on maps that are ended early with tasks in flight
    if True:
        import qutip.solver.parallel as par
        res = par.parallel_map(_sq, list(range(9)), map_kw={"num_cpus": 3})
        if res != [k * k for k in range(9)]:
            ctx.violation("parallel.parallel_map", "positional",
                          "parallel_map result list is not positional",
                          {"got": res})
        ctx.count_case("real-pool-smoke")
        found = real_pool_oracle(ctx)
        if not wrap_ok and not found:
            ctx.violation("wrappers:parallel.py", wrap_msg[:60],
                          "an executor wrapper of parallel.py is no longer the modelled one, so the "
                          "scripted executor of the correspondence no longer stands for it: %s" % wrap_msg,
                          {"detail": wrap_msg}, found_input=False)
    ctx.cov["explanation"] = (
        "Theorems (Props/C14.v) hold for every schedule of the model; the model is "
        "tied to parallel.py by exact trace equality on generated schedules "
        "(submission order, reducer call log, returned list / raised error).")


def _sq(x):
    return x * x


# ------------------------------------------------ executor wrappers (source)
WRAPPERS = {
    "parallel_map": {
        "shutdown_executor": ["executor.shutdown()"],
        "extract_result": ["exception = future.exception()",
                           "if exception is not None:\n    return (None, exception)",
                           "return (future.result(), None)"]},
    "mpi_pmap": {
        "shutdown_executor": ["executor.shutdown()"],
        "extract_result": ["exception = future.exception()",
                           "if exception is not None:\n    return (None, exception)",
                           "return (future.result(), None)"]},
    "loky_pmap": {
        "shutdown_executor": ["kill_workers = len(active_tasks) > 0",
                              "executor.shutdown(kill_workers=kill_workers)"],
        "extract_result": ["exception = future.exception()",
                           "if isinstance(exception, ShutdownExecutorError):\n    return (None, None)",
                           "if exception is not None:\n    return (None, exception)",
                           "return (future.result(), None)"]},
}


def wrappers_obligation():
    """Fail-closed reading of the nested shutdown_executor / extract_result of the
    three executor wrappers and of their call of _generic_pmap."""
    import ast
    src = open(os.path.join(vlib.REPO, "qutip/solver/parallel.py")).read()
    tree = ast.parse(src)
    fns = {n.name: n for n in tree.body if isinstance(n, ast.FunctionDef)}
    for name, want in WRAPPERS.items():
        if name not in fns:
            return False, "%s not found" % name
        nested = {n.name: n for n in fns[name].body if isinstance(n, ast.FunctionDef)}
        for inner, stmts in want.items():
            if inner not in nested:
                return False, "%s.%s not found" % (name, inner)
            body = [b for b in nested[inner].body
                    if not (isinstance(b, ast.Expr) and isinstance(b.value, ast.Constant))]
            got = [ast.unparse(b) for b in body]
            if got != stmts:
                return False, "%s.%s changed: %r" % (name, inner, got)
        ret = [n for n in fns[name].body if isinstance(n, ast.Return)]
        if len(ret) != 1 or not isinstance(ret[0].value, ast.Call) or \
                ast.unparse(ret[0].value.func) != "_generic_pmap":
            return False, "%s does not end in a single call of _generic_pmap" % name
        args = [ast.unparse(a) for a in ret[0].value.args]
        if args[:5] != ["task", "values", "task_args", "task_kwargs", "reduce_func"] or \
                args[8:] != ["progress_bar", "progress_bar_kwargs", "setup_executor",
                             "extract_result", "shutdown_executor"] or ret[0].value.keywords:
            return False, "%s passes other arguments to _generic_pmap: %r" % (name, args)
    return True, ""


# --------------------------------------------------- real process-pool oracle
def _rp_task(k, d, plan):
    """Task run in a real worker: leaves start / end markers, then returns or raises."""
    import time as _t
    delay, kind, val = plan[k]
    open(os.path.join(d, "start_%d" % k), "w").close()
    _t.sleep(delay)
    with open(os.path.join(d, "end_%d" % k), "w") as f:
        f.write(repr(_t.time()))
    if kind == "err":
        raise ValueError(k)
    return (k, val)


def real_pool_oracle(ctx):
    """parallel_map on a real ProcessPoolExecutor, ended early (reducer signal, time
    limit, fail-fast error) while tasks are in flight.  Whatever the scheduling, when
    the map returns or raises every task that STARTED must be accounted for: a value
    reached the reducer / result list exactly once, an error reached the caller, and
    nothing changes after the return."""
    import shutil
    import tempfile
    import time as _t
    import qutip.solver.parallel as par
    scen = [
        # name, plan {k: (delay, kind, value)}, stop_on (task whose result stops), fail_fast, timeout
        ("stop-then-late-error", {0: (0.0, "val", 5), 1: (0.5, "err", 0), 2: (0.5, "val", 7),
                                  3: (0.1, "val", 1), 4: (0.1, "val", 2), 5: (0.1, "val", 3)}, 0, False, None),
        ("stop-then-late-error-failfast", {0: (0.0, "val", 5), 1: (0.5, "err", 0), 2: (0.5, "val", 7),
                                           3: (0.1, "val", 1), 4: (0.1, "val", 2), 5: (0.1, "val", 3)}, 0, True, None),
        ("stop-then-late-values", {0: (0.0, "val", 5), 1: (0.5, "val", 6), 2: (0.5, "val", 7),
                                   3: (0.1, "val", 1), 4: (0.1, "val", 2), 5: (0.1, "val", 3)}, 0, False, None),
        ("timeout-with-tasks-in-flight", {k: (0.6, "val", k) for k in range(6)}, None, False, 0.2),
        ("failfast-error-with-value-in-flight", {0: (0.0, "err", 0), 1: (0.5, "val", 6), 2: (0.5, "val", 7),
                                                 3: (0.1, "val", 1), 4: (0.1, "val", 2), 5: (0.1, "val", 3)},
         None, True, None),
    ]
    found = False
    for use_reducer in (True, False):
        for name, plan, stop_on, ff, timeout in scen:
            if not use_reducer and stop_on is not None:
                continue
            d = tempfile.mkdtemp(prefix="c14_rp_")
            rlog = []

            def reducer(res, rlog=rlog, stop_on=stop_on):
                rlog.append(res)
                return 0 if (stop_on is not None and res[0] == stop_on) else None
            mk = {"num_cpus": 2, "fail_fast": ff}
            if timeout is not None:
                mk["timeout"] = timeout
            outcome, errs, results = "return", {}, None
            try:
                results = par.parallel_map(_rp_task, list(range(len(plan))), task_args=(d, plan),
                                           reduce_func=reducer if use_reducer else None, map_kw=mk)
            except par.MapExceptions as e:
                outcome, errs, results = "mapexc", {k: v.args[0] for k, v in e.errors.items()}, e.results
            except ValueError as e:
                outcome, errs = "raise", {e.args[0]: e.args[0]}
            t_ret = _t.time()
            snap_r = list(rlog)
            snap_res = None if results is None else list(results)
            _t.sleep(1.2)          # any late callback would have run by now
            started = sorted(int(f[6:]) for f in os.listdir(d) if f.startswith("start_"))
            ended = {}
            for f in os.listdir(d):
                if f.startswith("end_"):
                    ended[int(f[4:])] = float(open(os.path.join(d, f)).read())
            shutil.rmtree(d, ignore_errors=True)
            bad = []
            if list(rlog) != snap_r:
                bad.append("the reducer was still called after the map had returned: %r then %r"
                           % (snap_r, list(rlog)))
            if results is not None and snap_res != list(results):
                bad.append("the result list kept changing after the map had returned")
            for k in started:
                kind = plan[k][1]
                if k not in ended or ended[k] > t_ret + 0.05:
                    bad.append("task %d was still running when the map returned" % k)
                    continue
                if kind == "err" and k not in errs:
                    bad.append("the error of task %d, which ran, did not reach the caller "
                               "(outcome %s, errors %r)" % (k, outcome, sorted(errs)))
                if kind == "val":
                    if use_reducer and [r[0] for r in snap_r].count(k) != 1:
                        bad.append("result of task %d, which ran, reached the reducer %d times"
                                   % (k, [r[0] for r in snap_r].count(k)))
                    if not use_reducer and snap_res is not None and snap_res[k] != (k, plan[k][2]):
                        bad.append("results[%d] = %r although the task ran" % (k, snap_res[k]))
            ctx.count_case(("real-pool", name, use_reducer), nontrivial=True)
            if bad:
                found = True
                ctx.violation("parallel.parallel_map:real-pool", bad[0].split(":")[0][:60],
                              "real ProcessPoolExecutor run '%s' (%s): %s" % (
                                  name, "reducer" if use_reducer else "result list", bad[0]),
                              {"scenario": name, "plan": {str(k): list(v) for k, v in plan.items()},
                               "reducer": use_reducer, "fail_fast": ff, "timeout": timeout,
                               "outcome": outcome, "errors": {str(k): v for k, v in errs.items()},
                               "started": started, "problems": bad})
    return found


def replay(ctx, payload):
    d = payload["detail"]
    case = dict(d["case"])
    sched = d.get("schedule") or (d.get("trace") or {}).get("sched")
    if sched is not None:
        case["sched"] = [(bool(e), list(js)) for e, js in sched]
    r = run_impl(case, 0)
    bad = oracle(case, r)
    if bad:
        ctx.violation(payload["site"], payload["signature"], bad[0],
                      {"case": case, "trace": r})
