"""C13 - a trajectory is a function of the problem and its seed alone.

Proof step   : coq/Props/C13.v (model coq/Model/C13.v, scheduler = C14 machine).
Tie (K1)     : MultiTrajSolver._read_seed / run / MultiTrajResult.add on a real
               MCSolver with a scripted map (the harness chooses which results
               reach result.add and in which order) <-> k_history.
Tie (K2)     : the real MCIntegrator driven through its injection point
               MCIntegrator(integrator, system, options) with a scripted ODE
               integrator, scripted c_ops/n_ops and a scripted generator; whole
               histories of trajectories on ONE integrator object <-> i_observe.
Tie (K3)     : a real SSESolver whose integrator is a subclass of the real
               _Explicit_Simple_Integrator with a scripted stepper, real Wiener /
               PreSetWiener, scripted generator; histories of run() and
               run_from_experiment() on one solver object <-> j_observe.
Oracle       : the property itself on real mcsolve / nm_mcsolve / ssesolve /
               smesolve: per-seed trajectories compared BITWISE between a fresh
               one-trajectory run and serial / parallel_map(1-4 workers) /
               permuted / sub-ensemble / scripted completion orders / after
               other uses of the same solver / keep_runs_results on-off /
               result.seeds fed back; generator identity; draw counts; noise
               regenerated from the seed; global RNG untouched.
"""
import copy
import json
import math
import os
import random
import sys
import time
import warnings

import numpy as np

import vlib
from vlib import cz, cnat, cbool, clist, copt

HEADER = ("From Coq Require Import List ZArith Bool.\nImport ListNotations.\n"
          "From QV Require Import Model.C13 Model.C13_inst Model.C13_conf Model.C13_mix Model.C13_gen.\nLocal Open Scope Z_scope.\n")
TU = 64            # time unit of the scripted problems: 1/64
EPS_EXP = 34       # mc_corr_eps = 2^-34 in the scripted Monte-Carlo problem


# ======================================================================
# K1  seeds / scripted map / result.add
# ======================================================================
def _sid(s):
    ent = s.entropy
    return (int(ent), tuple(int(k) for k in s.spawn_key))


class ScriptedMap:
    """Stands for serial_map / parallel_map: runs the tasks in `exec_order`
    (optionally on deep copies of the solver = forked workers) and hands the
    results to reduce_func in `order` (may be partial)."""

    def __init__(self, order=None, exec_order=None, workers=None, rng=None):
        self.order, self.exec_order, self.workers, self.rng = order, exec_order, workers, rng
        self.values = None
        self.results = {}

    def __call__(self, task, values, task_args=None, task_kwargs=None,
                 reduce_func=None, map_kw=None, progress_bar=None,
                 progress_bar_kwargs={}):
        task_args = task_args or ()
        task_kwargs = task_kwargs or {}
        values = list(values)
        self.values = values
        n = len(values)
        ex = list(self.exec_order) if self.exec_order is not None else list(range(n))
        tasks = [task]
        if self.workers and hasattr(task, "__self__"):
            tasks = [getattr(copy.deepcopy(task.__self__), task.__name__)
                     for _ in range(self.workers)]
        for j in ex:
            if j < n:
                w = self.rng.randrange(len(tasks)) if (self.rng and len(tasks) > 1) else 0
                self.results[j] = tasks[w](values[j], *task_args, **task_kwargs)
        order = self.order if self.order is not None else list(range(n))
        out = [None] * n
        for j in order:
            if j in self.results:
                if reduce_func is not None:
                    reduce_func(self.results[j])
                else:
                    out[j] = self.results[j]
        return out


class patched_map:
    def __init__(self, smap):
        self.smap = smap

    def __enter__(self):
        import qutip.solver.multitraj as mt
        self.mt = mt
        self.old = mt._get_map
        mt._get_map = lambda options: (self.smap, {})
        return self.smap

    def __exit__(self, *a):
        self.mt._get_map = self.old
        return False


def k1_case(rng):
    from numpy.random import SeedSequence
    h = []
    for _ in range(rng.choice([1, 2, 2, 3])):
        n = rng.choice([0, 1, 2, 3, 4, 5])
        form = rng.choice(["none", "user", "int", "list", "list"])
        if form == "int":
            a = ("int", rng.randrange(0, 1 << rng.choice([4, 31, 70])))
        elif form == "list":
            m = max(0, n + rng.choice([-1, 0, 0, 1, 2]))
            items = []
            for _i in range(m):
                if rng.random() < 0.5:
                    items.append(("i", rng.randrange(0, 1000)))
                else:
                    key = [rng.randrange(0, 6) for _k in range(rng.choice([0, 1, 2]))]
                    items.append(("s", rng.randrange(0, 1000), key, rng.randrange(0, 3)))
            a = ("list", items)
        else:
            a = (form,)
        done = [j for j in range(n) if rng.random() < 0.85]
        rng.shuffle(done)
        if rng.random() < 0.1:
            done = done + [n + 1]
        h.append({"arg": a, "ntraj": n, "order": done, "keep": rng.random() < 0.5})
    return {"user": (rng.randrange(0, 1000), [rng.randrange(0, 4)], rng.randrange(0, 3)),
            "hist": h}


def _mk_ss(ent, key, n):
    from numpy.random import SeedSequence
    return SeedSequence(entropy=ent, spawn_key=tuple(key), n_children_spawned=n)


def k1_impl(case):
    import qutip as qt
    a = qt.destroy(2)
    out = []
    user = _mk_ss(*case["user"])
    solver = None
    ent0 = None
    for run in case["hist"]:
        opt = {"progress_bar": "", "keep_runs_results": run["keep"], "method": "diag"}
        if solver is None:
            solver = qt.MCSolver(a.dag() * a, [a], options=opt)
            ent0 = int(solver.seed_sequence.entropy)
        else:
            solver.options["keep_runs_results"] = run["keep"]
        arg = run["arg"]
        if arg[0] == "none":
            seeds = None
        elif arg[0] == "user":
            seeds = user
        elif arg[0] == "int":
            seeds = arg[1]
        else:
            seeds = [it[1] if it[0] == "i" else _mk_ss(it[1], it[2], it[3]) for it in arg[1]]
        smap = ScriptedMap(order=run["order"])
        try:
            with patched_map(smap):
                res = solver.run(qt.basis(2, 1), [0, 0.5, 1.0], ntraj=run["ntraj"], seeds=seeds)
            ident = {}
            for j, r in smap.results.items():
                ident[id(r[1])] = j
                ident[id(r[1].collapse)] = j
            o = ("ok", [_sid(s) for s in smap.values], [_sid(s) for s in res.seeds],
                 [ident.get(id(c)) for c in res.collapse],
                 [ident.get(id(t)) for t in res.trajectories], res.num_trajectories)
        except ValueError as e:
            o = ("ValueError",)
        out.append((o, int(solver.seed_sequence.n_children_spawned),
                    int(user.n_children_spawned)))
    return ent0, out


def _cq_sseq(ent, key, n):
    return "{| ss_ent := %s; ss_key := %s; ss_n := %s |}" % (cz(ent), clist(key, cnat), cnat(n))


def k1_expr(case, ent0):
    hs = []
    for run in case["hist"]:
        a = run["arg"]
        if a[0] == "none":
            ca = "ANone"
        elif a[0] == "user":
            ca = "AUser"
        elif a[0] == "int":
            ca = "AInt %s" % cz(a[1])
        else:
            ca = "AList %s" % clist(a[1], lambda it: ("IInt %s" % cz(it[1])) if it[0] == "i"
                                    else "ISeq %s" % _cq_sseq(it[1], it[2], it[3]))
        hs.append("(%s, %s, %s, %s)" % (ca, cnat(run["ntraj"]), clist(run["order"], cnat),
                                         cbool(run["keep"])))
    return "k_history (fresh %s) %s %s" % (cz(ent0), _cq_sseq(*case["user"]), clist(hs))


def k1_canon_model(v):
    res = []
    for (o, nsolver, nuser) in v:
        if o is None:
            res.append((("ValueError",), nsolver, nuser))
        else:
            seeds, rseeds, coll, trajs, num = o[1]
            f = lambda l: [(e, tuple(k)) for e, k in l]
            res.append((("ok", f(seeds), f(rseeds), list(coll), list(trajs), num), nsolver, nuser))
    return res


# ======================================================================
# K2  MCIntegrator with scripted physics
# ======================================================================
def _enc(D, lvl, e):
    from qutip.core import data as _data
    v = np.zeros((D, 1), dtype=complex)
    v[lvl, 0] = 2.0 ** (-e)
    return _data.Dense(v)


def _dec(state):
    arr = np.asarray(state.to_array()).ravel()
    nz = np.nonzero(arr)[0]
    if len(nz) != 1:
        raise AssertionError("scripted state has %d non-zero entries" % len(nz))
    amp = arr[nz[0]]
    if amp.imag != 0 or amp.real <= 0:
        raise AssertionError("scripted amplitude not positive real")
    m, ex = math.frexp(amp.real)
    if m != 0.5:
        raise AssertionError("scripted amplitude is not a power of two: %r" % amp.real)
    return int(nz[0]), 1 - ex


class FakeODE:
    method = "scripted"
    integrator_options = {}
    name = "scripted"

    def __init__(self, prob):
        self.p = prob
        self.D = len(prob["rate"])
        self.t, self.lvl, self.e = None, None, None

    def set_state(self, t, state):
        if getattr(self, "expect_fresh", False):
            # first thing MCIntegrator.set_state must have done: a NEW, empty
            # collapse list, already registered as CollapseFeedback
            reg = self.fake_system.registered
            self.fresh_seen = (reg is not None and len(reg) == 0
                               and reg is not self.previous_list)
            self.expect_fresh = False
        self.t = float(t)
        self.lvl, self.e = _dec(state)

    def get_state(self, copy=True):
        return self.t, _enc(self.D, self.lvl, self.e)

    def mcstep(self, t, copy=True):
        self.t = min(self.t + self.p["h"] / TU, t)
        self.e += self.p["rate"][self.lvl]
        return self.t, _enc(self.D, self.lvl, self.e)

    def reset(self, hard=False):
        pass

    def arguments(self, args):
        pass


class FakeCop:
    issuper = False

    def __init__(self, D, ch):
        self.D, self.ch = D, ch

    def matmul_data(self, t, state):
        from qutip.core import data as _data
        lvl, e = _dec(state)
        tgt = self.ch["tgt"][lvl]
        if tgt is None:
            return _data.Dense(np.zeros((self.D, 1), dtype=complex))
        return _enc(self.D, tgt, e + self.ch["amp"][lvl])

    def arguments(self, args):
        pass


class FakeNop:
    def __init__(self, ch):
        self.ch = ch

    def expect_data(self, t, state):
        lvl, e = _dec(state)
        return complex(self.ch["w"][lvl] / 4.0 * 4.0 ** (-e))

    def arguments(self, args):
        pass


class FakeSystem:
    def __init__(self, prob):
        D = len(prob["rate"])
        self.c_ops = [FakeCop(D, ch) for ch in prob["chans"]]
        self.n_ops = [FakeNop(ch) for ch in prob["chans"]]

    registered = None

    def _register_feedback(self, key, val):
        if key == "CollapseFeedback":
            self.registered = val


class ScriptGen:
    """scripted generator: random() hands out k/2^53, normal() integers."""

    def __init__(self, vals, dflt=0):
        self.vals = list(vals)
        self.dflt = dflt
        self.pos = 0
        self.log = []
        self.calls = []

    def _next(self):
        v = self.vals[self.pos] if self.pos < len(self.vals) else self.dflt
        self.pos += 1
        return v

    def random(self):
        f = sys._getframe(1)
        role = 0 if (f.f_code.co_name == "set_state" or "state_new" in f.f_locals) else 1
        self.log.append((role, self.pos))
        return self._next() / float(1 << 53)

    def normal(self, loc, scale, size):
        self.calls.append(int(size[0]))
        n = int(np.prod(size))
        return np.array([float(self._next()) for _ in range(n)]).reshape(size)


def k2_case(rng):
    D = rng.choice([2, 3, 4])
    nch = rng.choice([1, 1, 2, 3])
    rate = [rng.choice([0, 1, 1, 2, 3]) for _ in range(D)]
    chans = []
    tot = [rng.choice([0, 1, 2, 4, 4, 8]) for _ in range(D)]
    ws = [[0] * D for _ in range(nch)]
    for l in range(D):
        left = tot[l]
        for c in range(nch - 1):
            ws[c][l] = rng.randint(0, left)
            left -= ws[c][l]
        ws[nch - 1][l] = left
    for c in range(nch):
        chans.append({"w": ws[c],
                      "tgt": [rng.choice([None, None] + list(range(D)) * 2) for _ in range(D)],
                      "amp": [rng.choice([0, 0, 1, 2, 30]) for _ in range(D)]})
    prob = {"h": rng.choice([1, 2, 3, 4, 8]), "rate": rate, "chans": chans}
    hist, streams = [], []
    for _ in range(rng.choice([1, 2, 3, 4])):
        t0 = rng.choice([0, 0, 5, 16])
        ts, t = [], t0
        for _k in range(rng.choice([1, 2, 3, 5])):
            t += rng.choice([1, 4, 7, 8, 16])
            ts.append(t)
        nj = rng.random() < 0.12
        # jump_prob_floor (improved sampling): a multiple of 2^-20, as is the first draw
        fl = rng.randrange(1, 1 << 20) if (not nj and rng.random() < 0.3) else 0
        hist.append((t0, rng.randrange(D), ts, nj, fl))
        st = []
        for _k in range(rng.choice([2, 6, 12, 30])):
            r = rng.random()
            if r < 0.45:
                st.append(1 << (53 - rng.choice([1, 2, 2, 3, 4, 4, 6, 8, 10, 20])))
            elif r < 0.55:
                st.append((1 << (53 - rng.choice([2, 4, 6]))) + rng.choice([-1, 1]))
            else:
                st.append(rng.getrandbits(53))
        if fl:
            st[0] = rng.choice([rng.randrange(0, 1 << 20), 1 << rng.randint(0, 19)]) << 33
        streams.append(st)
    return {"prob": prob, "hist": hist, "streams": streams}


def k2_impl(case):
    from qutip.solver.mcsolve import MCIntegrator
    prob = case["prob"]
    D = len(prob["rate"])
    opts = {"norm_steps": 5, "norm_t_tol": 1e9, "norm_tol": 1e-4,
            "mc_corr_eps": 2.0 ** (-EPS_EXP)}
    ode, fsys = FakeODE(prob), FakeSystem(prob)
    ode.fake_system = fsys
    integ = MCIntegrator(ode, fsys, opts)
    out = []
    for h, st in zip(case["hist"], case["streams"]):
        t0, l0, ts, nj = h[:4]
        fl = h[4] if len(h) > 4 else 0
        g = ScriptGen(st, 1 << 52)
        ode.expect_fresh, ode.fresh_seen = True, None
        ode.previous_list = getattr(integ, "collapses", None)
        try:
            integ.set_state(t0 / TU, _enc(D, l0, 0), g, no_jump=nj,
                            jump_prob_floor=fl / float(1 << 20))
            states = []
            for t, y in integ.run([t0 / TU] + [x / TU for x in ts]):
                lv, e = _dec(y)
                states.append((int(round(t * TU)), lv, e))
                if t * TU != round(t * TU):
                    raise AssertionError("non dyadic time")
        except (RuntimeError, IndexError) as e:
            states = None
        if ode.fresh_seen is not True or fsys.registered is not integ.collapses:
            raise AssertionError(
                "when the wrapped integrator's set_state ran, the registered CollapseFeedback "
                "list was not the trajectory's new empty collapse list")
        out.append((states, [(int(round(t * TU)), int(w)) for t, w in integ.collapses],
                    list(g.log)))
    return out


def k2_expr(case):
    p = case["prob"]
    chans = clist(p["chans"], lambda c: "{| c_w := %s; c_tgt := %s; c_amp := %s |}" % (
        clist(c["w"], cz), clist(c["tgt"], lambda x: copt(x, cnat)), clist(c["amp"], cz)))
    prob = "{| p_h := %s; p_rate := %s; p_chans := %s |}" % (cz(p["h"]), clist(p["rate"], cz), chans)
    ls = clist(case["streams"], lambda st: clist(st, lambda k: "(%d * 2^1147)" % k))
    hs = clist(case["hist"], lambda h: "(%s, %s, %s, %s, %s)" % (
        cz(h[0]), cnat(h[1]), clist(h[2], cz), cbool(h[3]),
        "(%d * 2^1180)" % (h[4] if len(h) > 4 else 0)))
    return "i_observe %s %s %s" % (prob, ls, hs)


def k2_canon_model(v):
    out = []
    for (states, coll, draws) in v:
        st = None if states is None else [tuple(x) for x in states[1]]
        out.append((st, [tuple(x) for x in coll], [tuple(x) for x in draws]))
    return out


# ======================================================================
# K3  stochastic integrator / Wiener / run_from_experiment
# ======================================================================
_FAKE_SINT = {}


def fake_sint(ndw):
    if ndw in _FAKE_SINT:
        return _FAKE_SINT[ndw]
    from qutip.core import data as _data
    from qutip.solver.sode.sode import _Explicit_Simple_Integrator

    class FakeStepper:
        def __init__(self, rhs, measurement_noise=False, **kw):
            pass

        def run(self, t, state, dt, dW, N):
            y = int(round(np.asarray(state.to_array())[0, 0].real))
            for r in range(N):
                row = np.asarray(dW[r]).ravel()
                y = (2 * y + sum((i + 1) * int(v) for i, v in enumerate(row))) % 1000003
            v = np.zeros((2, 1), dtype=complex)
            v[0, 0] = y
            return _data.Dense(v)

    class FakeSInt(_Explicit_Simple_Integrator):
        stepper = FakeStepper
        N_dw = ndw
        integrator_options = {"dt": 0.001, "tol": 1e-10}
        _stepper_options = ["measurement_noise"]
        method = "c13_scripted"

    import qutip as qt
    name = "c13_scripted_%d" % ndw
    qt.SSESolver.add_integrator(FakeSInt, name)      # public registration API
    _FAKE_SINT[ndw] = name
    return name


def k3_case(rng):
    ndw = rng.choice([1, 1, 2])
    nsc = rng.choice([1, 2])
    dt = rng.choice([1, 2, 3, 4, 8])
    hist, streams = [], []
    for _ in range(rng.choice([1, 2, 3, 4])):
        if rng.random() < 0.3:
            dtx = rng.choice([1, 2, 4, 5, 8, 16])
            t0 = rng.choice([0, 0, 3])
            m = rng.choice([1, 2, 3])
            ts = [t0 + dtx * (i + 1) for i in range(m)]
            rows = [[rng.randint(-9, 9) for _c in range(nsc)] for _i in range(m)]
            hist.append(("exp", t0, dtx, rng.randrange(0, 50), ts, rows))
        else:
            k = len(streams)
            streams.append([rng.randint(-9, 9) for _ in range(rng.choice([40, 200]))])
            t0 = rng.choice([0, 0, 2])
            ts, t = [], t0
            for _k in range(rng.choice([1, 2, 3, 4])):
                t += rng.choice([dt, 2 * dt, 3 * dt, dt, 2 * dt, 1, 5, 7, 16])
                ts.append(t)
            hist.append(("run", k, t0, rng.randrange(0, 50), ts))
    return {"ndw": ndw, "nsc": nsc, "dt": dt, "hist": hist, "streams": streams}


def k3_impl(case):
    import qutip as qt
    from numpy.random import SeedSequence
    nsc = case["nsc"]
    sc_ops = [qt.destroy(2), qt.sigmaz()][:nsc]
    solver = qt.SSESolver(qt.sigmax(), sc_ops, heterodyne=False,
                          options={"method": fake_sint(case["ndw"]), "dt": case["dt"] / TU,
                                   "store_states": True, "keep_runs_results": True,
                                   "progress_bar": ""})
    gens = {}

    def get_gen(seed):
        g = ScriptGen(case["streams"][int(seed.entropy)])
        gens[int(seed.entropy)] = g
        return g
    solver._get_generator = get_gen
    out = []

    def points(tr):
        pts = []
        for t, st, nz in zip(tr.times[1:], tr.states[1:], tr.noise):
            y = int(round(st.full()[0, 0].real))
            nz = np.asarray(nz)
            tu = t * TU
            if tu != round(tu):
                raise AssertionError("non dyadic time")
            pts.append((int(round(tu)), y, [int(v) for v in nz]))
        return pts

    with warnings.catch_warnings():
        warnings.simplefilter("ignore")
        for ev in case["hist"]:
            if ev[0] == "run":
                _, k, t0, y0, ts = ev
                try:
                    res = solver.run(y0 * qt.basis(2, 0), [t0 / TU] + [t / TU for t in ts],
                                     ntraj=1, seeds=[SeedSequence(k)])
                    o = (points(res.trajectories[0]), list(gens[k].calls))
                except ValueError:
                    o = (None, list(gens[k].calls) if k in gens else [])
            else:
                _, t0, dtx, y0, ts, rows = ev
                noise = np.array(rows, dtype=float).T.reshape(nsc, len(rows))
                try:
                    tr = solver.run_from_experiment(y0 * qt.basis(2, 0),
                                                    [t0 / TU] + [t / TU for t in ts], noise)
                    o = (points(tr), [])
                except (ValueError, NotImplementedError):
                    o = (None, [])
            out.append((o, int(round(solver._integrator.options["dt"] * TU))))
    return out


def k3_expr(case, restore):
    evs = []
    for ev in case["hist"]:
        if ev[0] == "run":
            evs.append("JRun %s %s %s %s" % (cnat(ev[1]), cz(ev[2]), cz(ev[3]), clist(ev[4], cz)))
        else:
            evs.append("JExp %s %s %s %s %s" % (cz(ev[1]), cz(ev[2]), cz(ev[3]), clist(ev[4], cz),
                                                clist(ev[5], lambda r: clist(r, cz))))
    return "j_observe %s %s %s %s %s %s" % (
        cbool(restore), cnat(case["ndw"]), cnat(case["nsc"]), cz(case["dt"]),
        clist(case["streams"], lambda s: clist(s, cz)), clist(evs))


def k3_canon_model(v, ncol):
    out = []
    for (pts, calls, dt) in v:
        if pts is None:
            p = None
        else:
            p = []
            for (t, y, nz) in pts[1]:
                p.append((t, y, [0] * ncol if nz is None else list(nz[1])))
        out.append(((p, list(calls)), dt))
    return out


# ======================================================================
# K4  args / options propagation (Model/C13_conf.v)
# ======================================================================
def _cf(t, g, h):
    return g + h / 1024.0


def _rate1(t, g, h):
    return (g + h / 1024.0) - 8.0


def _dec_cf(x, exact=True):
    n = int(round(float(x) * 1024))
    if exact and n / 1024.0 != float(x):
        raise AssertionError("value %r is not a scripted coefficient" % (x,))
    return (n // 1024, n % 1024)


def k4_case(rng):
    kind = rng.choice(["mc", "mc", "nm"])

    def part():
        r = rng.random()
        g, h = rng.randint(1, 7), rng.randint(0, 15)
        return [None, None] if r < 0.25 else [g, None] if r < 0.5 else [None, h] if r < 0.7 else [g, h]
    evs = []
    for _ in range(rng.choice([1, 2, 3, 4, 5])):
        r = rng.random()
        if r < 0.35:
            t0 = rng.choice([0, 16])
            evs.append(["run", part(), [t0 + 16 * (i + 1) for i in range(rng.choice([1, 2]))], t0])
        elif r < 0.5:
            evs.append(["step", part()])
        elif r < 0.75:
            evs.append(["item", rng.random() < 0.5, rng.randint(5, 20)])
        else:
            sv = rng.choice([None, rng.randint(5, 20)])
            ovl = rng.choice([None, None, rng.randint(5, 20)])
            evs.append(["dict", sv, ovl])
    if evs[-1][0] not in ("run", "step"):
        evs.append(["run", part(), [16, 32], 0])
    return {"kind": kind, "g": rng.randint(1, 7), "h": rng.randint(0, 15),
            "so": rng.randint(5, 20), "oo": rng.randint(5, 20), "evs": evs}


def k4_impl(case):
    import qutip as qt
    a0 = {"g": case["g"], "h": case["h"]}
    H = qt.sigmaz() + qt.QobjEvo([qt.sigmax(), _cf], args=dict(a0))
    opt = {"progress_bar": "", "method": "adams", "norm_tol": 2.0 ** -case["so"],
           "atol": 2.0 ** -case["oo"], "keep_runs_results": True}
    nm = case["kind"] == "nm"
    if nm:
        solver = qt.NonMarkovianMCSolver(
            H, [(qt.sigmam(), qt.coefficient(_rate1, args=dict(a0))), (qt.sigmap(), 0.5)],
            options=opt)
    else:
        solver = qt.MCSolver(H, [qt.QobjEvo([qt.sigmam(), _cf], args=dict(a0))], options=opt)
    psi = qt.basis(2, 0)

    def lg(x):
        m, e = math.frexp(float(x))
        if m != 0.5:
            raise AssertionError("option value %r is not a power of two" % (x,))
        return 1 - e

    def cells():
        mci = solver._integrator
        ode = mci._integrator
        if ode.system is not solver.rhs.rhs or mci._c_ops[0] is not solver._c_ops[0] \
                or mci._n_ops[0] is not solver._n_ops[0]:
            raise AssertionError("operators are no longer shared objects")
        aH = _dec_cf(-ode.system(0.0).full()[0, 1].imag)
        if nm:
            aC = _dec_cf(8 - mci._c_ops[0](0.0).full()[1, 0].real ** 2, exact=False)
            aN = _dec_cf(8 - mci._n_ops[0](0.0).full()[0, 0].real, exact=False)
            aR = _dec_cf(solver._rates[0](0.0).real + 8)
            aS = _dec_cf(8 - solver._rate_shift(0.0).real / 2)
            aQ = _dec_cf(8 - solver._sqrt_shifted_rates[0](0.0).real ** 2, exact=False)
        else:
            aC = _dec_cf(mci._c_ops[0](0.0).full()[1, 0].real)
            v = mci._n_ops[0](0.0).full()[0, 0].real
            aN = _dec_cf(round(math.sqrt(v) * 1024) / 1024.0)
            if (aN[0] + aN[1] / 1024.0) ** 2 != v:
                raise AssertionError("n_op coefficient is not the square of a scripted one")
            aR = aS = aQ = None
        return aH, aC, aN, aR, aS, aQ

    def opts():
        mci = solver._integrator
        ode = mci._integrator
        return (lg(mci.options["norm_tol"]), lg(solver.options["norm_tol"]),
                lg(ode.options["atol"]), lg(ode._ode_solver._integrator.atol))

    def view():
        aH, aC, aN, aR, aS, aQ = cells()
        mso, _, _, prep = opts()
        times = None
        shift = aS
        if nm:
            pc = solver._martingale._precomputed_continuous_martingale
            if pc:
                ts = sorted(pc)
                times = [int(round(t * TU)) for t in ts]
                mu = pc[ts[-1]]
                shift = _dec_cf(8 - math.log(mu) / (ts[-1] - ts[0]) / 2, exact=False)
        return (aH, aC, aN, aR, shift, times, mso, prep)

    out = []
    with warnings.catch_warnings():
        warnings.simplefilter("ignore")
        for ev in case["evs"]:
            v = None
            if ev[0] == "run":
                seen = []
                real = type(solver)._run_one_traj

                def wrapped(*a, _real=real, **k):
                    if not seen:
                        seen.append(view())
                    return _real(solver, *a, **k)
                solver._run_one_traj = wrapped
                args = {k: x for k, x in zip("gh", ev[1]) if x is not None}
                try:
                    solver.run(psi, [ev[3] / TU] + [t / TU for t in ev[2]], ntraj=1, seeds=1,
                               **({"args": args} if args or ev[1] != [None, None] else {}))
                finally:
                    del solver._run_one_traj
                v = seen[0]
            elif ev[0] == "step":
                args = {k: x for k, x in zip("gh", ev[1]) if x is not None}
                solver.start(psi, 0.0, seed=1)
                solver.step(0.25, args=args)
                v = view()
            elif ev[0] == "item":
                solver.options["atol" if ev[1] else "norm_tol"] = 2.0 ** -ev[2]
            else:
                d = {}
                if ev[1] is not None:
                    d["norm_tol"] = 2.0 ** -ev[1]
                if ev[2] is not None:
                    d["atol"] = 2.0 ** -ev[2]
                solver.options = d
            out.append((v, cells() + opts()))
    return out


def _cq_args(a):
    return "(%s, %s)" % (copt(a[0], cz), copt(a[1], cz))


def k4_expr(case, rebind):
    evs = []
    for ev in case["evs"]:
        if ev[0] == "run":
            evs.append("ERun %s %s" % (_cq_args(ev[1]), clist([ev[3]] + ev[2], cz)))
        elif ev[0] == "step":
            evs.append("EStep %s" % _cq_args(ev[1]))
        elif ev[0] == "item":
            evs.append("ESetItem %s %s" % (cbool(ev[1]), cz(ev[2])))
        else:
            evs.append("ESetDict %s %s" % (copt(ev[1], cz), copt(ev[2], cz)))
    return ("trace {| f_forward := true; f_rebind := %s; f_nm_args_first := true |} "
            "(construct %s %s %s %s) %s" % (
                cbool(rebind), "KNM" if case["kind"] == "nm" else "KMC",
                _cq_args([case["g"], case["h"]]), cz(case["so"]), cz(case["oo"]), clist(evs)))


def k4_canon_model(v, nm):
    def arg(x):
        g, h = x
        if g is None and h is None:
            return None
        return (g[1], h[1])

    def unflat(t, n):
        t = list(t)
        return [(t[0], t[1])] + t[2:] if len(t) == n + 1 else t
    out = []
    for (vw, ob) in v:
        ob = unflat(ob, 10)
        o = tuple(arg(x) for x in ob[:6]) + tuple(ob[6:])
        if vw is None:
            w = None
        else:
            w = unflat(vw[1], 8)
            times = None if w[5] is None else list(w[5][1])
            w = tuple(arg(x) for x in w[:5]) + (times, w[6], w[7])
        out.append((w, o))
    return out


# ======================================================================
# K5  mixed initial ensembles (Model/C13_mix.v, Model/C16_mix.v)
# ======================================================================
def k5_case(rng):
    counts = [rng.choice([1, 1, 2, 3]) for _ in range(rng.choice([1, 2, 3, 4]))]
    n = sum(counts)
    order = [j for j in range(n) if rng.random() < 0.85]
    rng.shuffle(order)
    return {"ent": rng.randrange(0, 1 << 40), "counts": counts, "order": order}


def k5_impl(case):
    import qutip as qt
    N = 4
    a = qt.destroy(N)
    solver = qt.MCSolver(a.dag() * a, [a], options={"progress_bar": "", "method": "diag",
                                                     "keep_runs_results": True, "store_states": True})
    counts = case["counts"]
    ics = [(qt.basis(N, k), 1.0 / len(counts)) for k in range(len(counts))]
    smap = ScriptedMap(order=case["order"])
    with patched_map(smap):
        res = solver.run(ics, [0, 0.25, 0.5], ntraj=list(counts), seeds=case["ent"])
    members = [int(np.argmax(np.abs(tr.states[0].full().ravel()))) for tr in res.trajectories]
    return ([_sid(s) for s in res.seeds], members)


def k5_expr(case):
    return "mixed_observe %s %s %s" % (cz(case["ent"]), clist(case["counts"], cnat),
                                        clist(case["order"], cnat))


def k5_canon_model(v):
    seeds, mem = v
    return ([(e, tuple(k)) for e, k in seeds], [None if m is None else m[1] for m in mem])


# ======================================================================
# map call sites: every back-end is the C14 machine called the modelled way
# ======================================================================
EXPECTED_MAP_CALLS = {
    # (file, function): (task, values, reduce_func)
    ("multitraj.py", "run"): ("self._run_one_traj", "seeds", "result.add"),
    ("multitraj.py", "_run_mixed"): ("self._run_one_traj_mixed", "range(len(seeds))", "result.add"),
    ("mcsolve.py", "_run_improved_sampling"): ("self._run_one_traj", "seeds", "result.add"),
    ("mcsolve.py", "_run_improved_sampling_mixed#0"):
        ("self._no_jump_simulation", "[state for state, _ in prepared_ics]", None),
    ("mcsolve.py", "_run_improved_sampling_mixed#1"):
        ("_unpack_arguments(self._run_one_traj_mixed, ('id', 'jump_prob_floor'))", "arguments",
         "result.add"),
}


def read_map_calls():
    """fail-closed reading of every `map_func(...)` call under qutip/solver: the
    task, the values and the reducer handed to the map (the C14 machine is
    what runs them, for serial / parallel / loky / mpi alike)"""
    import ast
    found = {}
    sdir = os.path.join(vlib.REPO, "qutip", "solver")
    for fn in sorted(os.listdir(sdir)):
        if not fn.endswith(".py") or fn == "parallel.py":
            continue
        src = open(os.path.join(sdir, fn)).read()
        if "map_func(" not in src:
            continue
        tree = ast.parse(src)
        for fdef in ast.walk(tree):
            if not isinstance(fdef, ast.FunctionDef):
                continue
            calls = [c for c in ast.walk(fdef) if isinstance(c, ast.Call)
                     and isinstance(c.func, ast.Name) and c.func.id == "map_func"]
            calls.sort(key=lambda c: c.lineno)
            for k, c in enumerate(calls):
                if len(c.args) < 2:
                    raise ValueError("map_func call with fewer than 2 positional arguments")
                red = [kw.value for kw in c.keywords if kw.arg == "reduce_func"]
                if len(c.args) > 3 or any(kw.arg is None for kw in c.keywords):
                    raise ValueError("map_func call outside the supported shape")
                key = (fn, fdef.name if len(calls) == 1 else "%s#%d" % (fdef.name, k))
                found[key] = (ast.unparse(c.args[0]), ast.unparse(c.args[1]),
                              ast.unparse(red[0]) if red else None)
    return found


def check_map_calls(ctx):
    try:
        found = read_map_calls()
        ok = found == EXPECTED_MAP_CALLS
        detail = {"found": {"%s:%s" % k: v for k, v in found.items()}}
    except Exception as e:
        ok, detail = False, {"error": repr(e)[:300]}
    ctx.add_obligation("map-call-sites: task / values / reduce_func=result.add as modelled", ok)
    import qutip.solver.parallel as par
    import qutip.solver.multitraj as mt
    want = {"parallel_map": par.parallel_map, "parallel": par.parallel_map,
            "serial_map": par.serial_map, "serial": par.serial_map,
            "loky": par.loky_pmap, "mpi": par.mpi_pmap}
    ok2 = dict(par._maps) == want and mt._get_map is par._get_map and \
        all(par._get_map({"map": k, "mpi_options": {}})[0] is v for k, v in want.items())
    ctx.add_obligation("map back-ends: _maps / _get_map select serial_map, parallel_map, "
                       "loky_pmap, mpi_pmap (all _generic_pmap wrappers, C14)", ok2)
    ctx.cov.setdefault("input_distribution", {})
    if not ok:
        ctx.violation("tx:map-call-sites", "changed",
                      "a map_func(...) call under qutip/solver is not one of the modelled ones "
                      "(task, values, reduce_func=result.add): the ensemble theorems no longer "
                      "describe it", detail, found_input=False)
    if not ok2:
        ctx.violation("tx:map-back-ends", "changed",
                      "parallel._maps / _get_map no longer select the four modelled map functions",
                      {"maps": {k: getattr(v, "__name__", str(v)) for k, v in par._maps.items()}},
                      found_input=False)


# ======================================================================
# K6  which generator object a trajectory uses (Model/C13_gen.v)
# ======================================================================
BITGENS = [None, "MT19937", "PCG64", "PCG64DXSM", "Philox", "SFC64"]


def _steq(a, b):
    if isinstance(a, dict):
        return isinstance(b, dict) and a.keys() == b.keys() and all(_steq(a[k], b[k]) for k in a)
    if isinstance(a, np.ndarray):
        return isinstance(b, np.ndarray) and np.array_equal(a, b)
    return a == b


def k6_case(rng):
    nobj = rng.choice([0, 1, 1, 2])
    n = rng.choice([1, 2, 3, 4])
    items = []
    for _ in range(max(0, n + rng.choice([-1, 0, 0, 0, 1]))):
        r = rng.random()
        if nobj and r < 0.45:
            items.append(["g", rng.randrange(nobj)])
        elif r < 0.7:
            items.append(["i", rng.randrange(1000)])
        else:
            items.append(["s", rng.randrange(1000),
                          [rng.randrange(4) for _k in range(rng.choice([0, 1, 2]))], rng.randrange(3)])
    return {"heap": [rng.choice([0, 0, 3, 7]) for _ in range(nobj)], "items": items, "ntraj": n,
            "bit": rng.choice([0, 0, 0, 0, 1, 2, 3, 4, 5]), "forked": rng.random() < 0.4}


def k6_impl(case):
    import qutip as qt
    from numpy.random import default_rng, SeedSequence
    a = qt.destroy(2)
    name = BITGENS[case["bit"]]
    solver = qt.MCSolver(a.dag() * a, [a], options={
        "progress_bar": "", "method": "diag", "keep_runs_results": True, "bitgenerator": name})
    objs, refs = [], []
    for r, p in enumerate(case["heap"]):
        g = default_rng(100 + r)
        g.random(p)
        objs.append(g)
        ref = default_rng(100 + r)
        st = [copy.deepcopy(ref.bit_generator.state)]
        for _ in range(400):
            ref.random()
            st.append(copy.deepcopy(ref.bit_generator.state))
        refs.append(st)
    owner = {id(g): r for r, g in enumerate(objs)}

    def position(g, r):
        cur = g.bit_generator.state
        for p, st in enumerate(refs[r]):
            if _steq(st, cur):
                return p
        return -1
    seeds = [objs[it[1]] if it[0] == "g" else it[1] if it[0] == "i" else _mk_ss(it[1], it[2], it[3])
             for it in case["items"]]
    log = []
    real = type(solver)._get_generator

    def rec(seed):
        g = real(solver, seed)
        if id(g) in owner:
            log.append([1, owner[id(g)], 0, (), position(g, owner[id(g)]), g])
        else:
            if name is None:
                exp = default_rng(copy.deepcopy(seed))
            else:
                exp = np.random.Generator(getattr(np.random, name)(copy.deepcopy(seed)))
            ok = type(g.bit_generator) is type(exp.bit_generator) and \
                _steq(g.bit_generator.state, exp.bit_generator.state)
            e, k = _sid(seed)
            log.append([0, case["bit"], e, k, 0 if ok else -1, g])
        return g
    solver._get_generator = rec
    dr = []

    def kmap(task, values, task_args=None, task_kwargs=None, reduce_func=None, **kw):
        for v in values:
            if case["forked"] and id(v) in owner:
                c = copy.deepcopy(v)             # pickled at submission
                owner[id(c)] = owner[id(v)]
                v = c
            res = task(v, *(task_args or ()), **(task_kwargs or {}))
            ent = log[-1]
            dr.append(position(ent[5], ent[1]) - ent[4] if ent[0] == 1 else 0)
            reduce_func(res)
    try:
        with patched_map(kmap):
            solver.run(qt.basis(2, 1), [0, 0.5, 1.0], ntraj=case["ntraj"], seeds=seeds)
        out = ("ok", [tuple(e[:5]) for e in log])
    except ValueError:
        out = ("ValueError",)
    except TypeError:
        out = ("TypeError",)
    return out, dr


def k6_expr(case, dr):
    def item(it):
        if it[0] == "g":
            return "GObj %s" % cnat(it[1])
        if it[0] == "i":
            return "GInt %s" % cz(it[1])
        return "GSeq %s" % _cq_sseq(it[1], it[2], it[3])
    bit = "None" if case["bit"] == 0 else "(Some %s)" % cnat(case["bit"] - 1)
    return "gen_observe %s %s %s %s %s %s" % (
        bit, clist(dr + [0] * 8, cnat), clist(case["heap"], cnat), clist(case["items"], item),
        cnat(case["ntraj"]), cbool(case["forked"]))


def k6_canon_model(v):
    if v is None:
        return ("ValueError",)
    inner = v[1]
    if inner is None:
        return ("TypeError",)
    return ("ok", [(f, b, e, tuple(k), p) for (f, b, e, k, p) in inner[1]])


# ======================================================================
# oracle on the real solvers
# ======================================================================
def _r_a(t):
    return 0.5 * np.cos(2 * t)


def _r_c(t):
    return 0.2 * np.sin(t) ** 2


def _f_g(t, g):
    return 1.0 + 0.5 * g * np.sin(3 * t)


def _r_a_g(t, g):
    return 0.5 * np.cos(2 * t) - 0.3 * g * np.sin(3 * t)


def _r_c_g(t, g):
    return 0.2 * np.sin(t) ** 2 + 0.1 * g * np.cos(2 * t)


def _f_w(t, W):
    return 0.5 + 0.3 * np.tanh(W(t)[0])


def _f_s(t, state):
    if state is None:
        return 0.5
    return 0.5 + 0.25 * abs(state.full()[0, 0])


def _f_e(t, E0):
    return 0.5 + 0.25 * float(np.real(E0))


def _f_c(t, cols):
    return 1.0 / (1.0 + len(cols))


def _raise_late(t, state):
    if t > 0.3:
        raise ZeroDivisionError("scripted e_op failure")
    return 0.0


MC_METHODS = ["adams", "bdf", "lsoda", "dop853", "vern7", "vern9", "diag"]
SSE_METHODS = ["platen", "euler", "explicit1.5", "rouchon"]
SME_METHODS = ["platen", "euler", "rouchon", "pred_corr", "taylor1.5", "milstein"]


def gen_problem(rng, kind):
    N = rng.choice([2, 3])
    spec = {"kind": kind, "N": N, "w": rng.choice([0.5, 1.0, 1.75]), "g": rng.choice([0.0, 0.25, 0.5]),
            "state": rng.choice(["top", "sup", "mid"]),
            "eops": rng.choice([1, 1, 2]),
            "seed": rng.randrange(0, 1 << 40), "ntraj": rng.choice([3, 4, 5])}
    if kind in ("mc", "nm"):
        spec["cops"] = sorted(rng.sample([0, 1, 2], rng.choice([1, 2, 3])))
        spec["gam"] = [rng.choice([0.5, 0.75, 1.0]) for _ in range(3)]
        spec["method"] = rng.choice(MC_METHODS if kind == "mc" else ["adams", "adams", "dop853", "bdf"])
        spec["improved"] = rng.random() < 0.25
        n = rng.choice([3, 4, 6])
        spec["tlist"] = [float(x) for x in np.linspace(0, rng.choice([0.75, 1.5, 2.5]), n)]
    else:
        spec["cops"] = sorted(rng.sample([0, 1], rng.choice([1, 2])))
        spec["gam"] = [rng.choice([0.5, 0.75]) for _ in range(3)]
        spec["het"] = rng.random() < 0.35
        spec["method"] = rng.choice(SSE_METHODS if kind == "sse" else SME_METHODS)
        spec["dtexp"] = rng.choice([5, 6, 7])
        dt = 2.0 ** (-spec["dtexp"])
        n = rng.choice([3, 4, 5])
        stepn = rng.choice([2, 4, 8])
        spec["tlist"] = [i * stepn * dt for i in range(n)]
        spec["meas"] = rng.choice(["", "start", "end", "middle"])
        spec["extra_c"] = kind == "sme" and rng.random() < 0.4
    spec["bitgen"] = rng.choice(BITGENS[1:]) if rng.random() < 0.15 else None
    # coefficients that depend on `args` (value at construction: garg)
    spec["garg"] = None
    if rng.random() < (0.7 if kind == "nm" else 0.4):
        spec["garg"] = rng.choice([0.0, 0.5, 1.5])
        if kind == "mc" and spec["method"] == "diag":
            spec["method"] = "adams"
    # coefficients fed by the trajectory itself (the feedback mechanisms each
    # solver offers): per-trajectory objects that a per-solver cache must not keep
    spec["fb"] = []
    if kind != "nm" and rng.random() < 0.45:
        if kind == "mc":
            # (MCSolver.StateFeedback is not usable: it passes the builtin `open`)
            pool = [("c", "collapse"), ("c", "collapse"), ("H", "expect"), ("c", "expect")]
        else:
            # (WienerFeedback inside H is not registered by _StochasticRHS: not used)
            pool = [("sc", "wiener"), ("sc", "wiener"), ("H", "state"),
                    ("H", "expect"), ("sc", "state"), ("sc", "expect")]
            if kind == "sme":
                pool += [("c", "wiener"), ("c", "wiener"), ("c", "state"), ("c", "expect")]
        spec["fb"] = [list(x) for x in rng.sample(pool, rng.choice([1, 1, 2]))]
        spec["fb"] = [list(x) for x in sorted(set(tuple(x) for x in spec["fb"]))]
        spec["fb"] = [x for i, x in enumerate(spec["fb"])       # one feedback per place
                      if x[0] not in [y[0] for y in spec["fb"][:i]]]
        if kind == "mc" and spec["method"] == "diag":
            spec["method"] = "adams"
        if kind in ("sse", "sme") and spec["method"] == "rouchon" and \
                any(k != "wiener" for _, k in spec["fb"]):
            spec["method"] = "platen"
        if kind == "sme" and any(w == "c" for w, _ in spec["fb"]):
            spec["extra_c"] = True
    return spec


def build(spec, **over):
    """-> (make_solver(extra_options), state, tlist, e_ops)"""
    import qutip as qt
    N = spec["N"]
    a = qt.destroy(N)
    H = spec["w"] * a.dag() * a + spec["g"] * (a + a.dag())
    pool = [a, a.dag() * a, a.dag()]
    ops = [spec["gam"][i] * pool[i] for i in spec["cops"]]
    if spec["state"] == "top":
        psi = qt.basis(N, N - 1)
    elif spec["state"] == "mid":
        psi = qt.basis(N, 1)
    else:
        psi = (qt.basis(N, 0) + qt.basis(N, N - 1)).unit()
    e_ops = [a.dag() * a, a + a.dag()][:spec["eops"]]
    if over.get("eops_alt"):
        e_ops = [a * a.dag(), a + a.dag()]
    kind = spec["kind"]
    garg = over.get("g", spec.get("garg"))
    if garg is not None and kind != "nm":
        H = H + qt.QobjEvo([0.25 * (a + a.dag()), _f_g], args={"g": garg})
    cls = {"mc": qt.MCSolver, "nm": qt.NonMarkovianMCSolver, "sse": qt.SSESolver,
           "sme": qt.SMESolver}[kind]
    extra_c = [0.3 * a.dag()] if spec.get("extra_c") else []

    def fb_coeff(k):
        if k == "wiener":
            return _f_w, {"W": cls.WienerFeedback()}
        if k == "collapse":
            return _f_c, {"cols": cls.CollapseFeedback()}
        if k == "state":
            return _f_s, {"state": cls.StateFeedback()}
        return _f_e, {"E0": cls.ExpectFeedback(a.dag() * a)}
    for where, k in spec.get("fb", []):
        f, args = fb_coeff(k)
        if where == "H":
            H = H + qt.QobjEvo([0.25 * (a + a.dag()), f], args=args)
        elif where == "sc" or (where == "c" and kind == "mc"):
            ops[0] = qt.QobjEvo([ops[0], f], args=args)
        else:
            extra_c[0] = qt.QobjEvo([extra_c[0], f], args=args)
    base = {"progress_bar": "", "store_states": True, "method": spec["method"]}
    if kind in ("mc", "nm"):
        base["improved_sampling"] = spec["improved"]
    else:
        base["dt"] = 2.0 ** (-spec["dtexp"])
        base["store_measurement"] = spec["meas"]
    if spec.get("bitgen"):
        base["bitgenerator"] = spec["bitgen"]
    base.update(over.get("opts") or {})

    def mk(extra=None):
        opt = dict(base)
        opt.update(extra or {})
        if kind == "mc":
            return qt.MCSolver(H, ops, options=opt)
        if kind == "nm":
            if garg is None:
                rates = [qt.coefficient(_r_a), 0.3, qt.coefficient(_r_c)]
            else:
                rates = [qt.coefficient(_r_a_g, args={"g": garg}), 0.3,
                         qt.coefficient(_r_c_g, args={"g": garg})]
            oar = [(pool[i], rates[i]) for i in spec["cops"]]
            return qt.NonMarkovianMCSolver(H, oar, options=opt)
        if kind == "sse":
            return qt.SSESolver(H, ops, heterodyne=spec["het"], options=opt)
        return qt.SMESolver(H, ops, heterodyne=spec["het"], c_ops=extra_c, options=opt)
    return mk, psi, list(over.get("tlist") or spec["tlist"]), e_ops


def fp_traj(tr, collapse=None):
    """bitwise fingerprint of one trajectory, by component"""
    d = {"expect": tuple(np.asarray(e).tobytes() for e in tr.expect),
         "states": tuple(np.asarray(s.full()).tobytes() for s in tr.states)}
    if collapse is None and hasattr(tr, "collapse"):
        collapse = tr.collapse
    if collapse is not None:
        d["collapse"] = tuple((float(t).hex(), int(w)) for t, w in collapse)
    if hasattr(tr, "trace"):
        d["trace"] = np.asarray(tr.trace, dtype=float).tobytes()
    if hasattr(tr, "noise"):
        d["noise"] = tuple(np.asarray(x, dtype=float).tobytes() for x in tr.noise)
        m = tr.measurement
        if m is not None:
            d["measurement"] = np.asarray(m).tobytes()
    return d


def diff_fp(a, b):
    if isinstance(a, tuple) or isinstance(b, tuple):
        return None if a == b else "error-vs-result"
    for k in sorted(set(a) | set(b)):
        if a.get(k) != b.get(k):
            return k
    return None


def fixed_family():
    """seed-independent problems that always run completely, before the
    wall-time-bounded random part: every feedback mechanism / args-dependent
    coefficient x every ODE (SDE) method, serial ensembles with collapses"""
    fam = []
    mc_fb = [[["c", "collapse"]], [["H", "expect"]], [["c", "expect"]], []]
    for fb in mc_fb:
        for method in ["adams", "bdf", "lsoda", "dop853", "vern7", "vern9"]:
            fam.append({"kind": "mc", "N": 3, "w": 1.0, "g": 0.25, "state": "top", "eops": 2,
                        "seed": 20260101, "ntraj": 4, "cops": [0, 1], "gam": [1.0, 0.75, 0.5],
                        "method": method, "improved": False,
                        "tlist": [0.0, 0.625, 1.25, 1.875, 2.5],
                        "garg": None if fb else 0.5, "fb": fb, "bitgen": None})
    sde_fb = {"sse": [[["sc", "wiener"]], [["H", "state"]], [["H", "expect"]], []],
              "sme": [[["sc", "wiener"]], [["c", "wiener"]], [["H", "state"]], [["c", "expect"]], []]}
    sde_m = {"sse": ["platen", "euler", "explicit1.5"],
             "sme": ["platen", "euler", "milstein", "taylor1.5", "pred_corr"]}
    for kind in ("sse", "sme"):
        for fb in sde_fb[kind]:
            for method in sde_m[kind]:
                fam.append({"kind": kind, "N": 2, "w": 1.0, "g": 0.25, "state": "sup", "eops": 2,
                            "seed": 20260102, "ntraj": 3, "cops": [0], "gam": [0.75, 0.5, 0.5],
                            "het": False, "method": method, "dtexp": 6,
                            "tlist": [i * 4 * 2.0 ** -6 for i in range(4)], "meas": "end",
                            "extra_c": any(w == "c" for w, _ in fb),
                            "garg": None if fb else 0.5, "fb": fb, "bitgen": None})
    fam.append({"kind": "nm", "N": 2, "w": 1.0, "g": 0.25, "state": "top", "eops": 1,
                "seed": 20260103, "ntraj": 4, "cops": [0, 2], "gam": [0.75, 0.75, 0.75],
                "method": "adams", "improved": False, "tlist": [0.0, 0.625, 1.25, 1.875, 2.5],
                "garg": 0.5, "fb": [], "bitgen": None})
    return fam


class Problem:
    def __init__(self, spec, **over):
        self.base_spec = spec
        self.over = over
        self.spec = dict(spec, _over=over) if over else spec
        self.mk, self.psi, self.tlist, self.e_ops = build(spec, **over)
        self._ref = {}
        self._variants = {}

    def variant(self, **over):
        """the same problem constructed directly with other args / tlist / e_ops /
        options: the reference for runs that change those on a used solver"""
        key = json.dumps(over, sort_keys=True, default=str)
        if key not in self._variants:
            self._variants[key] = Problem(self.base_spec, **over)
        return self._variants[key]

    def run(self, solver, ntraj, seeds, state=None, tlist=None, e_ops="default", args=None):
        kw = {} if args is None else {"args": args}
        return solver.run(self.psi if state is None else state,
                          self.tlist if tlist is None else tlist, ntraj=ntraj,
                          e_ops=self.e_ops if e_ops == "default" else e_ops, seeds=seeds, **kw)

    def refs_ok(self, seeds):
        return not any(isinstance(self.ref(s), tuple) for s in seeds)

    def ref(self, seed):
        """traj(problem, seed): a fresh solver computing this single seed"""
        k = _sid(seed)
        if k not in self._ref:
            with warnings.catch_warnings():
                warnings.simplefilter("ignore")
                try:
                    res = self.run(self.mk({"keep_runs_results": True}), 1, [copy.deepcopy(seed)])
                    self._ref[k] = fp_traj(res.trajectories[0],
                                           res.collapse[0] if hasattr(res, "collapse") else None)
                except Exception as e:       # canonicalised error
                    self._ref[k] = ("ERR", type(e).__name__)
        return self._ref[k]


def res_fps(res):
    """[(seed id, fingerprint)] of a result that kept its runs"""
    out = []
    for k, s in enumerate(res.seeds):
        col = res.collapse[k] if hasattr(res, "collapse") else None
        out.append((_sid(s), fp_traj(res.trajectories[k], col)))
    return out


class Oracle:
    def __init__(self, ctx, rng):
        self.ctx, self.rng = ctx, rng
        self.nruns = 0
        self.dist = {}

    def bad(self, spec, variant, what, extra=None):
        detail = {"spec": spec, "variant": variant, "what": what}
        detail.update(extra or {})
        self.ctx.violation("%s:%s" % (spec["kind"], variant.split("/")[0]), what,
                           "trajectory for a seed depends on how the ensemble was run: "
                           "%s / %s (%s, method %s)" % (variant, what, spec["kind"], spec["method"]),
                           detail)

    def compare(self, P, res, variant, expect_ids=None, extra=None):
        """every kept trajectory of `res` equals the fresh single-seed run"""
        self.nruns += 1
        ids = [_sid(s) for s in res.seeds]
        if expect_ids is not None and sorted(ids) != sorted(expect_ids):
            self.bad(P.spec, variant, "seeds-reported-differ-from-seeds-used", extra)
            return False
        if len(res.trajectories) != len(res.seeds):
            self.bad(P.spec, variant, "seeds-and-trajectories-lengths-differ", extra)
            return False
        ok = True
        for k, (i, f) in enumerate(res_fps(res)):
            r = P.ref(res.seeds[k])
            d = diff_fp(f, r)
            if d is not None:
                e = dict(extra or {})
                e.update({"seed": [str(i[0]), list(i[1])], "position": k})
                self.bad(P.spec, variant, d, e)
                ok = False
                break
        return ok

    def matches(self, P, res):
        """silent version of compare"""
        if len(res.trajectories) != len(res.seeds):
            return False
        return all(diff_fp(f, P.ref(res.seeds[k])) is None
                   for k, (i, f) in enumerate(res_fps(res)))

    # ---------------------------------------------------------------- variants
    def v_base(self, P):
        from numpy.random import SeedSequence
        spec = P.spec
        n = spec["ntraj"]
        want = [_sid(s) for s in SeedSequence(spec["seed"]).spawn(n)]
        solver = P.mk({"keep_runs_results": True})
        res = P.run(solver, n, spec["seed"])
        if [_sid(s) for s in res.seeds] != want:
            self.bad(spec, "serial", "seeds-are-not-SeedSequence(seed).spawn(ntraj)")
        self.compare(P, res, "serial", want)
        return res

    def v_parallel(self, P, res0):
        w = self.rng.choice([1, 2, 3, 4])
        solver = P.mk({"keep_runs_results": True, "map": "parallel", "num_cpus": w})
        res = P.run(solver, P.spec["ntraj"], P.spec["seed"])
        self.compare(P, res, "parallel_map", [_sid(s) for s in res0.seeds], {"workers": w})

    def v_permuted(self, P, res0):
        seeds = [copy.deepcopy(s) for s in res0.seeds]
        self.rng.shuffle(seeds)
        k = self.rng.randint(1, len(seeds))
        res = P.run(P.mk({"keep_runs_results": True}), k, seeds)
        self.compare(P, res, "permuted-list", [_sid(s) for s in seeds[:k]])

    def v_rerun(self, P, res0):
        """the same ensemble twice on ONE solver object, the second time with the
        seed list reversed"""
        solver = P.mk({"keep_runs_results": True})
        r1 = P.run(solver, P.spec["ntraj"], P.spec["seed"])
        seeds = [copy.deepcopy(s) for s in reversed(r1.seeds)]
        r2 = P.run(solver, len(seeds), seeds)
        ids = [_sid(s) for s in res0.seeds]
        self.compare(P, r1, "same-solver-first-run", ids)
        self.compare(P, r2, "same-solver-second-run", ids)

    def v_args(self, P, res0):
        """runs that pass args= (changed, repeated, kept, changed back) on ONE
        solver object; reference: a fresh solver constructed with those args"""
        spec = P.base_spec
        g0 = spec["garg"]
        g1 = self.rng.choice([g for g in (0.0, 0.5, 1.5, 2.0) if g != g0])
        P1 = P.variant(g=g1)
        n, seed = spec["ntraj"], spec["seed"]
        if not (P1.refs_ok(res0.seeds) and P.refs_ok(res0.seeds)):
            return
        ids = [_sid(s) for s in res0.seeds]
        extra = {"g_construction": g0, "g_run": g1}
        solver = P.mk({"keep_runs_results": True})
        if self.rng.random() < 0.5:
            P.run(solver, 2, 77)                      # some use with the old args first
        try:
            r = P.run(solver, n, seed, args={"g": g1})
        except AttributeError as e:
            if spec["kind"] in ("sse", "sme") and "'system'" in str(e):
                # fixed in /repo 9963528 (SIntegrator.arguments); reported if it returns
                self.ctx.violation(
                    "sode.SIntegrator.arguments", "sde-run-args-raises",
                    "StochasticSolver.run(..., args=...) raises AttributeError: the stochastic "
                    "integrator has no `system` for Integrator.arguments",
                    {"spec": P.spec, "variant": "args-changed-in-run", "error": repr(e)[:300],
                     "g_construction": g0, "g_run": g1})
                return
            raise
        self.compare(P1, r, "args-changed-in-run", ids, extra)
        r = P.run(solver, n, seed, args={"g": g1})
        self.compare(P1, r, "args-repeated-in-run", ids, extra)
        r = P.run(solver, n, seed)
        self.compare(P1, r, "args-kept-from-previous-run", ids, extra)
        r = P.run(solver, n, seed, args={"g": g0})
        self.compare(P, r, "args-changed-back", ids, extra)

    def v_reconf(self, P, res0):
        """changed tlist / t0 / e_ops / options between runs on ONE solver object;
        reference: a fresh solver constructed directly with them"""
        spec = P.base_spec
        kind = spec["kind"]
        n, seed = spec["ntraj"], spec["seed"]
        ids = [_sid(s) for s in res0.seeds]
        if kind in ("mc", "nm"):
            t0 = self.rng.choice([0.0, 0.25])
            tl = [t0 + 0.25 * i * self.rng.choice([1, 2]) for i in range(4)]
            optpool = [{"norm_tol": 1e-3}, {"norm_t_tol": 1e-5}]
            if spec["method"] in ("adams", "bdf", "lsoda", "dop853", "vern7", "vern9"):
                optpool.append({"atol": 1e-7})
        else:
            dt = 2.0 ** (-spec["dtexp"])
            t0 = self.rng.choice([0.0, 4 * dt])
            st = self.rng.choice([2, 4])
            tl = [t0 + i * st * dt for i in range(4)]
            optpool = [{"store_measurement": m} for m in ("", "start", "end") if m != spec["meas"]]
        tl = [float(x) for x in tl]
        P2 = P.variant(tlist=tl, eops_alt=True)
        opts = self.rng.choice(optpool)
        P3 = P.variant(opts=opts)
        if not (P2.refs_ok(res0.seeds) and P3.refs_ok(res0.seeds) and P.refs_ok(res0.seeds)):
            return
        solver = P.mk({"keep_runs_results": True})
        extra = {"tlist": tl, "opts": opts}
        r = P.run(solver, n, seed)
        self.compare(P, r, "reconf-first-run", ids, extra)
        r = P2.run(solver, n, seed)
        self.compare(P2, r, "reconf-other-tlist-and-e_ops", ids, extra)
        old = {k: solver.options[k] for k in opts}
        via_setter = self.rng.random() < 0.5
        if via_setter:
            solver.options = dict(opts)               # property setter: new options object
        else:
            for k, v in opts.items():
                solver.options[k] = v
        extra["via_setter"] = via_setter
        r = P.run(solver, n, seed)
        if via_setter and kind in ("mc", "nm") and "atol" not in opts \
                and not self.matches(P3, r) and self.matches(P, r):
            self.nruns += 1
            self.ctx.violation(
                "solver_base.Solver.options.setter", "mc-integrator-keeps-old-options-object",
                "solver.options = {solver-level keys only} is ignored by later trajectories: "
                "run(seed) is bitwise the run with the old value and differs from a fresh "
                "solver constructed with the new one",
                {"spec": P.spec, "variant": "reconf-option-changed", "opts": opts})
            for k, v in old.items():
                solver.options[k] = v
            return
        if kind in ("mc", "nm") and "atol" in opts and not self.matches(P3, r) \
                and self.matches(P, r):
            # the run is exactly what the OLD option value gives: the new value
            # never reached the ODE integrator wrapped by MCIntegrator (fixed in /repo
            # bdf00f0; inert unless exactly that behaviour returns)
            self.nruns += 1
            self.ctx.violation(
                "mcsolve.MCIntegrator.options", "ode-option-set-after-construction-ignored",
                "an ODE option (atol) set on a constructed MCSolver / NonMarkovianMCSolver "
                "is not passed to the wrapped ODE integrator: run(seed) differs from a fresh "
                "solver constructed with that option and equals the run with the old value",
                {"spec": P.spec, "variant": "reconf-option-changed", "opts": opts})
        else:
            self.compare(P3, r, "reconf-option-changed", ids, extra)
        for k, v in old.items():
            solver.options[k] = v
        r = P.run(solver, n, seed)
        self.compare(P, r, "reconf-option-restored", ids, extra)

    def v_sub(self, P, res0):
        k = self.rng.randint(1, P.spec["ntraj"])
        res = P.run(P.mk({"keep_runs_results": True}), k, P.spec["seed"])
        self.compare(P, res, "sub-ensemble", [_sid(s) for s in res0.seeds[:k]])

    def v_scripted(self, P, res0):
        n = P.spec["ntraj"]
        ex = list(range(n))
        self.rng.shuffle(ex)
        order = list(range(n))
        self.rng.shuffle(order)
        workers = self.rng.choice([None, None, 2, 3])
        smap = ScriptedMap(order=order, exec_order=ex, workers=workers, rng=self.rng)
        with patched_map(smap):
            res = P.run(P.mk({"keep_runs_results": True}), n, P.spec["seed"])
        ids0 = [_sid(s) for s in res0.seeds]
        if [_sid(s) for s in res.seeds] != [ids0[j] for j in order]:
            self.bad(P.spec, "scripted-map", "result.seeds-not-in-completion-order",
                     {"order": order, "exec": ex})
        self.compare(P, res, "scripted-map", ids0, {"order": order, "exec": ex, "workers": workers})

    def v_nokeep(self, P, res0):
        """keep_runs_results off, results arriving out of order"""
        n = P.spec["ntraj"]
        order = list(range(n))
        self.rng.shuffle(order)
        smap = ScriptedMap(order=order)
        with patched_map(smap):
            res = P.run(P.mk({"keep_runs_results": False}), n, P.spec["seed"])
        self.nruns += 1
        ids0 = [_sid(s) for s in res0.seeds]
        extra = {"order": order}
        if [_sid(s) for s in res.seeds] != [ids0[j] for j in order]:
            self.bad(P.spec, "no-keep", "result.seeds-not-in-completion-order", extra)
            return
        refs = [P.ref(s) for s in res.seeds]
        if any(isinstance(r, tuple) for r in refs):
            return
        if hasattr(res, "collapse"):
            for k in range(len(res.seeds)):
                got = tuple((float(t).hex(), int(w)) for t, w in res.collapse[k])
                if got != refs[k]["collapse"]:
                    self.bad(P.spec, "no-keep", "collapse-not-aligned-with-seeds", extra)
                    return
        if P.spec["kind"] in ("sse", "sme") and P.spec["meas"]:
            for k in range(len(res.seeds)):
                got = tuple(np.asarray(x, dtype=float).tobytes()
                            for x in np.moveaxis(np.asarray(res.dW[k]).reshape(-1, len(P.tlist) - 1), -1, 0))
                if got != refs[k]["noise"]:
                    self.bad(P.spec, "no-keep", "dW-not-aligned-with-seeds", extra)
                    return
                if np.asarray(res.measurement[k]).tobytes() != refs[k]["measurement"]:
                    self.bad(P.spec, "no-keep", "measurement-not-aligned-with-seeds", extra)
                    return
        # averages: the same summands, added in completion order
        if P.spec["kind"] in ("mc", "sse", "sme") and not P.spec.get("improved"):
            for i in range(len(P.e_ops)):
                acc = None
                for r in refs:
                    x = np.frombuffer(r["expect"][i], dtype=np.asarray(res0.trajectories[0].expect[i]).dtype)
                    acc = np.zeros_like(x) if acc is None else acc
                    acc = acc + 1 * x
                want = acc / len(refs)
                got = np.asarray(res.average_expect[i])
                if want.tobytes() != np.asarray(got, dtype=want.dtype).tobytes():
                    self.bad(P.spec, "no-keep", "average-is-not-the-sum-over-the-reported-seeds", extra)
                    return

    def v_feedback(self, P):
        """seeds=None, then result.seeds passed back (shuffled) to a new solver"""
        n = P.spec["ntraj"]
        s1 = P.mk({"keep_runs_results": True})
        r1 = P.run(s1, n, None)
        r1b = P.run(s1, 2, None)
        ids1 = [_sid(s) for s in r1.seeds]
        if set(ids1) & set(_sid(s) for s in r1b.seeds) or len(set(ids1)) != n:
            self.bad(P.spec, "seeds-none", "a-stream-is-used-twice")
        back = list(r1.seeds)
        self.rng.shuffle(back)
        r2 = P.run(P.mk({"keep_runs_results": True}), n, back)
        self.nruns += 2
        f1, f2 = dict(res_fps(r1)), dict(res_fps(r2))
        if sorted(f1) != sorted(f2):
            self.bad(P.spec, "seeds-fed-back", "seeds-reported-differ-from-seeds-used")
            return
        for i in f1:
            d = diff_fp(f1[i], f2[i])
            if d is not None:
                self.bad(P.spec, "seeds-fed-back", d, {"seed": [str(i[0]), list(i[1])]})
                return
        self.compare(P, r1, "seeds-none")

    def v_history(self, P, res0):
        """other uses of the solver object first, then the same ensemble"""
        import qutip as qt
        spec = P.spec
        kind = spec["kind"]
        solver = P.mk({"keep_runs_results": True})
        evs = []
        choices = ["other-run", "step", "raise-mid", "short-list", "nokeep-run"]
        if kind in ("sse", "sme"):
            choices += ["experiment", "experiment"]
        for _ in range(self.rng.choice([1, 2, 3])):
            evs.append(self.rng.choice(choices))
        N = spec["N"]
        with warnings.catch_warnings():
            warnings.simplefilter("ignore")
            for ev in evs:
                try:
                    if ev == "other-run":
                        tl = [0.125 + 0.25 * i for i in range(3)] if kind in ("mc", "nm") else \
                             [0.25 + i * 2.0 ** (2 - spec["dtexp"]) for i in range(3)]
                        solver.run(qt.basis(N, 0 if N == 2 else 1), tl, ntraj=2,
                                   e_ops=[], seeds=self.rng.randrange(1000))
                    elif ev == "step":
                        solver.start(qt.basis(N, N - 1), 0.25, seed=self.rng.randrange(1000))
                        dt = 0.25 if kind in ("mc", "nm") else 2.0 ** (1 - spec["dtexp"])
                        solver.step(0.25 + dt)
                        solver.step(0.25 + 3 * dt)
                    elif ev == "raise-mid":
                        try:
                            P.run(solver, 2, 5, e_ops=[_raise_late])
                        except ZeroDivisionError:
                            pass
                    elif ev == "short-list":
                        try:
                            P.run(solver, 3, [1, 2])
                        except ValueError:
                            pass
                    elif ev == "nokeep-run":
                        solver.options["keep_runs_results"] = False
                        try:
                            P.run(solver, 2, 9)
                        finally:
                            solver.options["keep_runs_results"] = True
                    elif ev == "experiment":
                        nsc = len(spec["cops"])
                        m = self.rng.choice([2, 4])
                        dtx = 2.0 ** (self.rng.choice([1, 2, 3]) - spec["dtexp"])
                        tl = [i * dtx for i in range(m + 1)]
                        noise = np.array([[self.rng.choice([-1, 0, 1]) * dtx ** 0.5 for _i in range(m)]
                                          for _c in range(nsc * (2 if spec["het"] else 1))])
                        if spec["het"]:
                            noise = noise.reshape(nsc, 2, m)
                        dt0 = solver._integrator.options.get("dt")
                        solver.run_from_experiment(P.psi, tl, noise)
                        dt1 = solver._integrator.options.get("dt")
                        if dt0 != dt1:
                            self.ctx.violation(
                                "stochastic.StochasticSolver.run_from_experiment", "dt-not-restored",
                                "run_from_experiment left the integrator option dt at the "
                                "experiment's spacing: later run(seed) on this solver differs "
                                "from a fresh solver",
                                {"spec": spec, "variant": "history", "events": evs,
                                 "dt_before": dt0, "dt_after": dt1, "exp_tlist": tl})
                            # put it back so that any OTHER leak of
                            # run_from_experiment still shows below
                            solver._integrator.options["dt"] = dt0
                except TimeoutError:
                    raise
                except Exception:
                    pass       # whatever the earlier use did, the run below must not care
            res = P.run(solver, spec["ntraj"], spec["seed"])
        self.compare(P, res, "history", [_sid(s) for s in res0.seeds], {"events": evs})

    def v_globals(self, P, res0):
        """no other source of randomness: global numpy / python RNG state is
        neither read nor written"""
        np.random.seed(self.rng.randrange(1 << 30))
        random_state = random.getstate()
        st0 = np.random.get_state()
        res = P.run(P.mk({"keep_runs_results": True}), P.spec["ntraj"], P.spec["seed"])
        st1 = np.random.get_state()
        if not (st0[0] == st1[0] and np.array_equal(st0[1], st1[1]) and st0[2:] == st1[2:]) \
                or random.getstate() != random_state:
            self.bad(P.spec, "global-rng", "global-random-state-consumed")
        self.compare(P, res, "global-rng", [_sid(s) for s in res0.seeds])

    def v_draws(self, P, res0):
        """generator identity and draw order, observed by wrapping the
        generator that _get_generator returns"""
        from numpy.random import default_rng
        spec = P.spec
        solver = P.mk({"keep_runs_results": True})
        real_get = solver._get_generator
        log = {}

        class Proxy:
            def __init__(self, g, key):
                self._g, self._key = g, key
                log[key] = []

            def random(self, *a, **k):
                log[self._key].append(("random", None))
                return self._g.random(*a, **k)

            def normal(self, loc, scale, size=None):
                log[self._key].append(("normal", (float(loc), float(scale), tuple(size))))
                return self._g.normal(loc, scale, size)

            def __getattr__(self, name):
                v = getattr(self._g, name)      # AttributeError exactly as the real one
                if callable(v):
                    log[self._key].append(("other:" + name, None))
                return v

        def get(seed):
            g = real_get(seed)
            if seed is None:                    # the no-jump trajectory: no draw at all
                return Proxy(g, None)
            if spec.get("bitgen"):
                exp = np.random.Generator(getattr(np.random, spec["bitgen"])(copy.deepcopy(seed)))
            else:
                exp = default_rng(copy.deepcopy(seed))
            if type(g.bit_generator) is not type(exp.bit_generator) or \
                    not _steq(g.bit_generator.state, exp.bit_generator.state):
                self.bad(spec, "generator", "generator-is-not-the-configured-class-seeded-by-seed")
            return Proxy(g, _sid(seed))
        solver._get_generator = get
        res = P.run(solver, spec["ntraj"], spec["seed"])
        self.nruns += 1
        if not self.compare(P, res, "wrapped-generator", [_sid(s) for s in res0.seeds]):
            return
        if log.get(None):
            self.bad(spec, "draw-order", "the-no-jump-trajectory-drew-random-numbers")
            return
        nch = len(getattr(solver._integrator, "_n_ops", spec["cops"]))
        for k, s in enumerate(res.seeds):
            calls = log.get(_sid(s), [])
            kinds = set(c[0] for c in calls)
            if spec["kind"] in ("mc", "nm"):
                if kinds - {"random"}:
                    self.bad(spec, "draw-order", "unexpected-generator-method:%s" % sorted(kinds))
                    return
                ncol = len(res.collapse[k])
                if spec.get("improved") and not calls and ncol == 0:
                    continue    # dark initial state: documented all-zero trajectory, no draw
                want = 1 + ncol * (2 if nch > 1 else 1)
                extra = len(calls) - want
                if extra < 0 or (nch == 1 and extra != 0):
                    self.bad(spec, "draw-order", "number-of-draws-differs-from-1+collapses*(which+threshold)",
                             {"draws": len(calls), "collapses": ncol, "channels": nch})
                    return
            else:
                if kinds - {"normal"}:
                    self.bad(spec, "draw-order", "unexpected-generator-method:%s" % sorted(kinds))
                    return
                dt = 2.0 ** (-spec["dtexp"])
                sizes = [c[1][2] for c in calls]
                if any(c[1][0] != 0.0 or c[1][1] != np.sqrt(dt) for c in calls) or \
                        len(set(sz[1:] for sz in sizes)) > 1:
                    self.bad(spec, "draw-order", "normal-called-with-unexpected-loc-scale-shape")
                    return
                rows = sum(sz[0] for sz in sizes)
                stepn = int(round((P.tlist[1] - P.tlist[0]) / dt))
                if spec["method"] != "rouchon" or True:
                    if rows != stepn * (len(P.tlist) - 1):
                        self.bad(spec, "draw-order", "noise-rows-drawn-differ-from-steps-taken",
                                 {"rows": rows, "steps": stepn * (len(P.tlist) - 1)})
                        return
                # the recorded increments are the stream of the seed and nothing else
                if spec.get("bitgen"):
                    gen0 = np.random.Generator(getattr(np.random, spec["bitgen"])(copy.deepcopy(s)))
                else:
                    gen0 = default_rng(copy.deepcopy(s))
                full = gen0.normal(0, np.sqrt(dt), size=(rows,) + sizes[0][1:])
                tr = res.trajectories[k]
                for i in range(len(P.tlist) - 1):
                    want = np.sum(full[i * stepn:(i + 1) * stepn, 0, :], axis=0)
                    if np.asarray(tr.noise[i], dtype=float).tobytes() != want.tobytes():
                        self.bad(spec, "draw-order", "recorded-noise-is-not-the-stream-of-the-seed",
                                 {"interval": i})
                        return

    def v_mixed(self, P):
        """mixed initial ensemble (mcsolve): trajectory i starts from the member
        its position selects and depends on (member, seed) only"""
        import qutip as qt
        from numpy.random import SeedSequence
        spec = P.spec
        N = spec["N"]
        members = [qt.basis(N, N - 1), (qt.basis(N, 0) + qt.basis(N, N - 1)).unit()]
        ntr = [self.rng.choice([1, 2, 3]), self.rng.choice([1, 2])]
        tot = sum(ntr)
        order = list(range(tot))
        self.rng.shuffle(order)
        smap = ScriptedMap(order=order)
        with patched_map(smap):
            res = P.mk({"keep_runs_results": True}).run(
                [(members[0], 0.5), (members[1], 0.5)], P.tlist, ntraj=ntr, e_ops=P.e_ops,
                seeds=spec["seed"])
        self.nruns += 1
        seeds = SeedSequence(spec["seed"]).spawn(tot)
        member_of = {_sid(s): (0 if i < ntr[0] else 1) for i, s in enumerate(seeds)}
        for k, (i, f) in enumerate(res_fps(res)):
            if i not in member_of:
                self.bad(spec, "mixed", "seeds-reported-differ-from-seeds-used")
                return
            r = P.mk({"keep_runs_results": True}).run(members[member_of[i]], P.tlist, ntraj=1,
                                                      e_ops=P.e_ops, seeds=[res.seeds[k]])
            d = diff_fp(f, fp_traj(r.trajectories[0], r.collapse[0]))
            if d is not None:
                self.bad(spec, "mixed", d, {"ntraj": ntr, "order": order, "position": k})
                return

    # ------------------------------------------------------------------ driver
    def one_problem(self, spec, variants=None):
        """all variants on one problem, under a watchdog: a solver that does not
        come back (seen once with method='lsoda': MCIntegrator.integrate looping)
        is recorded, it cannot be attributed to C13 without a reference run"""
        import signal

        def on_alarm(sig, frm):
            raise TimeoutError("solver did not return within the watchdog time")
        old = signal.signal(signal.SIGALRM, on_alarm)
        signal.alarm(25 if self.ctx.quick else 60)
        try:
            return self._one_problem(spec, variants)
        except TimeoutError:
            self.dist["solver-hang"] = self.dist.get("solver-hang", 0) + 1
            self.ctx.notes.append("watchdog: solver did not return on " + json.dumps(spec, sort_keys=True))
            self.ctx.log("watchdog: solver did not return:", json.dumps(spec, sort_keys=True))
        finally:
            signal.alarm(0)
            signal.signal(signal.SIGALRM, old)

    def _one_problem(self, spec, variants=None):
        try:
            P = Problem(spec)
        except TimeoutError:
            raise
        except Exception:
            self.dist["build-error"] = self.dist.get("build-error", 0) + 1
            return
        with warnings.catch_warnings():
            warnings.simplefilter("ignore")
            try:
                res0 = self.v_base(P)
            except TimeoutError:
                raise
            except Exception as e:
                # a problem on which the solver itself fails (e.g. collapse time
                # search) is not a C13 matter; count it as trivial
                self.dist["solver-error"] = self.dist.get("solver-error", 0) + 1
                self.ctx.count_case(("oracle-error", json.dumps(spec, sort_keys=True)), nontrivial=False)
                return
            allv = ["parallel", "permuted", "rerun", "sub", "scripted", "nokeep", "feedback",
                    "history", "globals", "draws", "reconf"]
            if spec.get("garg") is not None:
                allv.append("args")
            if spec["kind"] == "mc" and not spec["improved"]:
                allv.append("mixed")
            if variants is None:
                variants = allv if not self.ctx.quick else self.rng.sample(allv, 4)
                if spec.get("fb"):
                    variants = list(dict.fromkeys(["permuted", "rerun", "parallel"] + list(variants)))
                if spec.get("garg") is not None:
                    variants = list(dict.fromkeys(["args"] + list(variants)))
            self.dist["fb/" + "+".join("%s:%s" % tuple(x) for x in spec.get("fb", [])) or "fb/none"] = \
                self.dist.get("fb/" + "+".join("%s:%s" % tuple(x) for x in spec.get("fb", [])) or "fb/none", 0) + 1
            for v in variants:
                if v not in allv:
                    continue
                try:
                    if v in ("feedback", "mixed"):
                        getattr(self, "v_" + v)(P)
                    else:
                        getattr(self, "v_" + v)(P, res0)
                except TimeoutError:
                    raise
                except Exception as e:
                    if v in ("feedback", "mixed"):
                        # other seeds / other initial states than the base run:
                        # a failure of the solver itself is not a C13 matter
                        self.dist["solver-error"] = self.dist.get("solver-error", 0) + 1
                        continue
                    # same seeds as the base run, which succeeded for each of them
                    import traceback
                    tb = traceback.format_exc()
                    if "reduce_expect" in tb and "Cannot cast ufunc" in tb:
                        self.ctx.violation(
                            "multitrajresult._TrajectorySum.reduce_expect",
                            "sum-dtype-fixed-by-first-trajectory",
                            "run() raises a casting error when a later trajectory has complex "
                            "expectation values and the first one real: the seeds work one by "
                            "one and with the complex trajectory first, the ensemble fails in "
                            "any other order",
                            {"spec": spec, "variant": v, "error": repr(e)[:300]})
                        continue
                    self.bad(spec, v, "exception:%s" % type(e).__name__,
                             {"error": repr(e)[:300]})
                key = "%s/%s" % (spec["kind"], v)
                self.dist[key] = self.dist.get(key, 0) + 1
                self.ctx.count_case(("oracle", v, json.dumps(spec, sort_keys=True)),
                                    nontrivial=True)
        return P


# ======================================================================
def run(ctx):
    rng = random.Random(ctx.seed * 104729 + 13)
    ctx.cov["rule"] = (
        "K1 case = history of run() calls on one MCSolver (seed form, ntraj, which results "
        "reach result.add in which order, keep_runs_results); K2 case = scripted jump problem + "
        "history of trajectories on one MCIntegrator + scripted uniform draws; K3 case = "
        "history of run()/run_from_experiment() on one stochastic solver with scripted "
        "stepper and scripted normal draws; oracle case = (random small open system, solver, "
        "method, options, one way of running the ensemble). Distinct by full case content; "
        "non-trivial when at least one trajectory was computed.")
    ctx.cov["trusted_base"] += [
        "oracle `stream : seedid -> nat -> U`: the k-th value handed out by "
        "numpy default_rng(SeedSequence(entropy, spawn_key)); SeedSequence identity modelled "
        "as (entropy, spawn_key, n_children_spawned), pool size fixed",
        "oracles of the trajectory models (Section variables / record fields of mcp, sdp): "
        "ODE stepping, norm, collapse-time search, channel choice, jump, SDE stepper; assumed: "
        "the wrapped ODE integrator's state after set_state is (t, y) only (C11)",
        "Model/C13.v is hand-written; tied to multitraj.py / mcsolve.py / sode/_noise.py / "
        "sode/sode.py / stochastic.py / multitrajresult.py by the K1-K3 trace correspondences "
        "(scripted map, scripted ODE integrator / c_ops / n_ops / stepper / generator)",
        "Model/C14.v + Proofs/C14.v for the parallel map (its own tie is check C14); fork "
        "semantics of worker processes emulated by deepcopy in the scripted map, real "
        "parallel_map runs are part of the oracle only",
        "bitwise comparison of trajectories is done on this machine / BLAS; cross-platform "
        "floating-point reproducibility is outside the claim",
    ]
    orc = Oracle(ctx, random.Random(ctx.seed * 7 + 1313))

    def search(failed, log):
        # a proof no longer checks: look for a violation of the property
        # itself on the real solvers
        r2 = random.Random(ctx.seed + 99)
        for i in range(6):
            orc.one_problem(gen_problem(r2, ["mc", "sse", "sme", "nm"][i % 4]),
                            ["scripted", "history", "nokeep", "permuted"])

    vlib.standard_proof_step(ctx, ["Props/C13.vo", "Props/C13_conf.vo", "Props/C13_mix.vo", "Props/C13_gen.vo"],
                             ["Props/C13.v", "Props/C13_conf.v", "Props/C13_mix.v", "Props/C13_gen.v"],
                             search)

    check_map_calls(ctx)
    dist = {}
    # ---------------------------------------------------------------- corpus
    corpus = {"k1": [], "k2": [], "k3": [], "k4": [], "k5": [], "k6": [], "oracle": []}
    cdir = os.path.join(vlib.VERIF, "corpus", "C13")
    if os.path.isdir(cdir):
        for f in sorted(os.listdir(cdir)):
            d = json.load(open(os.path.join(cdir, f)))
            corpus.setdefault(d["tie"], []).append(d["case"])

    # -------------------------------------------------------------------- K1
    n1 = 120 if ctx.quick else 1200
    c1 = list(corpus["k1"]) + [k1_case(rng) for _ in range(n1)]
    i1 = [k1_impl(c) for c in c1]
    e1 = [k1_expr(c, ent0) for c, (ent0, _) in zip(c1, i1)]
    # -------------------------------------------------------------------- K2
    n2 = 250 if ctx.quick else 3000
    c2 = list(corpus["k2"]) + [k2_case(rng) for _ in range(n2)]
    i2 = []
    for c in c2:
        try:
            i2.append(k2_impl(c))
        except Exception as e:
            i2.append(("EXC", repr(e)[:200]))
    e2 = [k2_expr(c) for c in c2]
    # -------------------------------------------------------------------- K3
    n3 = 150 if ctx.quick else 1500
    c3 = list(corpus["k3"]) + [k3_case(rng) for _ in range(n3)]
    i3 = []
    for c in c3:
        try:
            i3.append(k3_impl(c))
        except Exception as e:
            i3.append(("EXC", repr(e)[:200]))
    e3 = [k3_expr(c, True) for c in c3] + [k3_expr(c, False) for c in c3]
    # -------------------------------------------------------------------- K4
    n4 = 60 if ctx.quick else 600
    c4 = list(corpus["k4"]) + [k4_case(rng) for _ in range(n4)]
    i4 = []
    for c in c4:
        try:
            i4.append(k4_impl(c))
        except Exception as e:
            i4.append(("EXC", repr(e)[:200]))
    e4 = [k4_expr(c, True) for c in c4] + [k4_expr(c, False) for c in c4]
    # -------------------------------------------------------------------- K5
    n5 = 60 if ctx.quick else 600
    c5 = list(corpus["k5"]) + [k5_case(rng) for _ in range(n5)]
    i5 = []
    for c in c5:
        try:
            i5.append(k5_impl(c))
        except Exception as e:
            i5.append(("EXC", repr(e)[:200]))
    e5 = [k5_expr(c) for c in c5]
    # -------------------------------------------------------------------- K6
    n6 = 80 if ctx.quick else 800
    c6 = list(corpus["k6"]) + [k6_case(rng) for _ in range(n6)]
    i6 = []
    for c in c6:
        try:
            i6.append(k6_impl(c))
        except Exception as e:
            i6.append((("EXC", repr(e)[:200]), []))
    e6 = [k6_expr(c, dr) for c, (_, dr) in zip(c6, i6)]
    ctx.log("implementation traces: K1 %d, K2 %d, K3 %d, K4 %d, K5 %d, K6 %d" % (
        len(c1), len(c2), len(c3), len(c4), len(c5), len(c6)))
    try:
        vals = vlib.coq_eval_values("cases_C13", HEADER, e1 + e2 + e3 + e4 + e5 + e6, chunk=150)
    except RuntimeError as e:
        ctx.violation("corr:C13:model-eval", "coqc", "model evaluation failed",
                      {"log": str(e)}, found_input=False)
        vals = None
    mism = {"k1": 0, "k2": 0, "k3": 0, "k4": 0, "k5": 0, "k6": 0}
    if vals is not None:
        v1, v2 = vals[:len(e1)], vals[len(e1):len(e1) + len(e2)]
        v3t = vals[len(e1) + len(e2):len(e1) + len(e2) + len(c3)]
        v3f = vals[len(e1) + len(e2) + len(c3):len(e1) + len(e2) + 2 * len(c3)]
        v4t = vals[len(e1) + len(e2) + len(e3):len(e1) + len(e2) + len(e3) + len(c4)]
        v4f = vals[len(e1) + len(e2) + len(e3) + len(c4):len(e1) + len(e2) + len(e3) + len(e4)]
        v5 = vals[len(e1) + len(e2) + len(e3) + len(e4):len(e1) + len(e2) + len(e3) + len(e4) + len(e5)]
        v6 = vals[len(e1) + len(e2) + len(e3) + len(e4) + len(e5):]
        for c, (ent0, im), v in zip(c1, i1, v1):
            model = k1_canon_model(vlib.parse_coq_value(v))
            imc = [((o[0],) + tuple(
                [list(x) if isinstance(x, list) else x for x in o[1:]]), a, b) for o, a, b in im]
            model = [((o[0],) + tuple(o[1:]), a, b) for o, a, b in model]
            ctx.count_case(("k1", json.dumps(c, sort_keys=True)),
                           nontrivial=any(r["ntraj"] > 0 for r in c["hist"]))
            ctx.cov["traces_validated_against_impl"] += 1
            for r in c["hist"]:
                dist["k1/" + r["arg"][0]] = dist.get("k1/" + r["arg"][0], 0) + 1
            if model != imc:
                mism["k1"] += 1
                ctx.violation("corr:multitraj.run/_read_seed/MultiTrajResult.add", "model-differs",
                              "seed book-keeping of the implementation differs from the model",
                              {"tie": "k1", "case": c, "impl": imc, "model": model})
        for c, im, v in zip(c2, i2, v2):
            model = k2_canon_model(vlib.parse_coq_value(v))
            ctx.count_case(("k2", json.dumps(c, sort_keys=True)), nontrivial=True)
            ctx.cov["traces_validated_against_impl"] += 1
            ncol = 0 if isinstance(im, tuple) else sum(len(t[1]) for t in im)
            dist["k2/collapses"] = dist.get("k2/collapses", 0) + ncol
            dist["k2/trajectories"] = dist.get("k2/trajectories", 0) + len(c["hist"])
            if model != im:
                mism["k2"] += 1
                ctx.violation("corr:mcsolve.MCIntegrator", "model-differs",
                              "draw order / collapse record / states of MCIntegrator differ "
                              "from the model on a history of trajectories",
                              {"tie": "k2", "case": c, "impl": im, "model": model})
        leak_cases = 0
        for c, im, vt, vf in zip(c3, i3, v3t, v3f):
            mt = k3_canon_model(vlib.parse_coq_value(vt), c["nsc"])
            mf = k3_canon_model(vlib.parse_coq_value(vf), c["nsc"])
            ctx.count_case(("k3", json.dumps(c, sort_keys=True)), nontrivial=True)
            ctx.cov["traces_validated_against_impl"] += 1
            for ev in c["hist"]:
                dist["k3/" + ev[0]] = dist.get("k3/" + ev[0], 0) + 1
            if mt != mf:
                dist["k3/cases-telling-restore-from-leak"] = \
                    dist.get("k3/cases-telling-restore-from-leak", 0) + 1
            if im == mt:
                continue
            if im == mf:
                leak_cases += 1
                ctx.violation("stochastic.StochasticSolver.run_from_experiment", "dt-not-restored",
                              "run_from_experiment leaves the integrator option dt changed "
                              "(model with restore=false matches, restore=true does not): a "
                              "later run(seed) on the same solver differs from a fresh solver",
                              {"tie": "k3", "case": c, "impl": im, "model_restore_true": mt})
                continue
            mism["k3"] += 1
            ctx.violation("corr:sode.SIntegrator/Wiener/run_from_experiment", "model-differs",
                          "noise batches / states / dt of the stochastic integrator differ "
                          "from the model on a history of runs",
                          {"tie": "k3", "case": c, "impl": im, "model": mt})
        dist["k3/dt-leak-cases"] = leak_cases
        stale = 0
        for c, im, vt, vf in zip(c4, i4, v4t, v4f):
            nm = c["kind"] == "nm"
            mt = k4_canon_model(vlib.parse_coq_value(vt), nm)
            mf = k4_canon_model(vlib.parse_coq_value(vf), nm)
            ctx.count_case(("k4", json.dumps(c, sort_keys=True)), nontrivial=True)
            ctx.cov["traces_validated_against_impl"] += 1
            for ev in c["evs"]:
                dist["k4/%s/%s" % (c["kind"], ev[0])] = dist.get("k4/%s/%s" % (c["kind"], ev[0]), 0) + 1
            if mt != mf:
                dist["k4/cases-telling-rebind"] = dist.get("k4/cases-telling-rebind", 0) + 1
            if im == mt:
                continue
            if im == mf:
                stale += 1
                ctx.violation(
                    "solver_base.Solver.options.setter", "mc-integrator-keeps-old-options-object",
                    "solver.options = {solver-level keys only} creates a new options object and "
                    "MCIntegrator keeps the old one: norm_tol / norm_steps / norm_t_tol / "
                    "mc_corr_eps set this way are ignored by later trajectories (model with "
                    "f_rebind=false matches, f_rebind=true does not)",
                    {"tie": "k4", "case": c, "impl": im, "model_rebind_true": mt})
                continue
            mism["k4"] += 1
            ctx.violation("corr:args/options propagation", "model-differs",
                          "what the solver objects hold after a history of run/step/option "
                          "changes differs from the model",
                          {"tie": "k4", "case": c, "impl": im, "model": mt})
        dist["k4/stale-options-cases"] = stale
        for c, im, v in zip(c5, i5, v5):
            model = k5_canon_model(vlib.parse_coq_value(v))
            ctx.count_case(("k5", json.dumps(c, sort_keys=True)), nontrivial=len(c["order"]) > 0)
            ctx.cov["traces_validated_against_impl"] += 1
            dist["k5/members"] = dist.get("k5/members", 0) + len(c["counts"])
            if model != im:
                mism["k5"] += 1
                ctx.violation("corr:multitraj._run_mixed", "model-differs",
                              "seed / member-state assignment of a mixed initial ensemble "
                              "differs from the model",
                              {"tie": "k5", "case": c, "impl": im, "model": model})
        for c, (im, dr), v in zip(c6, i6, v6):
            model = k6_canon_model(vlib.parse_coq_value(v))
            ctx.count_case(("k6", json.dumps(c, sort_keys=True)), nontrivial=True)
            ctx.cov["traces_validated_against_impl"] += 1
            dist["k6/bit/%s" % BITGENS[c["bit"]]] = dist.get("k6/bit/%s" % BITGENS[c["bit"]], 0) + 1
            dist["k6/object-items"] = dist.get("k6/object-items", 0) + sum(
                1 for it in c["items"] if it[0] == "g")
            dist["k6/" + im[0]] = dist.get("k6/" + im[0], 0) + 1
            if model != im:
                mism["k6"] += 1
                ctx.violation("corr:multitraj._read_seed/_get_generator", "model-differs",
                              "the generator object (class, seed, starting position, sharing) a "
                              "trajectory uses differs from the model",
                              {"tie": "k6", "case": c, "impl": im, "model": model, "draws": dr})
    ctx.log("correspondence mismatches: %r" % mism)
    ctx.sample({"k1_case": c1[-1], "impl": i1[-1][1]})
    ctx.sample({"k2_case": c2[-1], "impl": i2[-1]})
    ctx.sample({"k3_case": c3[-1], "impl": i3[-1]})
    ctx.sample({"k4_case": c4[-1], "impl": i4[-1]})

    # ---------------------------------------------------------------- oracle
    budget = 45 if ctx.quick else 480
    t0 = time.time()
    for spec in corpus["oracle"]:
        orc.one_problem(spec)
    nfix = 0
    for spec in fixed_family():           # always complete, not under the time budget
        orc.one_problem(spec, ["rerun"] + (["args"] if spec["garg"] is not None else []))
        nfix += 1
    dist["oracle/fixed-family"] = nfix
    ctx.log("oracle: fixed family of %d problems done (%.0f s)" % (nfix, time.time() - t0))
    t0 = time.time()
    kinds = ["mc", "sse", "sme", "nm", "mc", "sme"]
    nprob = 0
    while time.time() - t0 < budget and nprob < (100 if ctx.quick else 2500):
        spec = gen_problem(orc.rng, kinds[nprob % len(kinds)])
        orc.one_problem(spec)
        nprob += 1
    ctx.log("oracle: %d problems, %d ensemble runs compared bitwise with fresh single-seed runs"
            % (nprob, orc.nruns))
    dist.update(orc.dist)
    dist["oracle/problems"] = nprob
    dist["oracle/ensemble-runs"] = orc.nruns
    ctx.cov["input_distribution"] = dist
    ctx.sample({"oracle_spec": spec})
    ctx.cov["explanation"] = (
        "Theorems (Props/C13.v) hold for every seed form, problem, stream, integrator history "
        "and schedule of the model. The model is tied to the source by exact equality of "
        "traces on generated histories (K1 seeds/result lists, K2 MCIntegrator with scripted "
        "physics, K3 stochastic integrator + Wiener + run_from_experiment). The oracle runs "
        "the property on the real solvers: it is exploration/validation of the numerical part "
        "(ODE / SDE steppers, fork) that the theorems take as oracles, compared bitwise, not "
        "counted as proof obligations.")


def replay(ctx, payload):
    d = payload["detail"]
    if d.get("tie") == "k2":
        im = k2_impl(d["case"])
        v = vlib.coq_eval_values("replay_C13", HEADER, [k2_expr(d["case"])])
        if k2_canon_model(vlib.parse_coq_value(v[0])) != im:
            ctx.violation(payload["site"], payload["signature"], payload["what"], d)
        return
    if d.get("tie") == "k3":
        im = k3_impl(d["case"])
        v = vlib.coq_eval_values("replay_C13", HEADER, [k3_expr(d["case"], True)])
        if k3_canon_model(vlib.parse_coq_value(v[0]), d["case"]["nsc"]) != im:
            ctx.violation(payload["site"], payload["signature"], payload["what"], d)
        return
    if d.get("tie") == "k6":
        im, dr = k6_impl(d["case"])
        v = vlib.coq_eval_values("replay_C13", HEADER, [k6_expr(d["case"], dr)])
        if k6_canon_model(vlib.parse_coq_value(v[0])) != im:
            ctx.violation(payload["site"], payload["signature"], payload["what"], d)
        return
    if d.get("tie") == "k5":
        im = k5_impl(d["case"])
        v = vlib.coq_eval_values("replay_C13", HEADER, [k5_expr(d["case"])])
        if k5_canon_model(vlib.parse_coq_value(v[0])) != im:
            ctx.violation(payload["site"], payload["signature"], payload["what"], d)
        return
    if d.get("tie") == "k4":
        im = k4_impl(d["case"])
        v = vlib.coq_eval_values("replay_C13", HEADER, [k4_expr(d["case"], True)])
        if k4_canon_model(vlib.parse_coq_value(v[0]), d["case"]["kind"] == "nm") != im:
            ctx.violation(payload["site"], payload["signature"], payload["what"], d)
        return
    if d.get("tie") == "k1":
        ent0, im = k1_impl(d["case"])
        v = vlib.coq_eval_values("replay_C13", HEADER, [k1_expr(d["case"], ent0)])
        model = k1_canon_model(vlib.parse_coq_value(v[0]))
        imc = [((o[0],) + tuple(o[1:]), a, b) for o, a, b in im]
        if model != imc:
            ctx.violation(payload["site"], payload["signature"], payload["what"], d)
        return
    if "spec" in d:
        d = dict(d, spec={k: v for k, v in d["spec"].items() if k != "_over"})
        orc = Oracle(ctx, random.Random(payload.get("seed", 0) * 7 + 1313))
        v = d.get("variant", "history").split("/")[0]
        name = {"parallel_map": "parallel", "permuted-list": "permuted", "sub-ensemble": "sub",
                "scripted-map": "scripted", "no-keep": "nokeep", "seeds-fed-back": "feedback",
                "seeds-none": "feedback", "global-rng": "globals", "draw-order": "draws",
                "wrapped-generator": "draws", "generator": "draws",
                "same-solver-first-run": "rerun", "same-solver-second-run": "rerun"}.get(v, v)
        if name.startswith("args"):
            name = "args"
        if name.startswith("reconf"):
            name = "reconf"
        for _ in range(5):
            orc.one_problem(d["spec"], [name] if name != "serial" else [])
            if ctx.violations or ctx.known:
                break
