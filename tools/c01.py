"""C01 - linear-algebra results do not depend on the storage format.

Parts (see BUILDING.md):
  * proof step: coq/Props/C01.v (models in coq/Model/C01.v, proofs in
    coq/Proofs/C01.v)
  * correspondence (K): the Gallina kernels evaluated by vm_compute on the raw
    arrays (indptr/indices/data, offsets/data, memory order) of real qutip
    objects holding Gaussian integers, compared with the raw arrays the real
    kernels return
  * dispatcher translation validation: the real Dispatcher._lookup tables are
    exported as typing facts and fed to the verified checker `entry_ok`
  * implementation-level oracle (always run): every registered and
    constructed specialisation of every operation against NumPy on
    Gaussian-integer operands in every representation, plus shape guards.
"""
import itertools
import json
import os
import random
import sys

import numpy as np

import vlib
from vlib import cz, cnat, cbool, clist


# ------------------------------------------------------- crash containment
# A broken kernel can read or write out of bounds and kill the interpreter.
# Every phase that calls into the implementation runs in a forked child which
# journals the case it is about to run; if the child dies the parent reports
# the journalled case as the failing input.
_JOURNAL = [None]


def journal(obj):
    if _JOURNAL[0]:
        with open(_JOURNAL[0], "w") as f:
            json.dump(obj, f, default=str)


def phase(ctx, name, fn):
    import pickle
    import signal
    d = os.path.join(vlib.VERIF, "replays", "C01")
    os.makedirs(d, exist_ok=True)
    jpath = os.path.join(d, ".journal_%s_%d.json" % (name, os.getpid()))
    spath = os.path.join(d, ".state_%s_%d.pkl" % (name, os.getpid()))
    sys.stdout.flush()
    pid = os.fork()
    if pid == 0:
        code = 0
        try:
            _JOURNAL[0] = jpath
            fn()
            st = {k: getattr(ctx, k) for k in ("cov", "violations", "known", "notes",
                                               "_distinct", "_seen", "_nrep", "assumptions")}
            with open(spath, "wb") as f:
                pickle.dump(st, f)
        except BaseException:     # noqa
            import traceback
            traceback.print_exc()
            code = 3
        sys.stdout.flush()
        os._exit(code)
    _, status = os.waitpid(pid, 0)
    if os.path.exists(spath):
        st = pickle.load(open(spath, "rb"))
        for k, v in st.items():
            setattr(ctx, k, v)
        os.remove(spath)
    else:
        last = None
        if os.path.exists(jpath):
            try:
                last = json.load(open(jpath))
            except Exception:     # noqa
                last = None
        sig = os.WTERMSIG(status) if os.WIFSIGNALED(status) else None
        what = ("the implementation crashed the interpreter (signal %s) in phase %s" % (sig, name)
                if sig else "phase %s of the harness failed (exit %s)" % (name, os.WEXITSTATUS(status)))
        lbl = (last or {}).get("op") or (last or {}).get("kernel") or "?"
        ctx.violation("crash:" + name, [lbl, "signal", sig], what + "; last case: " + str(lbl),
                      last or {"note": "no case journalled"}, found_input=last is not None)
    if os.path.exists(jpath):
        os.remove(jpath)


# ===================================================================== operands
SHAPE_CLASSES = ["1x1", "bra", "ket", "square", "tall", "wide"]


def gen_shape(rng, cls, big=False):
    hi = 7 if not big else 11
    if cls == "1x1":
        return (1, 1)
    if cls == "bra":
        return (1, rng.randint(2, hi))
    if cls == "ket":
        return (rng.randint(2, hi), 1)
    if cls == "square":
        n = rng.randint(2, hi - 1)
        return (n, n)
    a, b = rng.randint(2, hi), rng.randint(2, hi)
    while a == b:
        b = rng.randint(2, hi)
    lo, hi2 = min(a, b), max(a, b)
    return (hi2, lo) if cls == "tall" else (lo, hi2)


def gz(rng, lim=3, nonzero=False):
    """A Gaussian integer as (re, im)."""
    while True:
        v = (rng.randint(-lim, lim), rng.randint(-lim, lim))
        if not nonzero or v != (0, 0):
            return v


def gen_matrix(rng, shape, density):
    """density in {'empty','single','sparse','band','dense'} -> complex ndarray
    with Gaussian-integer entries."""
    r, c = shape
    a = np.zeros((r, c), dtype=complex)
    if density == "empty":
        return a
    if density == "single":
        v = gz(rng, nonzero=True)
        a[rng.randrange(r), rng.randrange(c)] = complex(*v)
        return a
    if density == "band":
        offs = rng.sample(range(-(r - 1), c), min(r + c - 1, rng.randint(1, 3)))
        for o in offs:
            for j in range(c):
                i = j - o
                if 0 <= i < r and rng.random() < 0.8:
                    a[i, j] = complex(*gz(rng))
        return a
    p = 0.3 if density == "sparse" else 1.0
    for i in range(r):
        for j in range(c):
            if rng.random() < p:
                a[i, j] = complex(*gz(rng, nonzero=(density == "dense")))
    return a


DENSITIES = ["empty", "single", "sparse", "band", "dense"]


def make_csr(D, a, rng, variant):
    """variant: sorted | unsorted | structzero (unsorted + explicit zeros)"""
    r, c = a.shape
    indptr, indices, data = [0], [], []
    for i in range(r):
        cols = [j for j in range(c) if a[i, j] != 0]
        if variant == "structzero":
            zs = [j for j in range(c) if a[i, j] == 0]
            rng.shuffle(zs)
            cols += zs[:rng.randint(0, min(2, len(zs)))]
        if variant in ("unsorted", "structzero"):
            before = list(cols)
            rng.shuffle(cols)
            if cols == before and len(cols) > 1:
                cols.reverse()
        indices += cols
        data += [a[i, j] for j in cols]
        indptr.append(len(indices))
    from qutip.core.data.base import idxint_dtype
    return D.CSR((np.array(data, dtype=complex),
                  np.array(indices, dtype=idxint_dtype),
                  np.array(indptr, dtype=idxint_dtype)), shape=(r, c))


def make_dia(D, a, rng, variant):
    """variant: sorted | unsorted (offset order shuffled, an all-zero diagonal
    may be stored) | garbage (non-zero numbers in the slots of a diagonal that
    lie outside the matrix)"""
    r, c = a.shape
    offs = sorted({j - i for i in range(r) for j in range(c) if a[i, j] != 0})
    if variant != "sorted":
        free = [o for o in range(-(r - 1), c) if o not in offs]
        if free and rng.random() < 0.6:
            offs.append(rng.choice(free))
        rng.shuffle(offs)
    data = np.zeros((len(offs), c), dtype=complex)
    for k, o in enumerate(offs):
        for j in range(c):
            i = j - o
            if 0 <= i < r:
                data[k, j] = a[i, j]
            elif variant == "garbage":
                data[k, j] = complex(*gz(rng, nonzero=True))
    from qutip.core.data.base import idxint_dtype
    return D.Dia((data, np.array(offs, dtype=idxint_dtype)), shape=(r, c))


def pick_rep(rng, t):
    """representation variant of type t; non-canonical ones are favoured"""
    if t == "CSR":
        return ("CSR", rng.choice(["sorted", "unsorted", "unsorted", "structzero", "structzero"]))
    if t == "Dia":
        return ("Dia", rng.choice(["sorted", "unsorted", "garbage", "garbage"]))
    return ("Dense", rng.choice(["C", "F"]))


REPRS = [("Dense", "C"), ("Dense", "F"),
         ("CSR", "sorted"), ("CSR", "unsorted"), ("CSR", "structzero"),
         ("Dia", "sorted"), ("Dia", "unsorted"), ("Dia", "garbage")]


def make_repr(D, a, rng, rep):
    t, v = rep
    if t == "Dense":
        return make_dense(D, a, v == "F")
    if t == "CSR":
        return make_csr(D, a, rng, v)
    return make_dia(D, a, rng, v)


def make_dense(D, a, fortran):
    """Dense holding `a` whose `fortran` flag is exactly the requested one -
    also for a single row or column, where Dense(ndarray) would always report
    Fortran order (NumPy flags such arrays as both) although kernels branch on
    the flag."""
    from qutip.core.data import dense as _dense
    a = np.asarray(a, dtype=complex)
    x = _dense.empty(a.shape[0], a.shape[1], bool(fortran))
    x.as_ndarray()[:, :] = a
    assert bool(x.fortran) == bool(fortran) and np.array_equal(x.to_array(), a)
    return x


def enc(a):
    """ndarray -> nested list of [re, im] ints (replay payload)."""
    a = np.asarray(a)
    return [[[int(x.real), int(x.imag)] for x in row] for row in a]


def dec(l):
    return np.array([[complex(x[0], x[1]) for x in row] for row in l],
                    dtype=complex).reshape(len(l), len(l[0]) if l else 0)


def raw_of(D, x):
    """Raw storage of a data-layer object as JSON-able exact values."""
    def cl(v):
        return [[int(z.real), int(z.imag)] for z in np.asarray(v).ravel()]
    if isinstance(x, D.Dense):
        arr = x.as_ndarray()
        flat = arr.ravel(order="F" if x.fortran else "C")
        return {"type": "Dense", "shape": list(x.shape),
                "fortran": bool(x.fortran), "data": cl(flat)}
    if isinstance(x, D.CSR):
        s = x.as_scipy()
        return {"type": "CSR", "shape": list(x.shape),
                "indptr": [int(v) for v in s.indptr],
                "indices": [int(v) for v in s.indices], "data": cl(s.data)}
    s = x.as_scipy()
    return {"type": "Dia", "shape": list(x.shape),
            "offsets": [int(v) for v in s.offsets],
            "data": [cl(row) for row in np.asarray(s.data).reshape(len(s.offsets), x.shape[1])]}


def from_raw(D, r):
    from qutip.core.data.base import idxint_dtype

    def cv(l):
        return np.array([complex(a, b) for a, b in l], dtype=complex)
    shape = tuple(r["shape"])
    if r["type"] == "Dense":
        arr = cv(r["data"]).reshape(shape, order="F" if r["fortran"] else "C")
        return make_dense(D, arr, r["fortran"])
    if r["type"] == "CSR":
        return D.CSR((cv(r["data"]), np.array(r["indices"], dtype=idxint_dtype),
                      np.array(r["indptr"], dtype=idxint_dtype)), shape=shape)
    data = np.array([[complex(a, b) for a, b in row] for row in r["data"]],
                    dtype=complex).reshape(len(r["offsets"]), shape[1])
    return D.Dia((data, np.array(r["offsets"], dtype=idxint_dtype)), shape=shape)


def exact_int(a):
    a = np.asarray(a)
    return bool(np.all(a.real == np.round(a.real)) and np.all(a.imag == np.round(a.imag))
                and np.all(np.isfinite(a.real)) and np.all(np.isfinite(a.imag)))


# ================================================================== operations
class Op:
    def __init__(self, name, nin, ref, shapes, out=True, extra=None, getter=None,
                 scalar=False, guard=None, approx=False, kw=None, more=None, weight=1,
                 combos=None, no_lookup=False):
        self.name, self.nin, self.ref, self.shapes = name, nin, ref, shapes
        self.out, self.extra, self.getter = out, extra, getter
        self.scalar, self.guard, self.approx = scalar, guard, approx
        self.kw = kw
        # more(rng, shapes, extra) -> further argument tuples tried on the same
        # operands (all target shapes / selections / orders, not one draw)
        self.more, self.weight, self.combos, self.no_lookup = more, weight, combos, no_lookup


def _ptrace_ref(a, dims, sel):
    n = len(dims)
    t = a.reshape(list(dims) + list(dims))
    sel = sorted(sel)
    keep = sel
    drop = [k for k in range(n) if k not in keep]
    t = np.transpose(t, keep + drop + [n + k for k in keep] + [n + k for k in drop])
    dk = int(np.prod([dims[k] for k in keep])) if keep else 1
    dd = int(np.prod([dims[k] for k in drop])) if drop else 1
    t = t.reshape(dk, dd, dk, dd)
    return np.einsum("ajbj->ab", t)


def _perm_dims_ref(a, dims, order):
    n = len(dims)
    if a.shape[1] == 1:
        t = a.reshape(dims)
        return np.transpose(t, order).reshape(-1, 1)
    if a.shape[0] == 1:
        t = a.reshape(dims)
        return np.transpose(t, order).reshape(1, -1)
    t = a.reshape(list(dims) + list(dims))
    t = np.transpose(t, list(order) + [n + k for k in order])
    N = a.shape[0]
    return t.reshape(N, N)


def factorisations(rng, n, maxparts=3):
    """a random factorisation of n into >=1 factors (each >=1)."""
    parts = []
    m = n
    for p in (2, 3, 5, 7):
        while m % p == 0:
            parts.append(p)
            m //= p
    if m > 1:
        parts.append(m)
    if not parts:
        parts = [1]
    rng.shuffle(parts)
    while len(parts) > maxparts:
        a = parts.pop()
        parts[rng.randrange(len(parts))] *= a
    if rng.random() < 0.2:
        parts.insert(rng.randrange(len(parts) + 1), 1)
    return parts


def build_ops(D):
    """Table of operations: how to draw operand shapes/extra arguments and
    the NumPy meaning.  `shapes(rng)` returns (list of operand shapes, extra
    positional args tuple, kwargs)."""
    from qutip.core.data import permute, norm
    ops = []

    def any_shape(rng):
        if rng.random() < 0.5:
            return (rng.randint(1, 6), rng.randint(1, 6))
        return gen_shape(rng, rng.choice(SHAPE_CLASSES))

    def sq_shape(rng):
        return gen_shape(rng, rng.choice(["1x1", "square", "square"]))

    def un(f):
        return lambda rng: ([any_shape(rng)], (), {})

    for nm, ref in [("adjoint", lambda a: a.conj().T), ("transpose", lambda a: a.T),
                    ("conj", lambda a: a.conj()), ("neg", lambda a: -a)]:
        ops.append(Op(nm, 1, ref, un(None)))

    def mul_shapes(rng):
        v = rng.choice([(0, 0), (1, 0), (2, 0), (0, 1), (-1, 2), (3, -1)])
        return [any_shape(rng)], (complex(*v),), {}
    ops.append(Op("mul", 1, lambda a, v: v * a, mul_shapes))
    ops.append(Op("imul", 1, lambda a, v: v * a, mul_shapes))

    def add_shapes(rng):
        s = any_shape(rng)
        v = rng.choice([(1, 0), (1, 0), (0, 0), (-1, 0), (0, 1), (2, -1)])
        return [s, s], (complex(*v),), {}
    ops.append(Op("add", 2, lambda a, b, v: a + v * b, add_shapes))
    ops.append(Op("sub", 2, lambda a, b: a - b,
                  lambda rng: ((lambda s: [s, s])(any_shape(rng)), (), {})))
    ops.append(Op("multiply", 2, lambda a, b: a * b,
                  lambda rng: ((lambda s: [s, s])(any_shape(rng)), (), {})))

    def mm_shapes(rng):
        s = any_shape(rng)
        k = rng.choice([1, 1, 2, 3, 5, s[0], s[1]])
        v = rng.choice([(1, 0), (1, 0), (0, 1), (2, 0), (-1, 1)])
        return [s, (s[1], k)], (complex(*v),), {}
    ops.append(Op("matmul", 2, lambda a, b, v: v * (a @ b), mm_shapes))

    def mmd_shapes(rng):
        s = any_shape(rng)
        k = rng.choice([1, 2, 3, s[0]])
        v = rng.choice([(1, 0), (0, 1), (2, 0)])
        return [s, (k, s[1])], (complex(*v),), {}
    ops.append(Op("matmul_dag", 2, lambda a, b, v: v * (a @ b.conj().T), mmd_shapes))

    def mo_shapes(rng):
        n, m = rng.randint(1, 6), rng.randint(1, 6)
        v = rng.choice([(1, 0), (0, 1), (2, 0)])
        return [(n, 1), (1, m)], (complex(*v),), {}
    ops.append(Op("matmul_outer", 2, lambda a, b, v: v * (a @ b), mo_shapes))

    def kron_shapes(rng):
        return [gen_shape(rng, rng.choice(SHAPE_CLASSES)),
                gen_shape(rng, rng.choice(SHAPE_CLASSES))], (), {}
    ops.append(Op("kron", 2, lambda a, b: np.kron(a, b), kron_shapes, weight=2))

    def mmdout_shapes(rng):
        s0 = (rng.randint(1, 5), rng.randint(1, 5))
        k = rng.choice([1, 2, 3, 4, 5])
        v = rng.choice([(1, 0), (0, 1), (2, 0)])
        return [s0, (k, s0[1]), (s0[0], k)], (complex(*v),), {}
    ops.append(Op("matmul_dag[out]", 3, lambda a, b, o, v: o + v * (a @ b.conj().T),
                  mmdout_shapes, out=False,
                  getter=lambda l, r, o, v: D.matmul_dag(l, r, v, o),
                  combos=[("Dense", "CSR", "Dense"), ("Dense", "Dense", "Dense")],
                  no_lookup=True))
    ops.append(Op("kron_transpose", 2, lambda a, b: np.kron(a.T, b), kron_shapes))

    ops.append(Op("trace", 1, lambda a: np.trace(a), lambda rng: ([sq_shape(rng)], (), {}),
                  out=False, scalar=True))

    def tok_shapes(rng):
        n = rng.randint(1, 4)
        return [(n * n, 1)], (), {}
    ops.append(Op("trace_oper_ket", 1,
                  lambda a: np.trace(a.reshape(int(round(a.shape[0] ** .5)), -1)),
                  tok_shapes, out=False, scalar=True))

    def reshape_shapes(rng):
        s = any_shape(rng)
        n = s[0] * s[1]
        divs = [d for d in range(1, n + 1) if n % d == 0]
        r = rng.choice(divs)
        return [s], (r, n // r), {}
    def reshape_more(rng, shapes, extra):
        # every factorisation of the element count: narrower, wider multiple,
        # wider non-multiple and coprime column counts
        n = shapes[0][0] * shapes[0][1]
        return [(r, n // r) for r in range(1, n + 1) if n % r == 0 and (r, n // r) != tuple(extra)]
    ops.append(Op("reshape", 1, lambda a, r, c: a.reshape(r, c), reshape_shapes,
                  more=reshape_more, weight=3))
    ops.append(Op("column_stack", 1, lambda a: a.reshape(-1, 1, order="F"), un(None), weight=2))

    def split_shapes(rng):
        return [any_shape(rng)], (), {"copy": rng.random() < 0.5}
    ops.append(Op("split_columns", 1, lambda a, copy=True: a, split_shapes, out=False, weight=2))

    def unstack_shapes(rng):
        r, c = rng.randint(1, 5), rng.randint(1, 5)
        return [(r * c, 1)], (r,), {}
    def unstack_more(rng, shapes, extra):
        n = shapes[0][0]
        return [(r,) for r in range(1, n + 1) if n % r == 0 and r != extra[0]]
    ops.append(Op("column_unstack", 1, lambda a, r: a.reshape(r, -1, order="F"),
                  unstack_shapes, more=unstack_more, weight=2))

    def pow_shapes(rng):
        return [sq_shape(rng)], (rng.choice([0, 1, 2, 3]),), {}
    ops.append(Op("pow", 1, lambda a, n: np.linalg.matrix_power(a, n), pow_shapes,
                  more=lambda rng, shapes, extra: [(k,) for k in range(0, 5) if k != extra[0]]))

    def proj_shapes(rng):
        n = rng.randint(1, 6)
        return [rng.choice([(n, 1), (1, n)])], (), {}
    ops.append(Op("project", 1,
                  lambda a: (a @ a.conj().T) if a.shape[1] == 1 else (a.conj().T @ a),
                  proj_shapes))

    def ptrace_shapes(rng):
        dims = [rng.choice([1, 2, 2, 3]) for _ in range(rng.randint(1, 3))]
        N = int(np.prod(dims))
        k = rng.randint(0, len(dims))
        sel = sorted(rng.sample(range(len(dims)), k))
        if rng.random() < 0.3:
            rng.shuffle(sel)
        return [(N, N)], (list(dims), list(sel)), {}
    def ptrace_more(rng, shapes, extra):
        dims = extra[0]
        sels = []
        for k in range(len(dims) + 1):
            for sel in itertools.combinations(range(len(dims)), k):
                if list(sel) != sorted(extra[1]):
                    sels.append((list(dims), list(sel)))
        return sels
    ops.append(Op("ptrace", 1, lambda a, dims, sel: _ptrace_ref(a, dims, sel), ptrace_shapes,
                  more=ptrace_more, weight=2))

    def inner_shapes(rng):
        n = rng.randint(1, 6)
        left = rng.choice([(1, n), (n, 1)])
        sik = rng.random() < 0.5
        return [left, (n, 1)], (), {"scalar_is_ket": sik}

    def inner_ref(a, b, scalar_is_ket=False):
        if a.shape == (1, 1):
            l = a.conj() if scalar_is_ket else a
        elif a.shape[0] == 1:
            l = a
        else:
            l = a.conj().T
        return (l @ b)[0, 0]
    ops.append(Op("inner", 2, inner_ref, inner_shapes, out=False, scalar=True))

    def innerop_shapes(rng):
        n, m = rng.randint(1, 5), rng.randint(1, 5)
        left = rng.choice([(1, n), (n, 1)])
        sik = rng.random() < 0.5
        return [left, (n, m), (m, 1)], (), {"scalar_is_ket": sik}

    def innerop_ref(a, o, b, scalar_is_ket=False):
        # documented: scalar_is_ket matters only when left and right are 1x1
        if a.shape == (1, 1):
            l = a.conj() if (scalar_is_ket and b.shape == (1, 1)) else a
        elif a.shape[0] == 1:
            l = a
        else:
            l = a.conj().T
        return (l @ o @ b)[0, 0]
    ops.append(Op("inner_op", 3, innerop_ref, innerop_shapes, out=False, scalar=True))

    def expect_shapes(rng):
        n = rng.randint(1, 6)
        return [(n, n), rng.choice([(n, 1), (n, n)])], (), {}

    def expect_ref(o, s):
        if s.shape[1] == 1 and o.shape[0] != 1 or (s.shape == (1, 1)):
            return (s.conj().T @ o @ s)[0, 0]
        return np.trace(o @ s)
    ops.append(Op("expect", 2, expect_ref, expect_shapes, out=False, scalar=True))

    def esuper_shapes(rng):
        n = rng.randint(1, 3)
        return [(n * n, n * n), (n * n, 1)], (), {}

    def esuper_ref(o, s):
        n = int(round(s.shape[0] ** .5))
        return np.trace((o @ s).reshape(n, n, order="F"))
    ops.append(Op("expect_super", 2, esuper_ref, esuper_shapes, out=False, scalar=True))

    for nm, ref in [("isherm", lambda a: bool(a.shape[0] == a.shape[1] and np.array_equal(a, a.conj().T))),
                    ("isdiag", lambda a: bool(not np.any(_offdiag(a)))),
                    ("iszero", lambda a: bool(not np.any(a)))]:
        ops.append(Op(nm, 1, ref, un(None), out=False, scalar=True))

    def iseq_shapes(rng):
        s = any_shape(rng)
        return [s, s], (), {}
    ops.append(Op("isequal", 2, lambda a, b: bool(np.array_equal(a, b)), iseq_shapes,
                  out=False, scalar=True))

    def tidy_shapes(rng):
        return [any_shape(rng)], (rng.choice([0.5, 1.5, 2.5]), rng.random() < 0.5), {}

    def tidy_ref(a, tol, inplace):
        re = np.where(np.abs(a.real) < tol, 0, a.real)
        im = np.where(np.abs(a.imag) < tol, 0, a.imag)
        return re + 1j * im
    ops.append(Op("tidyup", 1, tidy_ref, tidy_shapes, out=False))

    # norms: max and one are exact on Gaussian integers with |z| in a table of
    # exactly representable... they involve sqrt, so compared as validation
    # with a tolerance (approx=True) and *exactly between formats*.
    for nm, ref in [("frobenius", lambda a: float(np.sqrt(np.sum(np.abs(a) ** 2)))),
                    ("max", lambda a: float(np.max(np.abs(a))) if a.size else 0.0),
                    ("one", lambda a: float(np.max(np.sum(np.abs(a), axis=0))))]:
        ops.append(Op("norm." + nm, 1, ref, un(None), out=False, scalar=True,
                      getter=getattr(norm, nm), approx=True))
    ops.append(Op("norm.l2", 1, lambda a: float(np.sqrt(np.sum(np.abs(a) ** 2))),
                  lambda rng: ([gen_shape(rng, rng.choice(["ket", "bra", "1x1"]))], (), {}),
                  out=False, scalar=True, getter=norm.l2, approx=True))

    def pdims_shapes(rng):
        dims = [rng.choice([1, 2, 2, 3]) for _ in range(rng.randint(1, 3))]
        N = int(np.prod(dims))
        order = list(range(len(dims)))
        rng.shuffle(order)
        sh = rng.choice([(N, N), (N, 1), (1, N)])
        return [sh], (list(dims), order), {}
    def pdims_more(rng, shapes, extra):
        dims = extra[0]
        return [(list(dims), list(o)) for o in itertools.permutations(range(len(dims)))
                if list(o) != list(extra[1])]
    ops.append(Op("permute.dimensions", 1, _perm_dims_ref, pdims_shapes,
                  getter=permute.dimensions, more=pdims_more, weight=2))

    def pind_shapes(rng):
        s = any_shape(rng)
        rp = list(range(s[0]))
        cp = list(range(s[1]))
        rng.shuffle(rp)
        rng.shuffle(cp)
        which = rng.choice(["both", "row", "col"])
        return [s], (rp if which != "col" else None, cp if which != "row" else None), {}

    def pind_ref(a, rp, cp):
        out = np.zeros_like(a)
        rp = list(range(a.shape[0])) if rp is None else rp
        cp = list(range(a.shape[1])) if cp is None else cp
        for i in range(a.shape[0]):
            for j in range(a.shape[1]):
                out[rp[i], cp[j]] = a[i, j]
        return out
    def pind_more(rng, shapes, extra):
        out = []
        for _ in range(3):
            out.append(pind_shapes(rng)[1]) if False else None
        s0 = shapes[0]
        for _ in range(3):
            rp, cp = list(range(s0[0])), list(range(s0[1]))
            rng.shuffle(rp)
            rng.shuffle(cp)
            out.append(rng.choice([(rp, cp), (rp, None), (None, cp)]))
        return out
    ops.append(Op("permute.indices", 1, pind_ref, pind_shapes, getter=permute.indices,
                  more=pind_more, weight=2))

    # matmul with a caller-supplied `out` (either memory order): out += scale*l@r
    def mmout_shapes(rng):
        s0 = any_shape(rng)
        k = rng.choice([1, 2, 3, 4])
        v = rng.choice([(1, 0), (1, 0), (0, 1), (2, 0), (-1, 1)])
        return [s0, (s0[1], k), (s0[0], k)], (complex(*v),), {}
    ops.append(Op("matmul[out]", 3, lambda a, b, o, v: o + v * (a @ b), mmout_shapes, out=False,
                  getter=lambda l, r, o, v: D.matmul(l, r, v, o),
                  combos=[("Dense", "Dense", "Dense"), ("CSR", "Dense", "Dense"),
                          ("Dia", "Dense", "Dense")], no_lookup=True, weight=2))
    for o in ops:
        if o.getter is None:
            o.getter = getattr(D, o.name)
    return ops


def _offdiag(a):
    b = a.copy()
    for k in range(min(a.shape)):
        b[k, k] = 0
    return b


TYPES = ["Dense", "CSR", "Dia"]


def bad_shapes_for(op, shapes, extra, rng):
    """Return operand shapes that do NOT fit the operation (or None)."""
    nm = op.name
    s = [tuple(x) for x in shapes]
    if nm in ("add", "sub", "multiply"):
        t = list(s[1])
        t[rng.randrange(2)] += 1
        return [s[0], tuple(t)], extra
    if nm == "matmul":
        return [s[0], (s[0][1] + 1, s[1][1])], extra
    if nm == "matmul_dag":
        return [s[0], (s[1][0], s[0][1] + 1)], extra
    if nm in ("trace", "pow"):
        return [(s[0][0], s[0][0] + 1)], extra
    if nm == "trace_oper_ket":
        return [(s[0][0] + 1 if s[0][0] not in (3, 8) else 5, 1)], extra
    if nm == "reshape":
        return s, (extra[0] + 1, extra[1])
    if nm == "column_unstack":
        return [(s[0][0], 2)], extra
    if nm == "project":
        return [(2, 3)], extra
    if nm == "ptrace":
        return [(s[0][0] + 1, s[0][1] + 1)], extra
    if nm == "inner":
        if s[1][0] < 2:
            return None
        return [s[0], (s[1][0] - 1, 1)], extra
    if nm == "inner_op":
        return [s[0], (s[1][0], s[1][1] + 1), s[2]], extra
    if nm == "expect":
        return [s[0], (s[1][0] + 1, s[1][1])], extra
    if nm == "expect_super":
        return [s[0], (s[1][0] + 1, 1)], extra
    if nm == "permute.dimensions":
        return [tuple(v + 1 if v > 1 or s[0] == (1, 1) else v for v in s[0])], extra
    return None


def result_to_array(D, res):
    if isinstance(res, D.Data):
        return res.to_array()
    if isinstance(res, list) and res and isinstance(res[0], D.Data):
        return np.hstack([x.to_array() for x in res])
    return res


def run_op_case(D, op, arrays, reps, extra, kw, out_t, rng, how):
    """Evaluate op on the given representations.  how: 'call' (dispatcher
    call with dtype=) or 'lookup' (op[types] entry).  Returns (kind, value)."""
    args = [make_repr(D, a, rng, rep) for a, rep in zip(arrays, reps)]
    raws = [raw_of(D, x) for x in args]
    types = [getattr(D, rep[0]) for rep in reps]
    journal({"op": op.name, "operands": raws, "extra": _js(extra), "kw": kw,
             "out": out_t, "how": how})
    if op.no_lookup:
        how = "call"
    try:
        if how == "lookup":
            key = tuple(types) + ((getattr(D, out_t),) if (op.out and out_t) else ())
            f = op.getter[key]
            res = f(*args, *extra, **kw)
        else:
            if op.out and out_t:
                res = op.getter(*args, *extra, dtype=getattr(D, out_t), **kw)
            else:
                res = op.getter(*args, *extra, **kw)
    except Exception as e:      # noqa
        return ("raise", type(e).__name__ + ": " + str(e)[:120], raws, args, how)
    return ("ok", res, raws, args, how)


def canon_scalar(v):
    if isinstance(v, (bool, np.bool_)):
        return bool(v)
    v = complex(v)
    return [v.real, v.imag]


def oracle(ctx, D, budget_cases, rng, report=True, only=None, tag=0):
    """The property itself on real qutip objects.  Returns number of checks."""
    ops = build_ops(D)
    if only:
        ops = [o for o in ops if o.name in only]
    n = 0
    dist = ctx.cov.setdefault("input_distribution", {})
    dshape = dist.setdefault("oracle_shape", {})
    dop = dist.setdefault("oracle_op", {})
    wops = [o for o in ops for _ in range(o.weight)]
    for it in range(budget_cases):
        op = wops[it % len(wops)]
        shapes, extra, kw = op.shapes(rng)
        arrays = [gen_matrix(rng, s, rng.choice(DENSITIES)) for s in shapes]
        if op.name == "isequal" and rng.random() < 0.5:
            arrays[1] = arrays[0].copy()
        dop[op.name] = dop.get(op.name, 0) + 1
        for s in shapes:
            k = "%dx%d" % tuple(s)
            dshape[k] = dshape.get(k, 0) + 1
        combos = op.combos or list(itertools.product(TYPES, repeat=op.nin))
        outs = [None] + (TYPES if op.out else [])

        def check(extra_, all_outs):
            nchk = 0
            try:
                ref = op.ref(*arrays, *extra_, **kw)
            except Exception:   # noqa  reference itself undefined -> skip
                return 0
            for combo in combos:
                reps = [pick_rep(rng, t) for t in combo]
                for out_t in (outs if all_outs else [rng.choice(outs)]):
                    how = rng.choice(["call", "lookup"])
                    kind, res, raws, args, how = run_op_case(D, op, arrays, reps, extra_, kw,
                                                             out_t, rng, how)
                    nchk += 1
                    ctx.count_case(("oracle", op.name, combo, out_t, it, tag, repr(extra_)),
                                   nontrivial=any(a.size > 1 and np.any(a) for a in arrays))
                    desc = {"op": op.name, "operands": raws, "extra": _js(extra_), "kw": kw,
                            "out": out_t, "how": how, "expected": _js_ref(ref)}
                    if kind == "raise":
                        if report:
                            dg = diagnose(D, op, combo, "raises", res, None, ref, arrays, args,
                                          extra_, kw)
                            site, sig = dg or ("oracle:" + op.name,
                                               ["raises", list(combo), out_t, res.split(":")[0]])
                            ctx.violation(
                                site, sig,
                                "%s[%s -> %s] raises %s on well-shaped operands" % (
                                    op.name, ",".join(combo), out_t, res), desc)
                        continue
                    bad = compare_result(D, op, res, ref, out_t, args, arrays, extra_, kw)
                    if bad and report:
                        desc["got"] = _js_ref(result_to_array(D, res))
                        dg = diagnose(D, op, combo, bad[0], bad[1], res, ref, arrays, args,
                                      extra_, kw)
                        site, sig = dg or ("oracle:" + op.name, [bad[0], list(combo), out_t])
                        ctx.violation(site, sig,
                                      "%s[%s -> %s]: %s" % (op.name, ",".join(combo), out_t, bad[1]),
                                      desc)
                    if len(ctx.cov["samples"]) < 3 and it > 5:
                        ctx.sample({"oracle_case": {"op": op.name, "types": list(combo),
                                                    "out": out_t, "operands": raws,
                                                    "expected": _js_ref(ref)}})
            return nchk

        n += check(extra, True)
        if op.more:
            for extra2 in op.more(rng, shapes, extra)[:12]:
                n += check(tuple(extra2), False)
                dist["oracle_more_args"] = dist.get("oracle_more_args", 0) + 1
        # approx ops: all formats must agree with each other *exactly*? No:
        # different summation orders are legitimate; validated with tolerance.
        # shape-mismatch stream
        if rng.random() < 0.5:
            bs = bad_shapes_for(op, shapes, extra, rng)
            if bs is not None:
                bshapes, bextra = bs
                barrays = [gen_matrix(rng, s, rng.choice(["sparse", "dense"])) for s in bshapes]
                for combo in combos:
                    reps = [pick_rep(rng, t) for t in combo]
                    out_t = rng.choice(outs)
                    how = rng.choice(["call", "lookup"])
                    kind, res, raws, _, how = run_op_case(D, op, barrays, reps, bextra, kw, out_t,
                                                          rng, how)
                    n += 1
                    ctx.count_case(("oracle-malformed", op.name, combo, out_t, it, tag))
                    dist["oracle_malformed"] = dist.get("oracle_malformed", 0) + 1
                    if kind != "raise" and report:
                        dg = diagnose(D, op, combo, "accepted", "", res, None, barrays, None, bextra, kw)
                        site, sig = dg or ("oracle-guard:" + op.name, ["accepted", list(combo), out_t])
                        ctx.violation(
                            site, sig,
                            "%s[%s -> %s] computed on operands whose shapes do not fit: %s" % (
                                op.name, ",".join(combo), out_t, [tuple(s) for s in bshapes]),
                            {"op": op.name, "operands": raws, "extra": _js(bextra), "kw": kw,
                             "out": out_t, "how": how, "malformed": True})
    return n


def _js(x):
    if isinstance(x, (list, tuple)):
        return [_js(v) for v in x]
    if isinstance(x, complex):
        return {"c": [x.real, x.imag]}
    if isinstance(x, (np.integer,)):
        return int(x)
    return x


def _unjs(x):
    if isinstance(x, dict) and "c" in x:
        return complex(*x["c"])
    if isinstance(x, list):
        return [_unjs(v) for v in x]
    return x


def _js_ref(ref):
    if isinstance(ref, np.ndarray):
        if exact_int(ref):
            return enc(ref)
        return [[[float(x.real), float(x.imag)] for x in row] for row in ref]
    if isinstance(ref, (bool, np.bool_)):
        return bool(ref)
    v = complex(ref)
    return [v.real, v.imag]


def compare_result(D, op, res, ref, out_t, args, arrays, extra, kw):
    """None if the result is right, else (signature, message)."""
    if op.name == "tidyup":
        # returns a matrix of the input type; inplace=True must return the
        # (modified) argument, inplace=False must leave the argument alone
        got = res.to_array()
        if not np.array_equal(got, ref):
            return ("wrong-entries" + ("-inplace" if extra[1] else "-copy"),
                    "tidyup(tol=%s, inplace=%s) result differs from the element-wise rule" % extra)
        if not extra[1] and not np.array_equal(args[0].to_array(), arrays[0]):
            return ("input-modified", "tidyup(inplace=False) modified its argument")
        return None
    if op.name == "split_columns":
        if not isinstance(res, list) or len(res) != ref.shape[1]:
            return ("wrong-shape", "split_columns returned %r pieces" % (
                len(res) if isinstance(res, list) else type(res),))
        for k, x in enumerate(res):
            if not isinstance(x, D.Data) or x.shape != (ref.shape[0], 1) \
                    or not np.array_equal(x.to_array(), ref[:, k:k + 1]):
                return ("wrong-entries", "column %d differs" % k)
        if not np.array_equal(args[0].to_array(), arrays[0]):
            return ("input-modified", "split_columns modified its argument")
        return None
    if op.name in ("matmul[out]", "matmul_dag[out]"):
        got = res.to_array() if isinstance(res, D.Data) else None
        if got is None or got.shape != ref.shape or not np.array_equal(got, ref):
            return ("wrong-entries", "matmul(l, r, scale, out) returned something else than "
                                     "out + scale*l@r")
        # matmul_dag_dense has no documented in-place contract (with an `out`
        # of the other memory order it returns result + out in a new matrix
        # and leaves `out` alone); the kernels documented as "out := ..." must
        # update the caller's matrix
        documented = not (op.name == "matmul_dag[out]" and isinstance(args[1], D.Dense))
        if documented and not np.array_equal(args[2].to_array(), ref):
            return ("out-not-updated", "the caller's `out` does not hold the result")
        return None
    if op.scalar:
        if isinstance(ref, (bool, np.bool_)):
            if bool(res) != bool(ref):
                return ("wrong-bool", "returned %r, matrix says %r" % (bool(res), bool(ref)))
            return None
        if op.approx:
            if abs(complex(res) - complex(ref)) > 1e-12 * (1 + abs(complex(ref))):
                return ("wrong-scalar", "returned %r, expected %r" % (res, ref))
            return None
        if complex(res) != complex(ref):
            return ("wrong-scalar", "returned %r, expected %r" % (res, ref))
        return None
    if not isinstance(res, D.Data):
        return ("not-data", "result is %r" % type(res))
    if out_t and type(res).__name__ != out_t:
        return ("wrong-output-type", "asked for %s, got %s" % (out_t, type(res).__name__))
    got = res.to_array()
    if got.shape != ref.shape:
        return ("wrong-shape", "shape %r, expected %r" % (got.shape, ref.shape))
    if not np.array_equal(got, ref):
        k = np.argwhere(got != ref)[0]
        return ("wrong-entries", "entry %s is %r, expected %r" % (
            tuple(int(v) for v in k), got[tuple(k)], ref[tuple(k)]))
    # the raw structure must denote the same matrix through SciPy/NumPy too
    try:
        if isinstance(res, D.Dense):
            alt = np.array(res.as_ndarray())
        else:
            alt = res.as_scipy().toarray()
        if not np.array_equal(alt, ref):
            return ("container-differs", "as_scipy()/as_ndarray() view differs from to_array()")
    except Exception as e:    # noqa
        return ("container-raises", "as_scipy()/as_ndarray() raised %r" % (e,))
    return None


# ------------------------------------------------- diagnosis of known patterns
def model_isequal_dia(a, b):
    """The loop of properties.pyx::isequal_dia on cleaned operands (sorted,
    distinct offsets, zero outside the matrix), transcribed: the walk stops as
    soon as one operand has no diagonal left.  Same function as
    Model/C01.v::isequal_dia_walk."""
    def diags(m):
        r, c = m.shape
        out = []
        for o in range(-(r - 1), c):
            d = [m[j - o, j] if 0 <= j - o < r else 0 for j in range(c)]
            out.append((o, d))
        return out

    def stored(m):
        # any superset of the non-zero diagonals gives the same answer as long
        # as it is what the operand stores; the harness passes stored offsets
        return m
    A, B = a, b
    ia = ib = 0
    while ia < len(A) and ib < len(B):
        if A[ia][0] == B[ib][0]:
            if list(A[ia][1]) != list(B[ib][1]):
                return False
            ia += 1
            ib += 1
        elif A[ia][0] <= B[ib][0]:
            if any(v != 0 for v in A[ia][1]):
                return False
            ia += 1
        else:
            if any(v != 0 for v in B[ib][1]):
                return False
            ib += 1
    return True


def cleaned_diags(D, x):
    """(offset, in-range-masked row) list of a Dia operand after clean_dia."""
    y = D.dia.clean_dia(x) if hasattr(D, "dia") else x
    s = y.as_scipy()
    r, c = y.shape
    out = []
    for k, o in enumerate(s.offsets):
        out.append((int(o), [complex(s.data[k, j]) for j in range(c)]))
    return out


def diagnose(D, op, combo, symptom, msg, res, ref, arrays, args, extra, kw):
    """Map a failure to the (site, signature) of a precisely characterised
    defect, or None.  Each branch re-derives the wrong answer from a model of
    the defective code, so a *different* wrong answer at the same place is not
    absorbed."""
    nm = op.name
    combo = tuple(combo)
    try:
        if nm == "tidyup" and combo == ("Dense",) and not extra[1] \
                and symptom == "wrong-entries-copy":
            if np.array_equal(res.to_array(), arrays[0]) and \
                    np.array_equal(args[0].to_array(), ref):
                return ("tidyup_dense.inplace_false", "copy-untouched-argument-modified")
        if nm == "isequal" and combo == ("Dia", "Dia") and symptom == "wrong-bool" \
                and bool(res) is True:
            import qutip.core.data.dia as _dia
            ca = cleaned_diags(_DiaNS(D, _dia), args[0])
            cb = cleaned_diags(_DiaNS(D, _dia), args[1])
            if model_isequal_dia(ca, cb) is True:
                return ("isequal_dia.trailing_diagonals", "true-on-unequal")
        if nm == "matmul_dag" and symptom == "raises" and combo == ("Dia", "Dia") \
                and "matmul_dia() takes at most 3 positional arguments" in msg:
            return ("matmul_dag_data.dia_dia", "TypeError")
        if nm == "matmul_outer" and symptom == "wrong-entries" and extra[0] != 1:
            if np.array_equal(res.to_array(), arrays[0] @ arrays[1]):
                return ("matmul_outer.scale", "scale-ignored")
        if nm == "matmul[out]" and combo[0] == "CSR" and symptom in ("wrong-entries",
                                                                     "out-not-updated"):
            if args[1].fortran and not args[2].fortran and min(ref.shape) > 1:
                wrong = ref.ravel(order="F").reshape(ref.shape)
                if np.array_equal(args[2].to_array(), wrong):
                    return ("matmul_csr_dense_dense.out_order", "fortran-buffer-copied-into-c-out")
        if nm == "matmul_dag[out]" and combo[1] == "CSR" and symptom in ("wrong-entries",
                                                                         "out-not-updated"):
            if args[0].fortran and not args[2].fortran and min(ref.shape) > 1:
                return ("matmul_csr_dense_dense.out_order", "fortran-buffer-copied-into-c-out")
        if nm == "inner" and symptom == "accepted":
            l, r = arrays
            if (l.shape[0] == 1 or l.shape[1] == 1) and r.shape[1] == 1 \
                    and max(l.shape) != r.shape[0]:
                return ("inner._check_shape_inner", "length-mismatch-accepted")
        if nm == "permute.dimensions" and symptom == "accepted":
            if arrays[0].size != int(np.prod(extra[0])) ** (1 if 1 in arrays[0].shape else 2) \
                    or arrays[0].shape == (1, 1):
                return ("permute.dimensions.size_guard", "size-mismatch-accepted")
        if nm == "ptrace" and symptom == "accepted" and combo == ("Dia",) \
                and len(extra[1]) == len(extra[0]):
            return ("ptrace_dia.full_selection", "shape-not-validated")
        if nm == "isdiag" and combo == ("CSR",) and symptom == "wrong-bool" and res is not None \
                and bool(res) is False:
            s = args[0].as_scipy()
            if model_isdiag_csr(s.indptr, s.indices) is False:
                return ("isdiag_csr.structural_zero", "false-on-diagonal")
        if nm == "inner_op" and symptom == "wrong-scalar" and kw.get("scalar_is_ket") \
                and arrays[0].shape == (1, 1) and arrays[2].shape != (1, 1) \
                and combo != ("CSR", "CSR", "CSR"):
            if complex(res) == complex((arrays[0].conj() @ arrays[1] @ arrays[2])[0, 0]):
                return ("inner_op.scalar_is_ket_1xN", "conjugates-1x1-bra")
        if nm == "expect" and symptom == "wrong-scalar" and arrays[1].shape == (1, 1) \
                and combo in (("Dense", "CSR"), ("Dense", "Dia"), ("CSR", "Dia"), ("Dia", "CSR")):
            o, s_ = arrays
            if complex(res) == complex(s_[0, 0] * o[0, 0] * s_[0, 0]):
                return ("expect_data.scalar_ket", "no-conjugate-1x1-state")
        if nm == "expect_super" and symptom == "wrong-scalar" and combo == ("Dia", "Dia"):
            if complex(res) == model_expect_super_dia(args[0], args[1]):
                return ("expect_super_dia.row_range", "reads-out-of-range-slot")
    except Exception:     # noqa  (diagnosis must never hide a finding)
        return None
    return None


class _DiaNS:
    def __init__(self, D, dia):
        self.dia = dia


def model_isdiag_csr(indptr, indices):
    """properties.pyx::isdiag_csr transcribed: looks at the structure only."""
    for row in range(len(indptr) - 1):
        n = indptr[row + 1] - indptr[row]
        if n > 1:
            return False
        if n == 1 and indices[indptr[row]] != row:
            return False
    return True


def model_expect_super_dia(op, state):
    """expect.pyx::expect_super_dia transcribed (no test that the row
    -op.offset - state.offset lies inside the matrix)."""
    so, ss = op.as_scipy(), state.as_scipy()
    N = state.shape[0]
    stride = int(np.sqrt(N)) + 1
    out = 0
    for i, oo in enumerate(so.offsets):
        for k, os_ in enumerate(ss.offsets):
            row = -int(oo) - int(os_)
            if -int(os_) < op.shape[1] and row >= 0 and row % stride == 0:
                out += ss.data[k, 0] * so.data[i, -int(os_)]
    return complex(out)


# ============================================================ correspondence
HEADER = ("From Coq Require Import List ZArith Bool.\nImport ListNotations.\n"
          "From QV Require Import Model.C01.\nOpen Scope Z_scope.\n")


def cG(v):
    return "(%s, %s)" % (cz(v[0]), cz(v[1]))


def coq_dense(r):
    return "(mkD %s %s %s %s)" % (cnat(r["shape"][0]), cnat(r["shape"][1]),
                                  cbool(r["fortran"]), clist(r["data"], cG))


def coq_csr(r):
    return "(G_csr_of_raw %s %s %s %s %s)" % (
        cnat(r["shape"][0]), cnat(r["shape"][1]), clist(r["indptr"], cnat),
        clist(r["indices"], cnat), clist(r["data"], cG))


def coq_dia(r):
    return "(mkA %s %s %s)" % (
        cnat(r["shape"][0]), cnat(r["shape"][1]),
        clist(list(zip(r["offsets"], r["data"])),
              lambda p: "(%s, %s)" % (cz(p[0]), clist(p[1], cG))))


def coq_of(r):
    return {"Dense": coq_dense, "CSR": coq_csr, "Dia": coq_dia}[r["type"]](r)


def canon_raw(r):
    """raw dict -> comparable tuple (the memory-order flag is compared for every
    shape, single rows and columns included: kernels branch on it)."""
    if r is None:
        return None
    if r["type"] == "Dense":
        nr, nc = r["shape"]
        return ("Dense", nr, nc, bool(r["fortran"]), [tuple(v) for v in r["data"]])
    if r["type"] == "CSR":
        return ("CSR", r["shape"][0], r["shape"][1], list(r["indptr"]), list(r["indices"]),
                [tuple(v) for v in r["data"]])
    return ("Dia", r["shape"][0], r["shape"][1],
            [(o, [tuple(v) for v in row]) for o, row in zip(r["offsets"], r["data"])])


def canon_model(kind, v):
    """parsed Coq value -> same comparable tuple."""
    if kind.startswith("opt"):
        if v is None:
            return None
        assert v[0] == "Some", v
        return canon_model(kind[3:], v[1])
    if kind == "G":
        return tuple(v)
    if kind == "bool":
        return bool(v)
    if kind == "D":
        nr, nc, f, data = v
        return ("Dense", nr, nc, bool(f), [tuple(x) for x in data])
    if kind == "C":
        nr, nc, ip, ix, data = v
        return ("CSR", nr, nc, list(ip), list(ix), [tuple(x) for x in data])
    if kind == "A":
        nr, nc, diags = v
        diags = diags or []
        return ("Dia", nr, nc, [(o, [tuple(x) for x in row]) for o, row in diags])
    # Coq prints ((a, b, c, d), (e, ...)) as (a, b, c, d, (e, ...))
    if kind == "DD":
        return (canon_model("D", v[:4]), canon_model("D", v[4]))
    if kind == "CC":
        return (canon_model("C", v[:5]), canon_model("C", v[5]))
    raise ValueError(kind)


def gscalar(v):
    v = complex(v)
    return (int(v.real), int(v.imag))


def build_kernels(D):
    """(name, operand types, extra generator, real call, Coq expression,
    result kind).  real(args, extra) returns a raw/canonical value or raises
    (-> None)."""
    import importlib
    import qutip

    def _m(n):
        return importlib.import_module("qutip.core.data." + n)
    _csr, _dense, _dia = _m("csr"), _m("dense"), _m("dia")
    _adj, _mul, _add, _tr = _m("adjoint"), _m("mul"), _m("add"), _m("trace")
    _prop, _tidy = _m("properties"), _m("tidyup")
    K = []

    def scal(rng):
        return (rng.choice([(1, 0), (1, 0), (0, 0), (-1, 0)] + [gz(rng, 3)] * 4),)

    def raw(x):
        return canon_raw(raw_of(D, x))

    K.append(("csr.from_dense", ["Dense"], None,
              lambda a, e: raw(_csr.from_dense(a[0])),
              lambda c, e: "vC (G_csr_from_dense %s)" % c[0], "C"))
    for f in (False, True):
        K.append(("dense.from_csr[fortran=%s]" % f, ["CSR"], None,
                  (lambda f: lambda a, e: raw(_dense.from_csr(a[0], f)))(f),
                  (lambda f: lambda c, e: "vD (G_dense_from_csr %s %s)" % (cbool(f), c[0]))(f), "D"))
    for nm, fn in [("transpose", _adj.transpose_csr), ("adjoint", _adj.adjoint_csr),
                   ("conj", _adj.conj_csr), ("neg", _mul.neg_csr)]:
        K.append(("%s_csr" % nm, ["CSR"], None,
                  (lambda fn: lambda a, e: raw(fn(a[0])))(fn),
                  (lambda nm: lambda c, e: "vC (G_%s_csr %s)" % (nm, c[0]))(nm), "C"))
    for nm, fn in [("transpose", _adj.transpose_dense), ("adjoint", _adj.adjoint_dense),
                   ("conj", _adj.conj_dense), ("neg", _mul.neg_dense)]:
        K.append(("%s_dense" % nm, ["Dense"], None,
                  (lambda fn: lambda a, e: raw(fn(a[0])))(fn),
                  (lambda nm: lambda c, e: "vD (G_%s_dense %s)" % (nm, c[0]))(nm), "D"))
    K.append(("mul_csr", ["CSR"], scal,
              lambda a, e: raw(_mul.mul_csr(a[0], complex(*e[0]))),
              lambda c, e: "vC (G_mul_csr %s %s)" % (c[0], cG(e[0])), "C"))
    K.append(("mul_dense", ["Dense"], scal,
              lambda a, e: raw(_mul.mul_dense(a[0], complex(*e[0]))),
              lambda c, e: "vD (G_mul_dense %s %s)" % (c[0], cG(e[0])), "D"))
    K.append(("Dense.reorder", ["Dense"], None,
              lambda a, e: raw(a[0].reorder()),
              lambda c, e: "vD (G_reorder_dense %s)" % c[0], "D"))
    K.append(("add_dense", ["Dense", "Dense"], scal,
              lambda a, e: raw(_add.add_dense(a[0], a[1], complex(*e[0]))),
              lambda c, e: "vO vD (G_add_dense %s %s %s)" % (c[0], c[1], cG(e[0])), "optD"))
    def real_iadd(a, e):
        x = a[0].copy()
        out = _add.iadd_dense(x, a[1], complex(*e[0]))
        if out is not x:
            raise AssertionError("iadd_dense did not return its left operand")
        return raw(x)
    K.append(("iadd_dense", ["Dense", "Dense"], scal, real_iadd,
              lambda c, e: "vO vD (G_iadd_dense %s %s %s)" % (c[0], c[1], cG(e[0])), "optD"))
    K.append(("sub_dense", ["Dense", "Dense"], None,
              lambda a, e: raw(_add.sub_dense(a[0], a[1])),
              lambda c, e: "vO vD (G_add_dense %s %s (-1, 0))" % (c[0], c[1]), "optD"))
    K.append(("add_csr", ["CSR", "CSR"], scal,
              lambda a, e: raw(_add.add_csr(a[0], a[1], complex(*e[0]))),
              lambda c, e: "vO vC (G_add_csr %s %s %s)" % (c[0], c[1], cG(e[0])), "optC"))
    K.append(("trace_csr", ["CSR"], None,
              lambda a, e: gscalar(_tr.trace_csr(a[0])),
              lambda c, e: "G_trace_csr %s" % c[0], "optG"))
    K.append(("trace_dense", ["Dense"], None,
              lambda a, e: gscalar(_tr.trace_dense(a[0])),
              lambda c, e: "G_trace_dense %s" % c[0], "optG"))
    K.append(("dense.from_dia", ["Dia"], None,
              lambda a, e: raw(_dense.from_dia(a[0])),
              lambda c, e: "vD (G_dense_from_dia %s)" % c[0], "D"))

    def dia_from_dense_noauto(a, e):
        with qutip.CoreOptions(auto_tidyup=False):
            return raw(_dia.from_dense(a[0]))
    K.append(("dia.from_dense[auto_tidyup=False]", ["Dense"], None, dia_from_dense_noauto,
              lambda c, e: "vA (G_dia_from_dense_full %s)" % c[0], "A"))
    K.append(("csr.from_dia", ["Dia"], None,
              lambda a, e: raw(_csr.from_dia(a[0])),
              lambda c, e: "vC (G_csr_from_dia %s)" % c[0], "C"))
    K.append(("isdiag_csr", ["CSR"], None,
              lambda a, e: bool(_prop.isdiag_csr(a[0])),
              lambda c, e: "G_isdiag_csr %s" % c[0], "bool"))

    _resh = _m("reshape")

    def target_shape(rng, shapes):
        """every divisibility relation between old and new column counts:
        all factorisations of the element count, and now and then a shape
        that does not fit"""
        n = shapes[0][0] * shapes[0][1]
        if rng.random() < 0.08:
            return (rng.randint(1, n + 1), rng.randint(1, n + 1))
        r = rng.choice([d for d in range(1, n + 1) if n % d == 0])
        return (r, n // r)
    target_shape.needs_shape = True
    K.append(("reshape_csr", ["CSR"], target_shape,
              lambda a, e: raw(_resh.reshape_csr(a[0].copy(), e[0], e[1])),
              lambda c, e: "vO vC (G_reshape_csr %s %s %s)" % (c[0], cnat(e[0]), cnat(e[1])), "optC"))
    K.append(("reshape_dense", ["Dense"], target_shape,
              lambda a, e: raw(_resh.reshape_dense(a[0], e[0], e[1])),
              lambda c, e: "vO vD (G_reshape_dense %s %s %s)" % (c[0], cnat(e[0]), cnat(e[1])), "optD"))
    K.append(("column_stack_csr", ["CSR"], None,
              lambda a, e: raw(_resh.column_stack_csr(a[0].copy())),
              lambda c, e: "vO vC (G_column_stack_csr %s)" % c[0], "optC"))
    K.append(("column_stack_dense", ["Dense"], None,
              lambda a, e: raw(_resh.column_stack_dense(a[0])),
              lambda c, e: "vD (G_column_stack_dense %s)" % c[0], "D"))

    _mm = _m("matmul")
    K.append(("matmul_csr", ["CSR", "CSR"], scal,
              lambda a, e: raw(_mm.matmul_csr(a[0], a[1], complex(*e[0]))),
              lambda c, e: "vO vC (G_matmul_csr %s %s %s)" % (c[0], c[1], cG(e[0])), "optC"))
    K.append(("matmul_csr_dense_dense", ["CSR", "Dense"], scal,
              lambda a, e: raw(_mm.matmul_csr_dense_dense(a[0], a[1], complex(*e[0]))),
              lambda c, e: "vO vD (G_matmul_csr_dense %s %s %s None)" % (c[0], c[1], cG(e[0])),
              "optD"))
    K.append(("matmul_csr_dense_dense[out]", ["CSR", "Dense", "Dense"], scal,
              lambda a, e: raw(_mm.matmul_csr_dense_dense(a[0], a[1], complex(*e[0]), a[2].copy())),
              lambda c, e: "vO vD (G_matmul_csr_dense %s %s %s (Some %s))" % (
                  c[0], c[1], cG(e[0]), c[2]), "optD"))
    K.append(("add_dia", ["Dia", "Dia"], scal,
              lambda a, e: raw(_add.add_dia(a[0], a[1], complex(*e[0]))),
              lambda c, e: "vO vA (G_add_dia %s %s %s)" % (c[0], c[1], cG(e[0])), "optA"))
    K.append(("clean_dia", ["Dia"], None,
              lambda a, e: raw(_dia.clean_dia(a[0])),
              lambda c, e: "vA (G_clean_dia %s)" % c[0], "A"))

    def tol1(rng):
        return (rng.choice([1, 2, 3]),)
    K.append(("tidyup_dia", ["Dia"], tol1,
              lambda a, e: raw(_tidy.tidyup_dia(a[0].copy(), e[0] - 0.5, True)),
              lambda c, e: "vA (G_tidyup_dia %s %s)" % (cz(e[0]), c[0]), "A"))
    K.append(("dia.from_csr", ["CSR"], None,
              lambda a, e: raw(_dia.from_csr(a[0])),
              lambda c, e: "vA (G_dia_from_csr %s)" % c[0], "A"))
    _inn, _exp = _m("inner"), _m("expect")

    def flag(rng):
        return (rng.random() < 0.5,)
    K.append(("inner_csr", ["CSR", "CSR"], flag,
              lambda a, e: gscalar(_inn.inner_csr(a[0], a[1], e[0])),
              lambda c, e: "G_inner_csr %s %s %s" % (c[0], c[1], cbool(e[0])), "optG"))
    K.append(("inner_op_csr", ["CSR", "CSR", "CSR"], flag,
              lambda a, e: gscalar(_inn.inner_op_csr(a[0], a[1], a[2], e[0])),
              lambda c, e: "G_inner_op_csr %s %s %s %s" % (c[0], c[1], c[2], cbool(e[0])), "optG"))
    K.append(("inner_op_data[csr]", ["CSR", "CSR", "CSR"], flag,
              lambda a, e: gscalar(_inn.inner_op_data(a[0], a[1], a[2], e[0])),
              lambda c, e: "G_inner_op_via_product %s %s %s %s" % (c[0], c[1], c[2], cbool(e[0])),
              "optG"))
    K.append(("expect_csr", ["CSR", "CSR"], None,
              lambda a, e: gscalar(_exp.expect_csr(a[0], a[1])),
              lambda c, e: "G_expect_csr %s %s" % (c[0], c[1]), "optG"))
    K.append(("expect_data[csr,ket]", ["CSR", "CSR"], None,
              lambda a, e: gscalar(_exp.expect_data(a[0], a[1])),
              lambda c, e: "G_expect_via_inner %s %s" % (c[0], c[1]), "optG"))
    K.append(("expect_super_csr", ["CSR", "CSR"], None,
              lambda a, e: gscalar(_exp.expect_super_csr(a[0], a[1])),
              lambda c, e: "G_expect_super_csr %s %s" % (c[0], c[1]), "optG"))
    K.append(("matmul_dia_dense_dense", ["Dia", "Dense"], scal,
              lambda a, e: raw(_mm.matmul_dia_dense_dense(a[0], a[1], complex(*e[0]))),
              lambda c, e: "vO vD (G_matmul_dia_dense %s %s %s None)" % (c[0], c[1], cG(e[0])),
              "optD"))
    K.append(("matmul_dia_dense_dense[out]", ["Dia", "Dense", "Dense"], scal,
              lambda a, e: raw(_mm.matmul_dia_dense_dense(a[0], a[1], complex(*e[0]), a[2].copy())),
              lambda c, e: "vO vD (G_matmul_dia_dense %s %s %s (Some %s))" % (
                  c[0], c[1], cG(e[0]), c[2]), "optD"))
    K.append(("matmul_dense_dia_dense", ["Dense", "Dia"], scal,
              lambda a, e: raw(_mm.matmul_dense_dia_dense(a[0], a[1], complex(*e[0]))),
              lambda c, e: "vO vD (G_matmul_dense_dia %s %s %s None)" % (c[0], c[1], cG(e[0])),
              "optD"))
    K.append(("matmul_dense_dia_dense[out]", ["Dense", "Dia", "Dense"], scal,
              lambda a, e: raw(_mm.matmul_dense_dia_dense(a[0], a[1], complex(*e[0]), a[2].copy())),
              lambda c, e: "vO vD (G_matmul_dense_dia %s %s %s (Some %s))" % (
                  c[0], c[1], cG(e[0]), c[2]), "optD"))
    K.append(("matmul_dia", ["Dia", "Dia"], scal,
              lambda a, e: raw(_mm.matmul_dia(a[0], a[1], complex(*e[0]))),
              lambda c, e: "vO vA (G_matmul_dia %s %s %s)" % (c[0], c[1], cG(e[0])), "optA"))
    _pow = _m("pow")

    def expo(rng):
        return (rng.choice([0, 1, 2, 3, 4, 5, 6, 7, 9]),)
    K.append(("pow_csr", ["CSR"], expo,
              lambda a, e: raw(_pow.pow_csr(a[0], e[0])),
              lambda c, e: "vO vC (G_pow_csr %s %s)" % (c[0], cnat(e[0])), "optC"))
    _kron = _m("kron")
    K.append(("kron_csr", ["CSR", "CSR"], None,
              lambda a, e: raw(_kron.kron_csr(a[0], a[1])),
              lambda c, e: "vC (G_kron_csr %s %s)" % (c[0], c[1]), "C"))

    def unstack_rows(rng, shapes):
        n = shapes[0][0]
        if rng.random() < 0.08:
            return (rng.randint(1, n + 1), rng.random() < 0.5)
        return (rng.choice([d for d in range(1, n + 1) if n % d == 0]), rng.random() < 0.5)
    unstack_rows.needs_shape = True
    K.append(("column_unstack_dense", ["Dense"], unstack_rows,
              lambda a, e: raw(_resh.column_unstack_dense(a[0].copy(), e[0], e[1])),
              lambda c, e: "vO vD (G_column_unstack_dense %s %s)" % (c[0], cnat(e[0])), "optD"))
    K.append(("column_unstack_csr", ["CSR"], unstack_rows,
              lambda a, e: raw(_resh.column_unstack_csr(a[0].copy(), e[0])),
              lambda c, e: "vO vC (G_column_unstack_csr %s %s)" % (c[0], cnat(e[0])), "optC"))

    def clean_raws(args):
        return [raw_of(D, _dia.clean_dia(x)) for x in args]
    K.append(("isequal_dia", ["Dia", "Dia"], None,
              lambda a, e: bool(_prop.isequal_dia(a[0], a[1])),
              lambda c, e: "G_isequal_dia %s %s" % (c[0], c[1]), "bool", clean_raws))

    def tol(rng):
        return (rng.choice([1, 2, 3]), rng.random() < 0.5)

    def real_tidy_dense(a, e):
        x = a[0].copy()
        out = _tidy.tidyup_dense(x, e[0] - 0.5, e[1])
        return (raw(out), raw(x))

    def real_tidy_csr(a, e):
        x = a[0].copy()
        out = _tidy.tidyup_csr(x, e[0] - 0.5, e[1])
        return (raw(out), raw(x))
    K.append(("tidyup_dense", ["Dense"], tol, real_tidy_dense,
              lambda c, e: "(fun p => (vD (fst p), vD (snd p))) (G_tidyup_dense %s %s %s)" % (
                  cz(e[0]), c[0], cbool(e[1])), "DD"))
    K.append(("tidyup_csr", ["CSR"], tol, real_tidy_csr,
              lambda c, e: "(fun p => (vC (fst p), vC (snd p))) (G_tidyup_csr %s %s %s)" % (
                  cz(e[0]), c[0], cbool(e[1])), "CC"))
    return K


def correspondence(ctx, D, rng, ncases):
    """Model (vm_compute) against the real kernels on the same raw inputs."""
    K = build_kernels(D)
    cases = []
    dist = ctx.cov.setdefault("input_distribution", {})
    dk = dist.setdefault("corr_kernel", {})
    dv = dist.setdefault("corr_variant", {})
    weight = {"add_csr": 6, "isequal_dia": 3, "reshape_csr": 6, "reshape_dense": 2,
              "column_stack_csr": 2, "column_unstack_dense": 4, "column_unstack_csr": 2,
              "column_stack_dense": 2, "kron_csr": 3, "pow_csr": 3, "dia.from_csr": 3, "add_dia": 6, "clean_dia": 2,
              "tidyup_dia": 2, "matmul_csr": 6,
              "matmul_csr_dense_dense": 3, "matmul_csr_dense_dense[out]": 4,
              "matmul_dia_dense_dense": 3, "matmul_dia_dense_dense[out]": 3,
              "matmul_dense_dia_dense": 3, "matmul_dense_dia_dense[out]": 3, "matmul_dia": 5,
              "inner_csr": 3, "inner_op_csr": 3, "inner_op_data[csr]": 2, "expect_csr": 4,
              "expect_data[csr,ket]": 2, "expect_super_csr": 3, "csr.from_dense": 2, "csr.from_dia": 2, "add_dense": 3, "iadd_dense": 4,
              "dia.from_dense[auto_tidyup=False]": 2}
    K = [k for k in K for _ in range(weight.get(k[0], 1))]
    for it in range(ncases):
        name, types, extra_gen, real, coqexpr, kind = K[it % len(K)][:6]
        prep = K[it % len(K)][6] if len(K[it % len(K)]) > 6 else None
        cls = rng.choice(SHAPE_CLASSES)
        if name == "pow_csr":
            cls = rng.choice(["1x1", "square", "square", "square", "tall"])
        if name.startswith("trace") or name == "isdiag_csr":
            cls = rng.choice(["1x1", "square", "square", "tall"])
        shape = gen_shape(rng, cls, big=not ctx.quick)
        shapes = [shape] * len(types)
        malformed = False
        if name == "kron_csr":
            shapes = [(rng.randint(1, 4), rng.randint(1, 4)), (rng.randint(1, 4), rng.randint(1, 4))]
        elif name in ("inner_csr", "inner_op_csr", "inner_op_data[csr]", "expect_csr",
                      "expect_data[csr,ket]", "expect_super_csr"):
            n_ = rng.choice([1, 1, 2, 3, 4, 5])
            bad = 1 if rng.random() < 0.08 else 0
            if name == "inner_csr":
                shapes = [rng.choice([(1, n_), (n_, 1)]), (n_ + bad, 1)]
            elif name.startswith("inner_op"):
                m_ = rng.choice([1, 2, 3, 4])
                shapes = [rng.choice([(1, n_), (n_, 1)]), (n_, m_), (m_ + bad, 1)]
            elif name == "expect_csr":
                shapes = [(n_, n_), rng.choice([(n_ + bad, 1), (n_ + bad, n_ + bad)])]
            elif name == "expect_data[csr,ket]":
                shapes = [(n_, n_), (n_ + bad, 1)]
            else:
                q = rng.choice([1, 2, 3])
                shapes = [(q * q, q * q), (q * q + bad, 1)]
            malformed = bool(bad)
        elif name.startswith("column_unstack"):
            r_, c_ = rng.randint(1, 5), rng.randint(1, 5)
            shapes = [(r_ * c_, 1) if rng.random() > 0.05 else (r_ * c_, 2)]
        elif name.startswith("matmul_csr") or name.startswith("matmul_dia") \
                or name.startswith("matmul_dense_dia"):
            k = rng.choice([1, 1, 2, 3, 4, 6])
            inner = shape[1] + (1 if rng.random() < 0.08 else 0)
            shapes = [shape, (inner, k), (shape[0] + (1 if rng.random() < 0.05 else 0), k)][:len(types)]
            malformed = inner != shape[1] or (len(types) == 3 and shapes[2][0] != shape[0])
        elif len(types) == 2 and rng.random() < 0.12:
            s2 = list(shape)
            s2[rng.randrange(2)] += 1
            shapes[1] = tuple(s2)
            malformed = True
        reps, args, raws = [], [], []
        same = name == "isequal_dia" and rng.random() < 0.5
        prev = None
        for t, s in zip(types, shapes):
            rep = rng.choice([r for r in REPRS if r[0] == t])
            a = gen_matrix(rng, s, rng.choice(DENSITIES))
            if same and prev is not None and prev.shape == a.shape:
                a = prev.copy()
            prev = a
            x = make_repr(D, a, rng, rep)
            reps.append(rep)
            args.append(x)
            raws.append(raw_of(D, x))
            dv["%s/%s" % rep] = dv.get("%s/%s" % rep, 0) + 1
        if extra_gen and getattr(extra_gen, "needs_shape", False):
            extra = extra_gen(rng, shapes)
        else:
            extra = extra_gen(rng) if extra_gen else ()
        journal({"kernel": name, "operands": raws, "extra": list(extra)})
        try:
            impl = real(args, extra)
        except ValueError as e:
            impl = None
        dk[name] = dk.get(name, 0) + 1
        if malformed:
            dist["corr_malformed"] = dist.get("corr_malformed", 0) + 1
        mraws = prep(args) if prep else raws
        cases.append({"kernel": name, "operands": raws, "extra": list(extra),
                      "impl": impl, "kind": kind,
                      "expr": coqexpr([coq_of(r) for r in mraws], extra)})
    try:
        vals = vlib.coq_eval_values("cases_C01", HEADER, [c["expr"] for c in cases], chunk=150)
    except RuntimeError as e:
        ctx.violation("corr:C01:model-eval", "coqc", "model evaluation failed",
                      {"log": str(e)[-3000:]}, found_input=False)
        return 0
    mism = 0
    for c, v in zip(cases, vals):
        model = canon_model(c["kind"], vlib.parse_coq_value(v))
        impl = c["impl"]
        if isinstance(impl, tuple) and c["kind"] in ("DD", "CC"):
            impl = tuple(impl)
        nontriv = any(len(r.get("data", [])) > 1 for r in c["operands"])
        ctx.count_case(("corr", c["kernel"], json.dumps(c["operands"]), c["extra"]),
                       nontrivial=nontriv)
        ctx.cov["traces_validated_against_impl"] += 1
        if _norm(model) != _norm(impl):
            mism += 1
            ctx.violation("corr:" + c["kernel"], "model-differs",
                          "kernel %s: raw result of the implementation differs from the "
                          "model" % c["kernel"],
                          {"kernel": c["kernel"], "operands": c["operands"],
                           "extra": c["extra"], "impl": impl, "model": model,
                           "coq": c["expr"]})
    if cases:
        ctx.sample({"corr_case": {k: cases[-1][k] for k in ("kernel", "operands", "extra", "impl")}})
    return mism


def _norm(x):
    """tuples/lists -> lists, recursively (JSON-like equality)."""
    if isinstance(x, (list, tuple)):
        return [_norm(v) for v in x]
    return x


# ================================================= dispatcher table validation
def type_ids(D):
    ids = {D.Data: 0, D.Dense: 1, D.CSR: 2, D.Dia: 3}
    for t in sorted(D.to.dtypes, key=lambda t: t.__name__):
        if t not in ids:
            ids[t] = len(ids)
    return ids


def conv_typing(D, c, ids):
    """(to, from) of what the dispatcher stored as a converter."""
    from qutip.core.data import convert as _cv
    if c is _cv.identity_converter:
        return (0, 0)
    if type(c).__name__ == "_partial_converter":
        return (ids[c.to], 0)
    return (ids[c.to], ids[c.from_])


def coq_conv(tf):
    return "{| c_to := %d; c_from := %d; c_funs := @nil (nat -> nat) |}" % tf


def dispatch_validation(ctx, D):
    """Walk every Dispatcher._lookup; constructed entries go through the
    verified checker entry_ok (vm_compute); direct entries are checked to be
    registered specialisations whose key fits the lookup key."""
    ids = type_ids(D)
    names = {v: k.__name__ for k, v in ids.items()}
    exprs, metas = [], []
    ndirect = nbad = 0
    for d in D.to.dispatchers:
        specs = d._specialisations
        for key, ent in d._lookup.items():
            n_in = d._n_inputs
            has_out = d.output and len(key) == d._n_dispatch
            meta = {"dispatcher": d.__name__, "key": [k.__name__ for k in key]}
            if hasattr(ent, "_converters"):
                convs = [conv_typing(D, c, ids) for c in ent._converters]
                in_convs = convs[:ent._n_inputs]
                outc = convs[-1] if ent._output else None
                spec_in = [c[0] for c in in_convs]
                spec_out = outc[1] if outc else None
                # which registered key does this chain target?
                cands = [k for k in specs
                         if [ids[t] for t in k[:n_in]] == spec_in
                         and (spec_out is None or ids[k[-1]] == spec_out)]
                meta.update({"convs": convs, "spec_in": spec_in, "spec_out": spec_out})
                if not cands or len(in_convs) != n_in or bool(ent._output) != bool(has_out):
                    nbad += 1
                    ctx.violation("dispatch-table:" + d.__name__,
                                  ["no-registered-base", meta["key"]],
                                  "constructed specialisation %s%s targets types %s -> %s for "
                                  "which no specialisation is registered" % (
                                      d.__name__, meta["key"], [names[t] for t in spec_in],
                                      names.get(spec_out)), meta)
                    continue
                e = ("{| e_in := %s; e_out := %s; e_convs := %s; e_outconv := %s; "
                     "e_base := fun _ : list nat => @None nat |}") % (
                    clist([ids[k] for k in key[:n_in]], str),
                    ("Some %d" % ids[key[-1]]) if has_out else "None",
                    clist(in_convs, coq_conv),
                    ("Some %s" % coq_conv(outc)) if outc else "None")
                exprs.append("entry_ok nat %s %s %s" % (
                    clist(spec_in, str), ("(Some %d)" % spec_out) if spec_out is not None else "None", e))
                metas.append(meta)
            else:
                ndirect += 1
                ok = False
                for k, f in specs.items():
                    if f is ent and all(k[i] is key[i] or k[i] is D.Data for i in range(n_in)) \
                            and (not has_out or k[-1] is key[-1]):
                        ok = True
                if not ok:
                    nbad += 1
                    ctx.violation("dispatch-table:" + d.__name__,
                                  ["direct-entry-mismatch", meta["key"]],
                                  "lookup entry %s%s is a bare function that is not a "
                                  "registered specialisation for these types" % (
                                      d.__name__, meta["key"]), meta)
                ctx.count_case(("dispatch-direct", d.__name__, tuple(meta["key"])), nontrivial=False)
    header = ("From Coq Require Import List Bool Arith.\nImport ListNotations.\n"
              "From QV Require Import Model.C01.\n")
    try:
        vals = vlib.coq_eval_values("disp_C01", header, exprs, chunk=400)
    except RuntimeError as e:
        ctx.violation("dispatch-table:checker-eval", "coqc", "checker evaluation failed",
                      {"log": str(e)[-3000:]}, found_input=False)
        return
    nok = 0
    for meta, v in zip(metas, vals):
        ok = v.strip() == "true"
        nok += ok
        ctx.add_obligation("entry_ok %s%s" % (meta["dispatcher"], meta["key"]), ok)
        ctx.count_case(("dispatch", meta["dispatcher"], tuple(meta["key"])))
        if not ok:
            ctx.violation("dispatch-table:" + meta["dispatcher"], ["entry-rejected", meta["key"]],
                          "constructed specialisation %s%s: converter types do not compose "
                          "(rejected by the verified checker entry_ok)" % (
                              meta["dispatcher"], meta["key"]), meta)
    ctx.cov.setdefault("input_distribution", {})["dispatch_entries"] = {
        "constructed_checked_by_entry_ok": len(metas), "accepted": int(nok),
        "direct": ndirect, "dispatchers": len(D.to.dispatchers)}
    if metas:
        ctx.sample({"dispatch_entry": metas[len(metas) // 2]})


# =================================================== conversions / containers
def check_conversions(ctx, D, rng, n):
    """to(), create(), as_scipy()/as_ndarray(), to_array() never change an
    entry; every converter of data.to against the direct function."""
    import scipy.sparse as sp
    from qutip.core.data import csr as _csr, dense as _dense, dia as _dia
    direct = {("Dense", "CSR"): _dense.from_csr, ("CSR", "Dense"): _csr.from_dense,
              ("Dia", "Dense"): _dia.from_dense, ("Dense", "Dia"): _dense.from_dia,
              ("Dia", "CSR"): _dia.from_csr, ("CSR", "Dia"): _csr.from_dia}
    for it in range(n):
        shape = gen_shape(rng, rng.choice(SHAPE_CLASSES))
        a = gen_matrix(rng, shape, rng.choice(DENSITIES))
        for rep in REPRS:
            x = make_repr(D, a, rng, rep)
            raw = raw_of(D, x)
            ctx.count_case(("conv", rep, json.dumps(raw)), nontrivial=a.size > 1)

            def bad(sig, what):
                ctx.violation("conversion:" + sig[0], sig, what,
                              {"operand": raw, "expected": enc(a)})
            if not np.array_equal(x.to_array(), a):
                bad(["to_array", rep[0], rep[1]], "to_array() of a %s/%s operand differs" % rep)
                continue
            cont = x.as_ndarray() if rep[0] == "Dense" else x.as_scipy().toarray()
            if not np.array_equal(np.asarray(cont), a):
                bad(["container-view", rep[0], rep[1]], "as_scipy()/as_ndarray() differs from to_array()")
            back = D.create(x.as_ndarray() if rep[0] == "Dense" else x.as_scipy())
            if type(back) is not type(x) or not np.array_equal(back.to_array(), a):
                bad(["create", rep[0], rep[1]], "create(container view) changed type or entries")
            for t in TYPES:
                y = D.to(getattr(D, t), x)
                if type(y).__name__ != t or not np.array_equal(y.to_array(), a):
                    bad(["to", t, rep[0], rep[1]], "to(%s, %s/%s) changed an entry" % (t, rep[0], rep[1]))
                if t != rep[0]:
                    z = direct[(t, rep[0])](x)
                    if raw_of(D, z) != raw_of(D, D.to[getattr(D, t), getattr(D, rep[0])](x)):
                        bad(["converter-not-direct", t, rep[0]],
                            "to[%s,%s] is not the registered direct conversion" % (t, rep[0]))
        # SciPy / NumPy inputs of every flavour
        for mk, nm in [(sp.csr_matrix, "scipy-csr"), (sp.csc_matrix, "scipy-csc"),
                       (sp.coo_matrix, "scipy-coo"), (sp.dia_matrix, "scipy-dia"),
                       (lambda v: np.array(v, order="F"), "numpy-F"),
                       (lambda v: v.tolist(), "list")]:
            y = D.create(mk(a))
            if not np.array_equal(y.to_array(), a):
                ctx.violation("conversion:create", ["create", nm],
                              "create(%s) changed an entry" % nm, {"expected": enc(a)})


# ======================================================== witness replays
def replay_witnesses(ctx, D):
    """The witness of the `_refuted` theorem of Props/C01.v and the witnesses
    of the old_... rules (regression guards for the fix commits), on the real
    implementation."""
    from qutip.core.data.base import idxint_dtype
    import importlib
    tidy = importlib.import_module("qutip.core.data.tidyup")
    prop = importlib.import_module("qutip.core.data.properties")
    # regression guard: C01_old_tidyup_dense_witness
    x = D.Dense(np.array([[1, 5]], dtype=complex))
    out = tidy.tidyup_dense(x, 2.5, False)
    if np.array_equal(out.to_array(), [[1, 5]]) and np.array_equal(x.to_array(), [[0, 5]]):
        ctx.violation("tidyup_dense.inplace_false", "copy-untouched-argument-modified",
                      "tidyup_dense(M, tol, inplace=False) returns M unchanged and tidies its "
                      "argument (the rule old_tidyup_dense, fixed by e806789, is back)",
                      {"witness": "Dense [[1,5]], tol=2.5", "returned": enc(out.to_array()),
                       "argument_after": enc(x.to_array())})
    # regression guard: C01_old_isequal_dia_witness
    a = D.Dia((np.array([[1, 1], [0, 2]], dtype=complex), np.array([0, 1], dtype=idxint_dtype)), shape=(2, 2))
    b = D.Dia((np.array([[1, 1]], dtype=complex), np.array([0], dtype=idxint_dtype)), shape=(2, 2))
    if prop.isequal_dia(a, b) and not np.array_equal(a.to_array(), b.to_array()):
        ctx.violation("isequal_dia.trailing_diagonals", "true-on-unequal",
                      "isequal_dia([[1,2],[0,1]], identity) is True (the rule "
                      "old_isequal_dia_walk, fixed by 1930127, is back)", {"A": raw_of(D, a), "B": raw_of(D, b)})
    # regression guard: C01_old_isdiag_csr_witness
    m = D.CSR((np.array([0, 3], dtype=complex), np.array([1, 1], dtype=idxint_dtype),
               np.array([0, 1, 2], dtype=idxint_dtype)), shape=(2, 2))
    if not prop.isdiag_csr(m) and prop.isdiag_dense(D.to(D.Dense, m)):
        ctx.violation("isdiag_csr.structural_zero", "false-on-diagonal",
                      "isdiag_csr is False for diag(0,3) stored with an explicit zero at (0,1); "
                      "isdiag_dense of the same matrix is True", {"operand": raw_of(D, m)})
    # C01_dia_duplicate_offsets_refuted
    a = D.Dia((np.array([[1, 3], [5, 7]], dtype=complex), np.array([0, 0], dtype=idxint_dtype)), shape=(2, 2))
    viaD = D.to(D.Dense, a).to_array()
    viaC = D.to(D.CSR, a).to_array()
    if not np.array_equal(viaD, viaC):
        ctx.violation("Dia.to_array.duplicate_offsets", "last-wins-vs-sum",
                      "a Dia storing offset 0 twice converts to diag(5,7) as Dense (to_array keeps "
                      "the last) and to diag(6,10) as CSR / SciPy (duplicates add up)",
                      {"operand": raw_of(D, a), "to_dense": enc(viaD), "to_csr": enc(viaC),
                       "scipy": enc(a.as_scipy().toarray())})
    ctx.count_case("refuted-witness-replays")


# ====================================================================== run
def run(ctx):
    from qutip.core import data as D
    import qutip
    rng = random.Random(ctx.seed * 7919 + 1)
    ctx.cov["rule"] = (
        "correspondence case = (kernel, operand raw arrays, scalar); non-trivial when an operand "
        "stores more than one number; distinct by content.  oracle case = (operation, operand "
        "type tuple, requested output type) on one drawn operand set; dispatcher case = one "
        "lookup-table entry")
    ctx.cov["trusted_base"] += [
        "Model/C01.v is hand-written; scatter loops (dense.from_csr, Dia.to_array) are in gather "
        "form; it is tied to the .pyx kernels by exact raw-array equality on generated inputs",
        "BLAS zaxpy/zcopy/zscal taken as their mathematical definition",
        "std::sort on column indices modelled by insertion sort (same result on integers)",
        "the base callable and function list of a lookup entry are private cdef fields: the "
        "checker sees the (to, from) typing of each converter, the base is identified "
        "behaviourally by the oracle",
        "NumPy as the reference meaning of each operation in the oracle",
        "CSR operands with a column stored twice in one row are outside wf_csr (CSR.to_array "
        "keeps the last, summing kernels add): precondition of every CSR theorem"]

    def search(failed, log):
        oracle(ctx, D, 400, random.Random(ctx.seed + 17))

    vlib.standard_proof_step(ctx, ["Props/C01.vo"], ["Props/C01.v"], search)

    ncorr = 1200 if ctx.quick else 9000
    ctx.log("correspondence: %d kernel cases" % ncorr)
    phase(ctx, "correspondence", lambda: correspondence(ctx, D, rng, ncorr))
    ctx.log("dispatcher table validation")
    phase(ctx, "dispatch", lambda: dispatch_validation(ctx, D))
    ctx.log("refuted-witness replays, corpus, conversions")

    def p3():
        replay_witnesses(ctx, D)
        run_corpus(ctx, D)
        check_conversions(ctx, D, random.Random(ctx.seed * 31 + 5), 40 if ctx.quick else 400)
    phase(ctx, "witnesses", p3)
    nor = 600 if ctx.quick else 4500
    ctx.log("oracle: %d operation draws" % nor)
    # several children so that a crash loses one slice only
    nsl = 4 if ctx.quick else 12
    for k in range(nsl):
        phase(ctx, "oracle%d" % k,
              lambda k=k: oracle(ctx, D, nor // nsl, random.Random(ctx.seed * 7919 + 100 + k), tag=k))
    ctx.log("oracle done")
    ctx.cov["explanation"] = (
        "Props/C01.v: conversions dense<->csr, dense<->dia, dia->csr; transpose/adjoint/conj/"
        "neg/mul on csr and dense; reorder; add_dense and add_csr (walk + scatter/gather "
        "accumulator, unsorted rows) with shape guards; trace_csr/trace_dense; tidyup on dense "
        "and csr; isdiag_csr and isequal_dia as iff with the denoted matrix - all for every "
        "shape, memory order and sparsity pattern; entry_ok soundness makes every accepted "
        "lookup entry compute its base's operation.  Tie: raw-structure equality of model and "
        "kernels (vm_compute) and the real lookup tables fed to entry_ok.  All other "
        "operations (matmul, kron, ptrace, reshape, permute, inner, expect, norms, the other "
        "predicates, pow, project, add_dia/clean_dia, dia.from_csr) are covered by the "
        "differential oracle only (exact on Gaussian integers; norms with a labelled 1e-12 "
        "validation tolerance), not by a theorem.")


def eval_stored_case(D, d):
    """Re-run a stored oracle case.  Returns (symptom, message, ctxinfo) with
    symptom None when the implementation now behaves."""
    ops = {o.name: o for o in build_ops(D)}
    op = ops[d["op"]]
    args = [from_raw(D, r) for r in d["operands"]]
    arrays = [x.to_array().copy() for x in args]
    extra = tuple(_unjs(d["extra"]))
    kw = d.get("kw") or {}
    types = [type(x) for x in args]
    combo = tuple(t.__name__ for t in types)
    out_t = d.get("out")
    info = {"op": op, "args": args, "arrays": arrays, "extra": extra, "kw": kw,
            "combo": combo, "out": out_t, "res": None, "ref": None}
    try:
        if d.get("how") == "lookup":
            key = tuple(types) + ((getattr(D, out_t),) if (op.out and out_t) else ())
            res = op.getter[key](*args, *extra, **kw)
        elif op.out and out_t:
            res = op.getter(*args, *extra, dtype=getattr(D, out_t), **kw)
        else:
            res = op.getter(*args, *extra, **kw)
    except Exception as e:     # noqa
        if d.get("malformed"):
            return None, "", info
        return "raises", type(e).__name__ + ": " + str(e)[:120], info
    info["res"] = res
    if d.get("malformed"):
        return "accepted", "ill-shaped operands accepted", info
    ref = op.ref(*arrays, *extra, **kw)
    info["ref"] = ref
    bad = compare_result(D, op, res, ref, out_t, args, arrays, extra, kw)
    if bad:
        return bad[0], bad[1], info
    return None, "", info


def run_corpus(ctx, D):
    """Minimised cases (corpus/C01/*.json) run first."""
    cdir = os.path.join(vlib.VERIF, "corpus", "C01")
    if not os.path.isdir(cdir):
        return
    for f in sorted(os.listdir(cdir)):
        d = json.load(open(os.path.join(cdir, f)))
        sym, msg, info = eval_stored_case(D, d)
        ctx.count_case(("corpus", f))
        if sym is None:
            continue
        dg = diagnose(D, info["op"], info["combo"], sym, msg, info["res"], info["ref"],
                      info["arrays"], info["args"], info["extra"], info["kw"])
        site, sig = dg or ("oracle:" + d["op"], [sym, list(info["combo"]), info["out"]])
        ctx.violation(site, sig, "%s[%s -> %s]: %s (corpus %s)" % (
            d["op"], ",".join(info["combo"]), info["out"], msg, f), d)


def replay(ctx, payload):
    from qutip.core import data as D
    site = payload["site"]
    d = payload["detail"]
    if site.startswith("corr:"):
        K = {k[0]: k for k in build_kernels(D)}[d["kernel"]]
        args = [from_raw(D, r) for r in d["operands"]]
        extra = tuple(tuple(e) if isinstance(e, list) else e for e in d["extra"])
        try:
            impl = K[3](args, extra)
        except ValueError:
            impl = None
        vals = vlib.coq_eval_values("replay_C01", HEADER, [d["coq"]])
        model = canon_model(K[5], vlib.parse_coq_value(vals[0]))
        if _norm(model) != _norm(impl):
            ctx.violation(site, payload["signature"], "replayed: model and implementation differ",
                          {"impl": impl, "model": model})
        return
    if "op" in d:
        sym, msg, info = eval_stored_case(D, d)
        if sym is not None:
            ctx.violation(site, payload["signature"], "replayed: %s %s" % (sym, msg), d)
        return
    if site.startswith("dispatch-table"):
        dispatch_validation(ctx, D)
    else:
        replay_witnesses(ctx, D)
