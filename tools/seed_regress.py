"""Re-run every stored seeded change against the *current* /repo HEAD and the
*current* checks.

usage: seed_regress.py [name ...]        (default: every /verif/seeded/*)

For each /verif/seeded/<name>: a scratch worktree of /repo HEAD is created
under /tmp, patch.diff is applied (skipped when it no longer applies, e.g.
because a later fix commit rewrote the same lines), extensions are rebuilt
when a .pyx/.pxd changed, `VERIF_REPO=<worktree> ./check <PID> --tier quick`
is run, the outcome is stored under the key "regression" of meta.json and the
worktree is removed.  Nothing is written to /repo.
"""
import glob
import json
import os
import shutil
import subprocess
import sys

VERIF = os.path.dirname(os.path.dirname(os.path.abspath(__file__)))


def sh(cmd, **kw):
    p = subprocess.run(cmd, shell=True, stdout=subprocess.PIPE, stderr=subprocess.STDOUT, **kw)
    return p.returncode, p.stdout.decode("utf8", "replace")


def one(name):
    d = os.path.join(VERIF, "seeded", name)
    meta = json.load(open(os.path.join(d, "meta.json")))
    pid = meta["property"]
    wt = "/tmp/regress_%s" % name
    home = wt + "_home"
    sh("git -C /repo worktree remove --force %s; rm -rf %s %s" % (wt, wt, home))
    res = {"head": sh("git -C /repo rev-parse --short HEAD")[1].strip()}
    try:
        rc, o = sh("%s/tools/mk_seed_wt.sh %s" % (VERIF, wt))
        if rc != 0:
            res["status"] = "worktree-failed"
            return res
        patch = os.path.join(d, "patch.diff")
        rc, o = sh("git -C %s apply %s" % (wt, patch))
        if rc != 0:
            res["status"] = "patch-no-longer-applies"
            res["detail"] = o.strip()[-300:]
            return res
        if any(f.endswith((".pyx", ".pxd")) for f in (meta.get("files") or [])) or \
                ".pyx" in open(patch).read():
            rc, o = sh("cd %s && /venv/bin/python setup.py build_ext --inplace -j 4" % wt)
            if rc != 0:
                res["status"] = "build-failed"
                return res
        os.makedirs(home, exist_ok=True)
        env = dict(os.environ, VERIF_REPO=wt, HOME=home, OMP_NUM_THREADS="1",
                   OPENBLAS_NUM_THREADS="1", MKL_NUM_THREADS="1")
        rc, o = sh("cd %s && timeout 2400 ./check %s --tier quick" % (VERIF, pid), env=env)
        lines = [l for l in o.split("\n") if l.startswith("VIOLATION") or "  ->" in l]
        res["status"] = "ran"
        res["check_exit"] = rc
        res["caught"] = rc == 1 and any(l.startswith("VIOLATION property=%s" % pid) for l in lines)
        res["caught_with_concrete_input"] = any(
            l.startswith("VIOLATION") and "no-failing-input-found" not in l for l in lines)
        res["check_lines"] = [l[:300] for l in lines[:6]]
        return res
    finally:
        sh("git -C /repo worktree remove --force %s; rm -rf %s %s; git -C /repo worktree prune" % (wt, wt, home))
        shutil.rmtree(os.path.join(VERIF, ".evidence_scratch", os.path.basename(wt)), ignore_errors=True)


def main():
    names = sys.argv[1:] or sorted(os.path.basename(os.path.dirname(p))
                                   for p in glob.glob(os.path.join(VERIF, "seeded", "*", "meta.json")))
    for n in names:
        r = one(n)
        p = os.path.join(VERIF, "seeded", n, "meta.json")
        m = json.load(open(p))
        m["regression"] = r
        json.dump(m, open(p, "w"), indent=1)
        print(n, r.get("status"), "exit", r.get("check_exit"), "caught", r.get("caught"),
              "input", r.get("caught_with_concrete_input"), flush=True)
    # generated files depend on the tree under test
    sh("cd %s && /venv/bin/python lib/gen_all.py" % VERIF)


if __name__ == "__main__":
    main()
