"""C07 - superoperator constructors implement the operator identities they
stand for.

Tie (T): tools/tx_c07_superop.py regenerates coq/Gen/C07_terms.v from
  qutip/core/superoperator.py and _brtensor.pyx::_br_term_data; the theorems
  of Props/C07.v are re-proved over the generated terms on every run.
Tie (K1): the generated terms, evaluated in Python with the data-layer
  semantics the Coq `den` assumes (numpy.kron etc.), are compared EXACTLY
  with what the real constructors return (Gaussian-integer operators, every
  storage format, counting-field phases through an exact stand-in for
  np.exp).
Tie (K2): the Coq model of the element formula of _br_term_dense
  (Model/C07_br.v) is evaluated by vm_compute and compared exactly with the
  real cpdef function.
Oracle (always): the property itself on real qutip objects - L.full() applied
  to a full operator basis against an independent numpy expression, trace
  functional, Hermiticity preservation, stacking round trips, route agreement,
  Bloch-Redfield (three element computations, both bases, white-spectrum =
  Lindblad, documented formula).
"""
import itertools
import json
import os
import random
import re

import numpy as np

import vlib
from vlib import cz, cnat, clist
import tx_c07_superop as tx
import tx_c07_kernels as txk

HEADER_BR = ("From Coq Require Import List ZArith Bool.\nImport ListNotations.\n"
             "From QV Require Import Model.C07_br.\nLocal Open Scope Z_scope.\n")


# ------------------------------------------------------------- exact helpers
def expi_exact(k):
    """stand-in for chi |-> exp(1j*chi) on integer chi (the Coq Section
    variable `expi`; only expi 0 = 1 is assumed of it)."""
    table = {0: 1, 1: 1j, 2: -1, 3: -1j, 4: 2 + 1j,
             -1: -1j, -2: -1 + 0j, -3: 1j, -4: 2 - 1j}
    return complex(table[int(k)])


class NPShim:
    """numpy with `exp` replaced by the exact stand-in on arguments 1j*k."""

    def __getattr__(self, name):
        return getattr(np, name)

    @staticmethod
    def exp(z):
        z = complex(z)
        if z.real == 0 and z.imag == int(z.imag) and abs(z.imag) <= 4:
            return expi_exact(int(z.imag))
        return np.exp(z)


class exact_exp:
    def __enter__(self):
        import qutip.core.superoperator as so
        self.so = so
        self.old = so.np
        so.np = NPShim()

    def __exit__(self, *a):
        self.so.np = self.old


def gint(rng, lo=-2, hi=2):
    return complex(rng.randint(lo, hi), rng.randint(lo, hi))


def rand_mat(rng, r, c, kind="any"):
    M = np.zeros((r, c), dtype=complex)
    dens = rng.choice([0.3, 0.6, 1.0])
    for a in range(r):
        for b in range(c):
            if rng.random() < dens:
                M[a, b] = gint(rng)
    if kind == "herm" and r == c:
        M = M + M.conj().T
    if kind == "diag" and r == c:
        M = np.diag(np.diag(M))
    if kind == "real" and r == c:
        M = M.real + 0j
    return M


def mat_json(M):
    M = np.asarray(M)
    return [[[float(x.real), float(x.imag)] for x in row] for row in M]


def mat_unjson(L):
    return np.array([[complex(x[0], x[1]) for x in row] for row in L], dtype=complex)


def basis_ops(r, c):
    for a in range(r):
        for b in range(c):
            E = np.zeros((r, c), dtype=complex)
            E[a, b] = 1
            yield E
            if (a + b) % 2:
                E2 = E.copy()
                E2[a, b] = 1j
                yield E2


def vec(X):
    return X.ravel('F')[:, None]


def unvec(v, r, c):
    return np.asarray(v).reshape((r, c), order='F')


FORMATS = ["Dense", "CSR", "Dia"]


def mk_qobj(M, fmt, dims=None):
    import qutip
    q = qutip.Qobj(np.array(M), dims=dims)
    return q.to(fmt)


def classify_exc(site, ex, n):
    """exceptions on valid inputs; the two known failure modes on a
    one-dimensional Hilbert space get a stable site/signature."""
    msg = str(ex)
    if n == 1 and isinstance(ex, TypeError) and "superrep of a non super" in msg:
        return ("superoperator.one-dimensional-space", "TypeError:superrep-of-non-super",
                "constructing a superoperator over a 1-dimensional Hilbert space raises "
                "TypeError(%s)" % msg)
    if n == 1 and isinstance(ex, ValueError) and "Empty list" in msg:
        return ("superoperator.one-dimensional-space", "ValueError:empty-dims",
                "sprepost over a 1-dimensional Hilbert space raises ValueError(%s): "
                "_drop_projected_dims leaves an empty dims list" % msg)
    if "incompatible dimensions" in msg and "[1" in msg.replace(", 1", ", [1"):
        return UNIT_FACTOR
    if n == 1:
        return SCALAR_COLLAPSE
    return (site, "raises:" + type(ex).__name__, "raised %r on a valid input" % (ex,))


SCALAR_COLLAPSE = (
    "superoperator.one-dimensional-space", "scalar-collapse",
    "over a 1-dimensional Hilbert space the superoperator dims [[[1],[1]],[[1],[1]]] and the "
    "operator-ket dims collapse to a scalar space: the matrices are right but the objects "
    "lose type 'super'/'operator-ket' (vector_to_operator(operator_to_vector(A)) raises, "
    "products return Python scalars, QobjEvo routes fail)")


UNIT_FACTOR = ("superoperator.sprepost.unit-factor-dims", "incompatible-with-spre-spost",
               "on a space with a 1-dimensional tensor factor sprepost(A, B) drops the factor "
               "from dims while spre(A)*spost(B) keeps it: the two cannot be added, and "
               "sprepost(A, B) cannot be applied to operator_to_vector(X)")


# ------------------------------------------------------ reference expressions
def dissip_ref(a, b, e, X):
    return e * (a @ X @ b.conj().T) - 0.5 * (a.conj().T @ b @ X) - 0.5 * (X @ a.conj().T @ b)


def lindblad_ref(H, cs, X):
    out = -1j * (H @ X - X @ H) if H is not None else np.zeros_like(X)
    for c, e in cs:
        out = out + dissip_ref(c, c, e, X)
    return out


def br_ref(A, S, X, mask_skew=None, cutoff=None):
    """documented Bloch-Redfield expression (no cut-off when cutoff None);
    S[a,b] = spectrum(w_a - w_b)."""
    AS = A * (0.5 * S)
    AST = A * (0.5 * S).T
    return AST @ X @ A + A @ X @ AS - A @ AST @ X - X @ AS @ A


def super_from_map(f, n):
    """(n*n)x(n*n) column-stacking matrix of a linear map on n x n operators."""
    L = np.zeros((n * n, n * n), dtype=complex)
    for c in range(n):
        for r in range(n):
            E = np.zeros((n, n), dtype=complex)
            E[r, c] = 1
            L[:, r + n * c] = vec(f(E))[:, 0]
    return L


# ------------------------------------------------------------ case generator
def gen_liou_case(rng, thorough):
    dims = rng.choice([[2], [3], [2, 2], [1], [4], [3, 2], [2, 1], [2], [3]] if thorough
                      else [[2], [3], [2, 2], [1], [2], [3], [2, 1], [2], [3], [2, 2]])
    n = int(np.prod(dims))
    kindH = rng.choice(["herm", "herm", "any", "diag", "none"])
    H = None if kindH == "none" else rand_mat(rng, n, n, kindH)
    ncs = rng.choice([0, 1, 1, 2, 3])
    if H is None and ncs == 0:
        ncs = 1
    cs = [rand_mat(rng, n, n, rng.choice(["any", "any", "herm", "real"])) for _ in range(ncs)]
    chimode = rng.choice(["none", "none", "zeros", "ints"])
    if chimode == "none":
        chi = None
    elif chimode == "zeros":
        chi = [0] * ncs
    else:
        chi = [rng.choice([0, 1, 2, 3, 4]) for _ in range(ncs)]
    if not ncs:
        chi = None
    return {"dims": dims, "H": None if H is None else mat_json(H),
            "cs": [mat_json(c) for c in cs], "chi": chi,
            "fmtH": rng.choice(FORMATS), "fmtC": rng.choice(FORMATS),
            "route": rng.choice(["data", "data", "qobj_evoH", "qobj_evoC", "data_only"])}


def build_liou(case):
    """call the real liouvillian along the requested route; returns the dense
    matrix of the result."""
    import qutip
    dims = [case["dims"], case["dims"]]
    H = None if case["H"] is None else mk_qobj(mat_unjson(case["H"]), case["fmtH"], dims)
    cs = [mk_qobj(mat_unjson(c), case["fmtC"], dims) for c in case["cs"]]
    chi = case["chi"]
    route = case["route"]
    with exact_exp():
        if route == "data_only" or (H is None and route.startswith("qobj")):
            out = qutip.liouvillian(H, cs, data_only=(route == "data_only"), chi=chi)
            if route == "data_only":
                return out.to_array(), None
            return out.full(), out
        if route == "data":
            L = qutip.liouvillian(H, cs, chi=chi)
            return L.full(), L
        if route == "qobj_evoH":
            # H(t) = H/2 * (2t) evaluated at t = 1 (exact)
            Hevo = qutip.QobjEvo([[H * 0.5, _two_t]])
            L = qutip.liouvillian(Hevo, cs, chi=chi)
            Lq = L(1.0)
            return Lq.full(), Lq
        if route == "qobj_evoC":
            if not cs:
                L = qutip.liouvillian(qutip.QobjEvo(H), cs, chi=chi)
                Lq = L(0.0)
                return Lq.full(), Lq
            cevo = [qutip.QobjEvo(cs[0])] + cs[1:]
            L = qutip.liouvillian(H, cevo, chi=chi)
            Lq = L(0.0)
            return Lq.full(), Lq
    raise ValueError(route)


def _two_t(t):
    return 2.0 * t


def route_term(case):
    if case["H"] is None:
        return "liouvillian_noH"
    return {"data": "liouvillian_data", "data_only": "liouvillian_data",
            "qobj_evoH": "liouvillian_qobj", "qobj_evoC": "liouvillian_qobj"}[case["route"]]


# -------------------------------------------------- oracle on one liouvillian
def check_liou_case(ctx, case, terms, where="oracle"):
    """returns list of (site, signature, what) problems."""
    n = int(np.prod(case["dims"]))
    H = None if case["H"] is None else mat_unjson(case["H"])
    cs = [mat_unjson(c) for c in case["cs"]]
    chi = case["chi"] or [0] * len(cs)
    bad = []
    try:
        Lfull, Lq = build_liou(case)
    except Exception as ex:           # noqa: BLE001
        return [classify_exc("superoperator.liouvillian", ex, n)]
    # (K1) generated term evaluated in Python == implementation, exactly
    tname = route_term(case)
    cs_arg = list(zip(cs, chi))
    args = [cs_arg] if tname == "liouvillian_noH" else [H, cs_arg]
    den = tx.Eval(terms, expi_exact).apply(tname, args, n) if terms else Lfull
    if not np.array_equal(den, Lfull):
        bad.append(("corr:superoperator." + tname, "generated-term-differs",
                    "matrix returned by liouvillian (route %s) differs from the "
                    "generated term's denotation" % case["route"]))
    # oracle: action on a full operator basis against the operator expression
    es = [expi_exact(k) for k in chi]
    for X in basis_ops(n, n):
        got = unvec(Lfull @ vec(X), n, n)
        want = lindblad_ref(H, list(zip(cs, es)), X)
        if not np.array_equal(got, want):
            bad.append(("superoperator.liouvillian", "action:" + case["route"],
                        "L.full() applied to a basis operator differs from "
                        "-i[H,X] + sum D[c]X (route %s)" % case["route"]))
            break
    if all(k == 0 for k in chi):
        # trace functional vec(I)^dagger L = 0
        tf = vec(np.eye(n, dtype=complex)).conj().T @ Lfull
        if np.any(tf != 0):
            bad.append(("superoperator.liouvillian", "trace-functional",
                        "vec(I)^dagger L != 0: the generator does not preserve the trace"))
        Hh = H is None or np.array_equal(H, H.conj().T)
        if Hh:
            for X in basis_ops(n, n):
                a = unvec(Lfull @ vec(X.conj().T), n, n)
                b = unvec(Lfull @ vec(X), n, n).conj().T
                if not np.array_equal(a, b):
                    bad.append(("superoperator.liouvillian", "hermiticity",
                                "L(X^dagger) != L(X)^dagger for Hermitian H"))
                    break
    if Lq is not None:
        want_dims = [[case["dims"], case["dims"]], [case["dims"], case["dims"]]]
        if Lq.dims != want_dims or not Lq.issuper or Lq.superrep != "super":
            bad.append(SCALAR_COLLAPSE if n == 1 else
                       ("superoperator.liouvillian", "dims",
                        "dims/superrep of the Liouvillian: %r" % (Lq.dims,)))
    return bad


# ----------------------------------------------------- small constructors
def check_small(ctx, rng, terms, ncases):
    import qutip
    from qutip.core import data as _data
    ev = tx.Eval(terms, expi_exact) if terms else None
    dist = {}
    for _ in range(ncases):
        kind = rng.choice(["spre", "spost", "sprepost", "sprepost_rect", "sprepost_evo",
                           "dissipator", "dissipator_ab", "stack", "assembly"])
        dist[kind] = dist.get(kind, 0) + 1
        dims = rng.choice([[2], [3], [2, 2], [1], [3, 2], [2], [3], [1, 2], [2, 2]])
        n = int(np.prod(dims))
        fa, fb = rng.choice(FORMATS), rng.choice(FORMATS)
        A = rand_mat(rng, n, n)
        B = rand_mat(rng, n, n)
        payload = {"kind": kind, "dims": dims, "A": mat_json(A), "B": mat_json(B),
                   "fa": fa, "fb": fb}
        problems = small_case(payload, ev)
        ctx.count_case(("small", json.dumps(payload, sort_keys=True)), nontrivial=n > 1)
        for site, sig, what in problems:
            ctx.violation(site, sig, what, {"small": payload})
    return dist


def small_case(p, ev):
    import qutip
    from qutip.core import data as _data
    kind, dims = p["kind"], p["dims"]
    n = int(np.prod(dims))
    A, B = mat_unjson(p["A"]), mat_unjson(p["B"])
    qa = mk_qobj(A, p["fa"], [dims, dims])
    qb = mk_qobj(B, p["fb"], [dims, dims])
    bad = []

    def cmp(name, L, f, tname, targs, site):
        Lf = L.full() if hasattr(L, "full") else L.to_array()
        if tname is not None and ev is not None:
            den = ev.apply(tname, targs, n)
            if not np.array_equal(den, Lf):
                bad.append(("corr:superoperator." + tname, "generated-term-differs",
                            "%s: returned matrix differs from the generated term" % name))
        for X in basis_ops(n, n):
            if not np.array_equal(unvec(Lf @ vec(X), n, n), f(X)):
                bad.append((site, "action", "%s: L.full() on a basis operator differs "
                            "from the operator expression" % name))
                break

    try:
        if kind == "spre":
            cmp("spre", qutip.spre(qa), lambda X: A @ X, "spre", [A], "superoperator.spre")
        elif kind == "spost":
            cmp("spost", qutip.spost(qa), lambda X: X @ A, "spost", [A], "superoperator.spost")
        elif kind == "sprepost":
            L = qutip.sprepost(qa, qb)
            cmp("sprepost", L, lambda X: A @ X @ B, "sprepost", [A, B], "superoperator.sprepost")
            if L.dims != (qutip.spre(qa) * qutip.spost(qb)).dims:
                bad.append(UNIT_FACTOR if 1 in dims and n > 1 else
                           ("superoperator.sprepost", "dims",
                            "sprepost(A,B).dims != (spre(A)*spost(B)).dims"))
        elif kind == "sprepost_evo":
            L = qutip.sprepost(qutip.QobjEvo(qa), qb)(0.0)
            cmp("sprepost(QobjEvo)", L, lambda X: A @ X @ B, "sprepost_evo", [A, B],
                "superoperator.sprepost")
        elif kind == "sprepost_rect":
            # A : m x n, B : p x q; X : n x p  (C07_vec_sandwich)
            m, nn, pp, q_ = 2, n, 3, 2
            A2 = A[:1, :] if n == 1 else np.vstack([A[0:1, :], A[-1:, :]])
            B2 = np.array([[1, 1j], [0, 2], [-1, 0]], dtype=complex)
            L = qutip.sprepost(mk_qobj(A2, p["fa"]), mk_qobj(B2, p["fb"]))
            Lf = L.full()
            for X in basis_ops(nn, pp):
                if not np.array_equal(unvec(Lf @ vec(X), A2.shape[0], q_), A2 @ X @ B2):
                    bad.append(("superoperator.sprepost", "action-rect",
                                "sprepost of rectangular operators differs from A X B"))
                    break
        elif kind in ("dissipator", "dissipator_ab"):
            chi = p.get("chi", (n + int(abs(A).sum())) % 5)
            p["chi"] = chi
            with exact_exp():
                if kind == "dissipator":
                    L = qutip.lindblad_dissipator(qa, chi=chi or None)
                    b_ = A
                else:
                    L = qutip.lindblad_dissipator(qa, qb, chi=chi or None)
                    b_ = B
                Ld = qutip.lindblad_dissipator(qa, qb if kind == "dissipator_ab" else None,
                                               data_only=True, chi=chi or None)
            e = expi_exact(chi)
            cmp(kind, L, lambda X: dissip_ref(A, b_, e, X), "lindblad_dissipator",
                [A, b_, chi], "superoperator.lindblad_dissipator")
            if not np.array_equal(Ld.to_array(), L.full()):
                bad.append(("superoperator.lindblad_dissipator", "data_only",
                            "data_only result differs from the Qobj result"))
        elif kind == "assembly":
            # term-by-term assembly equals liouvillian
            H = A + A.conj().T
            qh = mk_qobj(H, p["fa"], [dims, dims])
            L1 = qutip.liouvillian(qh, [qb])
            L2 = -1j * (qutip.spre(qh) - qutip.spost(qh)) + qutip.lindblad_dissipator(qb)
            L3 = (-1j * (qutip.spre(qh) - qutip.spost(qh)) + qutip.sprepost(qb, qb.dag())
                  - 0.5 * qutip.spre(qb.dag() * qb) - 0.5 * qutip.spost(qb.dag() * qb))
            if not (np.array_equal(L1.full(), L2.full()) and np.array_equal(L1.full(), L3.full())):
                bad.append(("superoperator.liouvillian", "assembly",
                            "term-by-term assembly differs from liouvillian()"))
            if L1.dims != L2.dims:
                bad.append(("superoperator.liouvillian", "assembly-dims", "dims differ"))
        elif kind == "stack":
            r, c = (n, 3) if n != 3 else (3, 2)
            M = np.array([[complex(a + 1, b - a) for b in range(c)] for a in range(r)])
            M = M * (A[0, 0] if A[0, 0] != 0 else 1)
            for fmt in FORMATS:
                d = _data.to(getattr(_data, fmt), _data.Dense(M))
                v = qutip.stack_columns(d)
                va = v.to_array()
                if va.shape != (r * c, 1) or any(
                        va[qutip.stacked_index(r, a, b), 0] != M[a, b]
                        for a in range(r) for b in range(c)):
                    bad.append(("superoperator.stack_columns", "index:" + fmt,
                                "stacked[r + rows*c] != M[r,c]"))
                back = qutip.unstack_columns(v, (r, c)).to_array()
                if not np.array_equal(back, M):
                    bad.append(("superoperator.unstack_columns", "roundtrip:" + fmt,
                                "unstack(stack(M)) != M"))
                v2 = qutip.stack_columns(qutip.unstack_columns(v, (r, c)))
                if not np.array_equal(v2.to_array(), va):
                    bad.append(("superoperator.stack_columns", "roundtrip2:" + fmt,
                                "stack(unstack(v)) != v"))
            if not np.array_equal(qutip.stack_columns(M), vec(M)) or not np.array_equal(
                    qutip.unstack_columns(vec(M), (r, c)), M):
                bad.append(("superoperator.stack_columns", "ndarray", "ndarray path"))
            for k in range(n * n):
                a, b = qutip.unstacked_index(n, k)
                if qutip.stacked_index(n, a, b) != k or not (0 <= a < n and 0 <= b < n):
                    bad.append(("superoperator.stacked_index", "inverse",
                                "stacked_index/unstacked_index are not inverse"))
                    break
            ov = qutip.operator_to_vector(qa)
            if not np.array_equal(ov.full(), vec(A)):
                bad.append(("superoperator.operator_to_vector", "value",
                            "operator_to_vector is not column stacking"))
            if ov.dims != [[dims, dims], [1]]:
                bad.append(SCALAR_COLLAPSE if n == 1 else
                           ("superoperator.operator_to_vector", "dims",
                            "operator_to_vector dims %r" % (ov.dims,)))
            oo = qutip.vector_to_operator(ov)
            if not np.array_equal(oo.full(), A) or oo.dims != [dims, dims]:
                bad.append(("superoperator.vector_to_operator", "roundtrip",
                            "vector_to_operator(operator_to_vector(A)) != A"))
            # L vec(X) through Qobj arithmetic
            LX = qutip.vector_to_operator(qutip.sprepost(qa, qb) * qutip.operator_to_vector(qb))
            if not np.array_equal(LX.full(), A @ B @ B):
                bad.append(("superoperator.sprepost", "qobj-apply",
                            "sprepost(A,B) * vec(X) != vec(A X B)"))
    except Exception as ex:          # noqa: BLE001
        bad.append(classify_exc("superoperator." + kind, ex, n))
    return bad


# ---------------------------------------------------------- malformed stream
def malformed(ctx):
    import qutip
    ket = qutip.basis(2, 0)
    op = qutip.sigmax()
    sup = qutip.spre(op)
    cases = [
        ("spre(ket)", lambda: qutip.spre(ket), TypeError),
        ("spost(ket)", lambda: qutip.spost(ket), TypeError),
        ("spre(non-qobj)", lambda: qutip.spre(np.eye(2)), TypeError),
        ("liouvillian(no H, no c_ops)", lambda: qutip.liouvillian(None, []), ValueError),
        ("liouvillian(chi length)", lambda: qutip.liouvillian(op, [op], chi=[1, 2]), ValueError),
        ("liouvillian(H ket)", lambda: qutip.liouvillian(ket, [op]), TypeError),
        ("liouvillian(data_only, QobjEvo)",
         lambda: qutip.liouvillian(qutip.QobjEvo(op), [op], data_only=True), ValueError),
        ("operator_to_vector(super)", lambda: qutip.operator_to_vector(sup), TypeError),
        ("vector_to_operator(oper)", lambda: qutip.vector_to_operator(op), TypeError),
        ("unstack_columns(non-square)",
         lambda: qutip.unstack_columns(np.zeros((3, 1))), ValueError),
        ("unstack_columns(not a column)",
         lambda: qutip.unstack_columns(np.zeros((2, 2))), TypeError),
        ("stack_columns(list)", lambda: qutip.stack_columns([[1]]), TypeError),
    ]
    for name, f, exc in cases:
        got = "no-error"
        try:
            f()
        except Exception as ex:     # noqa: BLE001
            got = type(ex).__name__
        ctx.count_case(("malformed", name), nontrivial=False)
        if got != exc.__name__:
            ctx.violation("superoperator.malformed", name,
                          "malformed input %s: expected %s, got %s" % (name, exc.__name__, got),
                          {"malformed": name})
    return len(cases)


# ------------------------------------------------------------ Bloch-Redfield
def gen_br_case(rng, thorough):
    n = rng.choice([1, 2, 2, 3, 3] + ([4] if thorough else []))
    kindA = rng.choice(["herm", "herm", "real", "any"])
    A = rand_mat(rng, n, n, kindA)
    if kindA == "real":
        A = (A + A.T)
    w = sorted(rng.randint(-3, 3) for _ in range(n))
    if rng.random() < 0.5:
        w = sorted(rng.sample(range(-4, 5), n))
    spec = rng.choice(["flat", "step", "quad", "matrix"])
    K = [[w[a] - w[b] for b in range(n)] for a in range(n)]
    if spec == "flat":
        S = [[2] * n for _ in range(n)]
    elif spec == "step":
        S = [[2 + 2 * (K[a][b] > 0) for b in range(n)] for a in range(n)]
    elif spec == "quad":
        S = [[2 * K[a][b] * K[a][b] + 4 * (K[a][b] > 0) for b in range(n)] for a in range(n)]
    else:
        S = [[2 * rng.randint(0, 3) for b in range(n)] for a in range(n)]
    cut = rng.choice([None, None, 1, 2, 3, 5])
    return {"n": n, "A": mat_json(A), "w": w, "S": S, "K": K, "cut": cut, "spec": spec,
            "fmt": rng.choice(["Dense", "CSR"])}


def br_impl(case):
    from qutip.core import data as _data
    from qutip.core._brtensor import _br_term_dense, _br_term_sparse, _br_term_data
    A = mat_unjson(case["A"])
    Ad = _data.to(getattr(_data, case["fmt"]), _data.Dense(A))
    S = np.array(case["S"], dtype=float)
    K = np.array(case["K"], dtype=float)
    cut = np.inf if case["cut"] is None else float(case["cut"])
    d = _br_term_dense(Ad, S.copy(), K.copy(), cut).to_array()
    s = _br_term_sparse(Ad, S.copy(), K.copy(), cut).to_array()
    m = _br_term_data(Ad, S.copy(), K.copy(), cut).to_array()
    return d, s, m


def br_coq_expr(case):
    A = mat_unjson(case["A"])
    gA = clist(A, lambda row: clist(row, lambda x: "(%s, %s)" % (cz(x.real), cz(x.imag))))
    zS = clist(case["S"], lambda row: clist(row, cz))
    zK = clist(case["K"], lambda row: clist(row, cz))
    cut = "None" if case["cut"] is None else "(Some %s)" % cz(case["cut"])
    return "observe_dense %s %s %s %s %s" % (cnat(case["n"]), gA, zS, zK, cut)


def classify_br(R, A, S, n, mask=None):
    """compare a tensor with the documented expression; returns None if it
    matches, else a signature."""
    def ref_for(Aop):
        L = super_from_map(lambda X: br_ref(Aop, S, X), n)
        return L if mask is None else L * mask
    if np.array_equal(R, ref_for(A)):
        return None
    if np.array_equal(R, ref_for(A.T)):
        return "tensor-of-transposed-operator"
    return "differs-from-documented-expression"


def secular_mask(K, cut, n):
    """mask in the column-stacking index r + n*c for the pair (row r, col c):
    the element that maps X[c_,d_] to Y[a_,b_] is kept iff
    |(w_a - w_b) - (w_c - w_d)| < cut."""
    M = np.ones((n * n, n * n))
    if cut is None:
        return M
    for a, b, c, d in itertools.product(range(n), repeat=4):
        keep = abs(K[a][b] - K[c][d]) < cut
        M[a + n * b, c + n * d] = 1.0 if keep else 0.0
    return M


def check_br_case(case):
    """oracle on the three cpdef element computations; returns problems."""
    bad = []
    n = case["n"]
    A = mat_unjson(case["A"])
    S = np.array(case["S"], dtype=float)
    try:
        d, s, m = br_impl(case)
    except Exception as ex:      # noqa: BLE001
        return [("brtensor.br_term", "raises:" + type(ex).__name__,
                 "_br_term_* raised %r" % (ex,))], None
    if not np.array_equal(d, s):
        bad.append(("brtensor.br_term", "sparse-vs-dense",
                    "_br_term_sparse and _br_term_dense disagree"))
    if not np.array_equal(d, m):
        bad.append(("brtensor.br_term", "data-vs-dense",
                    "_br_term_data and _br_term_dense disagree"))
    # trace functional (with and without the secular mask)
    tf = vec(np.eye(n, dtype=complex)).conj().T @ d
    if np.any(tf != 0):
        bad.append(("brtensor.br_term", "trace-functional",
                    "vec(I)^dagger R != 0 for the Bloch-Redfield term"))
    herm = np.array_equal(A, A.conj().T)
    if herm:
        for X in basis_ops(n, n):
            a = unvec(d @ vec(X.conj().T), n, n)
            b = unvec(d @ vec(X), n, n).conj().T
            if not np.array_equal(a, b):
                bad.append(("brtensor.br_term", "hermiticity",
                            "R(X^dagger) != R(X)^dagger for Hermitian A, real spectrum"))
                break
    # the documented expression (index convention of the column-stacked
    # operator), masked by the secular condition
    mask = secular_mask(case["K"], case["cut"], n)
    sig = classify_br(d, A, S, n, mask)
    if sig is None and not np.array_equal(d, doc_tensor(A, A, case["S"], case["K"], case["cut"])):
        sig = "differs-from-documented-R_abcd"
    if sig is not None:
        bad.append(("brtensor.element-index", sig,
                    "the Bloch-Redfield tensor does not act on the column-stacked "
                    "operator as the documented expression"
                    + (" (it is the tensor of the transposed coupling operator: row-major "
                       "index a*n+b is used with column stacking)"
                       if sig.startswith("tensor-of") else "")))
    return bad, d


def gen_brt_case(rng, thorough):
    n = rng.choice([2, 2, 3] + ([4] if thorough else []))
    w = rng.sample(range(-3, 6), n) if rng.random() < 0.7 else [rng.randint(0, 2) for _ in range(n)]
    kindA = rng.choice(["herm", "herm", "real"])
    A = rand_mat(rng, n, n, kindA)
    if kindA == "real":
        A = A + A.T
    ncs = rng.choice([0, 0, 1])
    cs = [rand_mat(rng, n, n) for _ in range(ncs)]
    return {"n": n, "w": w, "A": mat_json(A), "cs": [mat_json(c) for c in cs],
            "spec": rng.choice(["flat", "step", "quad"]),
            "sec": rng.choice([-1, -1, 0.1, 1.3, 2.7])}


def spectrum_fn(kind):
    if kind == "flat":
        return lambda w: 2.0
    if kind == "step":
        return lambda w: 2.0 + 2.0 * (w > 0)
    return lambda w: 2.0 * w * w + 4.0 * (w > 0)


def check_brt_case(case):
    """bloch_redfield_tensor: all computation methods, both bases."""
    import qutip
    from qutip.core.blochredfield import bloch_redfield_tensor
    bad = []
    n = case["n"]
    A = mat_unjson(case["A"])
    H = np.diag(np.array(case["w"], dtype=complex))
    cs = [mat_unjson(c) for c in case["cs"]]
    f = spectrum_fn(case["spec"])
    res = {}
    try:
        for meth in ("sparse", "dense", "matrix"):
            for fb in (True, False):
                R = bloch_redfield_tensor(qutip.Qobj(H), [(qutip.Qobj(A), f)],
                                          c_ops=[qutip.Qobj(c) for c in cs],
                                          sec_cutoff=case["sec"], fock_basis=fb,
                                          br_computation_method=meth)
                if fb:
                    res[(meth, fb)] = (R.full(), None)
                else:
                    res[(meth, fb)] = (R[0].full(), R[1].full())
    except Exception as ex:      # noqa: BLE001
        return [("blochredfield.bloch_redfield_tensor", "raises:" + type(ex).__name__,
                 "bloch_redfield_tensor raised %r" % (ex,))]
    R0, _ = res[("dense", True)]
    for meth in ("sparse", "matrix"):
        if not np.array_equal(res[(meth, True)][0], R0):
            bad.append(("blochredfield.bloch_redfield_tensor", "method:" + meth,
                        "br_computation_method=%s differs from dense (fock basis)" % meth))
        if not np.array_equal(res[(meth, False)][0], res[("dense", False)][0]):
            bad.append(("blochredfield.bloch_redfield_tensor", "method-eig:" + meth,
                        "br_computation_method=%s differs from dense (eigenbasis)" % meth))
    Re, V = res[("dense", False)]
    # hypothesis of Props/C07_sparse.v: the eigen-solver returns the
    # eigenvalues in non-decreasing order
    from qutip.core._brtools import _EigenBasisTransform
    wv = np.asarray(_EigenBasisTransform(qutip.QobjEvo(qutip.Qobj(H))).eigenvalues(0))
    if np.any(np.diff(wv) < 0) or not np.array_equal(np.sort(wv), np.sort(np.array(case["w"], float))):
        bad.append(("brtools._EigenBasisTransform.eigenvalues", "not-sorted",
                    "eigenvalues(t) are not the sorted spectrum of H: %r" % (wv.tolist(),)))
    # V must be an exact signed permutation for a diagonal integer H
    if not np.array_equal(V @ V.conj().T, np.eye(n)):
        return bad      # eigenvectors not exact: outside the exact fragment [NUM]
    Sv = np.kron(V.conj(), V)          # eig -> fock on stacked operators
    Lf = super_from_map(lambda X: lindblad_ref(H, [(c, 1.0) for c in cs], X), n)
    R0e = Sv.conj().T @ R0 @ Sv        # the fock-basis tensor moved to the eigenbasis
    if not np.array_equal(Re, R0e):
        wrong = Sv.conj().T @ (R0 - Lf) @ Sv + Sv @ Lf @ Sv.conj().T
        sig = ("liouvillian-part-inverse-basis-change" if np.array_equal(Re, wrong)
               else "fock-vs-eig")
        bad.append(("blochredfield.bloch_redfield_tensor.eigenbasis", sig,
                    "fock_basis=False is not the eigenbasis form of fock_basis=True"
                    + (": the liouvillian(H, c_ops) part is transformed with "
                       "sprepost(V, V^dag) . sprepost(V^dag, V), the inverse of the basis "
                       "change used for the Bloch-Redfield part" if sig.startswith("liou") else "")))
    tf = vec(np.eye(n, dtype=complex)).conj().T @ R0
    if np.any(tf != 0):
        bad.append(("blochredfield.bloch_redfield_tensor", "trace-functional",
                    "vec(I)^dagger R != 0"))
    for X in basis_ops(n, n):
        a = unvec(R0 @ vec(X.conj().T), n, n)
        b = unvec(R0 @ vec(X), n, n).conj().T
        if not np.array_equal(a, b):
            bad.append(("blochredfield.bloch_redfield_tensor", "hermiticity",
                        "R(X^dagger) != R(X)^dagger"))
            break
    # reference: liouvillian + documented BR expression in the eigenbasis
    w = np.array(case["w"], dtype=float)
    we = np.diag(V.conj().T @ H @ V).real
    Ae = V.conj().T @ A @ V
    K = we[:, None] - we[None, :]
    S = np.array([[f(K[a, b]) for b in range(n)] for a in range(n)], dtype=float)
    nz = np.abs(K[K != 0])
    dw_min = nz.min() if nz.size else np.inf
    cut = None if case["sec"] < 0 else case["sec"] * dw_min
    if cut is not None and not np.isfinite(cut):
        cut = None
    mask = secular_mask(K, cut, n)
    Hl = super_from_map(lambda X: lindblad_ref(np.diag(we).astype(complex),
                                               [(V.conj().T @ c @ V, 1.0) for c in cs], X), n)
    sig = None
    for Aop, name in ((Ae, None), (Ae.T, "tensor-of-transposed-operator")):
        ref = Hl + super_from_map(lambda X: br_ref(Aop, S, X), n) * mask
        if np.array_equal(R0e, ref):
            sig = name
            break
    else:
        sig = "differs-from-documented-expression"
    if sig is not None:
        bad.append(("brtensor.element-index", sig,
                    "bloch_redfield_tensor differs from liouvillian + documented "
                    "Bloch-Redfield expression"
                    + (" (tensor of the transposed coupling operator)"
                       if sig.startswith("tensor-of") else "")))
    if case["spec"] == "flat" and case["sec"] < 0:
        # white noise: R = liouvillian(H, c_ops + [sqrt(g) A]); g = 2
        want = super_from_map(lambda X: lindblad_ref(H, [(c, 1.0) for c in cs], X)
                              + 2.0 * dissip_ref(A, A, 1.0, X), n)
        if not np.array_equal(R0, want):
            s2 = ("tensor-of-transposed-operator" if np.array_equal(
                R0, super_from_map(lambda X: lindblad_ref(H, [(c, 1.0) for c in cs], X)
                                   + 2.0 * dissip_ref(V @ Ae.T @ V.conj().T,
                                                      V @ Ae.T @ V.conj().T, 1.0, X), n))
                  else "white-noise-not-lindblad")
            bad.append(("brtensor.element-index", s2,
                        "white spectrum: bloch_redfield_tensor(fock_basis=True) differs "
                        "from the Lindblad generator with c = sqrt(g) A"))
    return bad


def check_cross_matmul(case):
    """QobjEvo route: applying the Bloch-Redfield (cross) element to a state
    must agree with building the tensor and multiplying."""
    import qutip
    from qutip.core._brtensor import _BlochRedfieldCrossElement, _BlochRedfieldElement
    from qutip.core._brtools import _EigenBasisTransform, SpectraCoefficient
    bad = []
    n = case["n"]
    A = mat_unjson(case["A"])
    B = mat_unjson(case["B"])
    X = mat_unjson(case["X"])
    H = qutip.Qobj(np.diag(np.array(case["w"], dtype=complex)))
    spec = SpectraCoefficient(qutip.coefficient(spectrum_fn(case["spec"])))
    v = qutip.operator_to_vector(qutip.Qobj(X))
    for eig in (False, True):
        for meth in ("dense", "sparse", "matrix"):
            evt = _EigenBasisTransform(qutip.QobjEvo(H))
            el1 = qutip.QobjEvo(_BlochRedfieldElement(
                evt, qutip.QobjEvo(qutip.Qobj(A)), spec, np.inf, eig, dtype=meth))
            r1 = (el1(0) @ v).full()
            r2 = el1.matmul(0, v).full()
            if not np.array_equal(r1, r2):
                bad.append(("brtensor.term.matmul", "differs-from-tensor",
                            "_BlochRedfieldElement: applying to a state differs from "
                            "tensor @ state"))
            el2 = qutip.QobjEvo(_BlochRedfieldCrossElement(
                evt, qutip.QobjEvo(qutip.Qobj(A)), qutip.QobjEvo(qutip.Qobj(B)),
                spec, np.inf, eig, dtype=meth))
            r1 = (el2(0) @ v).full()
            r2 = el2.matmul(0, v).full()
            if not np.array_equal(r1, r2):
                el3 = qutip.QobjEvo(_BlochRedfieldCrossElement(
                    evt, qutip.QobjEvo(qutip.Qobj(A)), qutip.QobjEvo(qutip.Qobj(A)),
                    spec, np.inf, eig, dtype=meth))
                sig = ("uses-a_op-for-b_op" if np.array_equal((el3(0) @ v).full(), r2)
                       else "differs-from-tensor")
                bad.append(("brtensor.crossterm.matmul", sig,
                            "_BlochRedfieldCrossElement: applying the element to a state "
                            "(QobjEvo.matmul) differs from tensor @ state"
                            + (" - matmul_data_t transforms a_op twice and never b_op"
                               if sig.startswith("uses") else "")))
            if bad:
                return bad
    return bad


def doc_tensor(A, B, S, K, cut, colstack=True):
    """R_abcd of the documentation (alpha = A, beta = B), written as loops,
    placed at the column-stacked indices (rho_ab lives at a + n*b) or, for
    classification, at the row-major ones."""
    n = A.shape[0]
    R = np.zeros((n * n, n * n), dtype=complex)
    for a, b, c, d in itertools.product(range(n), repeat=4):
        if cut is not None and not abs(K[a][b] - K[c][d]) < cut:
            continue
        e = 0
        if b == d:
            e += sum(A[a, k] * B[k, c] * S[c][k] for k in range(n))
        e -= B[a, c] * A[d, b] * S[c][a]
        if a == c:
            e += sum(A[d, k] * B[k, b] * S[d][k] for k in range(n))
        e -= B[a, c] * A[d, b] * S[d][b]
        if colstack:
            R[a + n * b, c + n * d] = -0.5 * e
        else:
            R[a * n + b, c * n + d] = -0.5 * e
    return R


def check_cterm_case(case):
    """the three cross-term kernels against each other and against the
    documented R_abcd (loop form, independent of br_ref)."""
    from qutip.core import data as _data
    from qutip.core._brtensor import _br_cterm_dense, _br_cterm_sparse, _br_cterm_data
    bad = []
    n = case["n"]
    A = mat_unjson(case["A"])
    B = mat_unjson(case["B"])
    S = np.array(case["S"], dtype=float)
    K = np.array(case["K"], dtype=float)
    cut = np.inf if case["cut"] is None else float(case["cut"])
    try:
        outs = [f(_data.Dense(A), _data.Dense(B), S.copy(), K.copy(), cut).to_array()
                for f in (_br_cterm_dense, _br_cterm_sparse, _br_cterm_data)]
    except Exception as ex:      # noqa: BLE001
        return [("brtensor.br_cterm", "raises:" + type(ex).__name__,
                 "_br_cterm_* raised %r" % (ex,))]
    if not (np.array_equal(outs[0], outs[1]) and np.array_equal(outs[0], outs[2])):
        bad.append(("brtensor.br_cterm", "kernels-disagree",
                    "_br_cterm_dense/_sparse/_data disagree"))
    ref = doc_tensor(A, B, case["S"], case["K"], case["cut"])
    if not np.array_equal(outs[0], ref):
        rowmajor = doc_tensor(A, B, case["S"], case["K"], case["cut"], colstack=False)
        sig = ("tensor-of-transposed-operator" if np.array_equal(outs[0], rowmajor)
               else "differs-from-documented-expression")
        bad.append(("brtensor.element-index", sig,
                    "the Bloch-Redfield cross-term tensor is not the documented R_abcd at "
                    "the column-stacked indices"
                    + (" (it is stored at the row-major index a*n+b)"
                       if sig.startswith("tensor-of") else "")))
    return bad


def gen_cross_case(rng):
    n = rng.choice([2, 3])
    return {"n": n, "w": rng.sample(range(-3, 6), n),
            "A": mat_json(rand_mat(rng, n, n, "herm")),
            "B": mat_json(rand_mat(rng, n, n, "any")),
            "X": mat_json(rand_mat(rng, n, n, "any")),
            "spec": rng.choice(["flat", "step", "quad"])}


# ------------------------------------- operator-kets in every storage state
def ket_states(v):
    """the column `v` (numpy (N,1) complex) as data-layer objects in every
    storage state the library can produce; returns [(name, Data)]."""
    from qutip.core import data as _data
    from qutip.core.data import dense as _dense
    N = v.shape[0]
    out = []
    dF = _data.Dense(np.asfortranarray(v))
    csr = _data.to(_data.CSR, dF)
    out.append(("dense-F", dF))
    out.append(("csr", csr))
    out.append(("dia", _data.to(_data.Dia, dF)))
    out.append(("dense<-csr", _data.to(_data.Dense, csr)))
    out.append(("dense<-dia", _data.to(_data.Dense, _data.to(_data.Dia, dF))))
    z = _dense.zeros(N, 1, fortran=False)
    z.as_ndarray()[:, :] = v
    out.append(("dense-zeros(fortran=False)", z))
    z2 = _dense.zeros(N, 1, fortran=True)
    z2.as_ndarray()[:, :] = v
    out.append(("dense-zeros(fortran=True)", z2))
    out.append(("dense(np C-ordered)", _data.Dense(np.ascontiguousarray(v))))
    eye_csr = _data.identity[_data.CSR](N)
    for nm, d in list(out):
        if nm in ("dense<-csr", "dense-zeros(fortran=False)", "dense-F"):
            out.append(("csr-identity @ " + nm, _data.matmul(eye_csr, d)))
    out.append(("dense.copy() of dense<-csr", _data.to(_data.Dense, csr).copy()))
    return out


def gen_ket_case(rng):
    r, c = rng.choice([(2, 2), (3, 3), (2, 3), (3, 2), (1, 3), (3, 1), (2, 2), (3, 3)])
    for _ in range(20):
        X = rand_mat(rng, r, c, "any")
        if r != c or not np.array_equal(X, X.T):
            if np.count_nonzero(X) >= min(2, r * c):
                break
    n = r
    return {"r": r, "c": c, "X": mat_json(X),
            "A": mat_json(rand_mat(rng, n, n, "any")), "B": mat_json(rand_mat(rng, c, c, "any")),
            "w": rng.sample(range(-3, 6), n), "fmt": rng.choice(FORMATS)}


def check_ket_case(case):
    """every vec/unvec identity and every superoperator-application identity
    with the operator-ket in every storage state (incl. Dense columns flagged
    C-ordered), inplace and non-inplace unstacking, and the operator-ket
    branch of _EigenBasisTransform."""
    import warnings
    import qutip
    from qutip.core import data as _data
    from qutip.core._brtools import _EigenBasisTransform
    bad = []
    seen = {}
    r, c = case["r"], case["c"]
    X = mat_unjson(case["X"])
    A = mat_unjson(case["A"])
    B = mat_unjson(case["B"])
    v = vec(X)

    def add(site, sig, what):
        if not any(b[0] == site and b[1] == sig for b in bad):
            bad.append((site, sig, what))

    def flag(d):
        return ("F" if d.fortran else "C") if isinstance(d, _data.Dense) else type(d).__name__

    try:
        states = ket_states(v)
        for nm, d in states:
            st = "%s[%s]" % (nm, flag(d))
            seen[flag(d)] = seen.get(flag(d), 0) + 1
            if not np.array_equal(d.to_array(), v):
                add("data.ket-state", "construction:" + nm, "state %s does not hold vec(X)" % st)
                continue
            # -- unstacking: dispatcher, specialisation, inplace, Python wrappers
            got = _data.column_unstack(d, r).to_array()
            if not np.array_equal(got, X):
                add("reshape.column_unstack", "ket-state:" + flag(d),
                    "column_unstack(vec X) != X for the operator-ket state %s%s" % (
                        st, " (it is X^T reshaped)" if got.shape == X.shape and np.array_equal(
                            got, X.T.reshape(X.shape, order='F')) or (
                            r == c and np.array_equal(got, X.T)) else ""))
            if isinstance(d, _data.Dense):
                for inplace in (False, True):
                    dd = d.copy()
                    with warnings.catch_warnings():
                        warnings.simplefilter("ignore")
                        got = _data.column_unstack_dense(dd, r, inplace).to_array()
                    if not np.array_equal(got, X):
                        add("reshape.column_unstack_dense", "inplace=%s:%s" % (inplace, flag(d)),
                            "column_unstack_dense(%s, inplace=%s) != X" % (st, inplace))
            if not np.array_equal(qutip.unstack_columns(d, (r, c)).to_array(), X):
                add("superoperator.unstack_columns", "ket-state:" + flag(d),
                    "unstack_columns(%s) != X" % st)
            back = _data.column_stack(_data.column_unstack(d, r))
            if not np.array_equal(back.to_array(), v):
                add("reshape.column_stack", "roundtrip:" + flag(d),
                    "column_stack(column_unstack(v)) != v for state %s" % st)
            # -- Qobj level
            kq = qutip.Qobj(d, dims=[[[r], [c]], [1]], superrep="super", copy=False)
            if kq.isoperket:
                if not np.array_equal(qutip.vector_to_operator(kq).full(), X):
                    add("superoperator.vector_to_operator", "ket-state:" + flag(d),
                        "vector_to_operator(ket in state %s) != X" % st)
            # -- superoperator application (square operators)
            if r == c and r > 1:
                n = r
                qa = mk_qobj(A, case["fmt"])
                qb = mk_qobj(B, case["fmt"])
                Hh = A + A.conj().T
                sups = [("spre", qutip.spre(qa), A @ X),
                        ("spost", qutip.spost(qa), X @ A),
                        ("sprepost", qutip.sprepost(qa, qb), A @ X @ B),
                        ("liouvillian", qutip.liouvillian(mk_qobj(Hh, case["fmt"]), [qb]),
                         lindblad_ref(Hh, [(B, 1.0)], X))]
                for snm, Sq, want in sups:
                    for sfmt in FORMATS:
                        S2 = Sq.to(sfmt)
                        res = S2 * kq
                        if not np.array_equal(qutip.vector_to_operator(res).full(), want):
                            add("superoperator.apply", "%s:ket-state:%s" % (snm, flag(d)),
                                "vector_to_operator(%s[%s] * ket[%s]) differs from the operator "
                                "expression (result state %s)" % (
                                    snm, sfmt, st, flag(res.data)))
                        prod = _data.matmul(S2.data, d)
                        if not np.array_equal(_data.column_unstack(prod, n).to_array(), want):
                            add("superoperator.apply", "%s:data:%s" % (snm, flag(d)),
                                "column_unstack(matmul(%s[%s], ket[%s])) differs from the "
                                "operator expression (product state %s)" % (
                                    snm, sfmt, st, flag(prod)))
        # -- the CSR->dense conversion of an operator-ket Qobj
        if r == c:
            xq = mk_qobj(X, "CSR")
            kd = qutip.operator_to_vector(xq).to("Dense")
            seen["qobj.to(Dense)[%s]" % flag(kd.data)] = 1
            if not np.array_equal(qutip.vector_to_operator(kd).full(), X):
                add("superoperator.vector_to_operator", "operator_to_vector(csr).to(dense)",
                    "vector_to_operator(operator_to_vector(X_csr).to('Dense')) != X "
                    "(ket flagged %s)" % flag(kd.data))
            # -- _EigenBasisTransform, operator-ket branch
            n = r
            H = qutip.Qobj(np.diag(np.array(case["w"], dtype=complex)))
            ev = _EigenBasisTransform(qutip.QobjEvo(H))
            V = ev.evecs(0).to_array()
            if np.array_equal(V @ V.conj().T, np.eye(n)):
                for nm, d in states:
                    st = "%s[%s]" % (nm, flag(d))
                    t = ev.to_eigbasis(0, d)
                    if not np.array_equal(_data.column_unstack(t, n).to_array(),
                                          V.conj().T @ X @ V):
                        add("brtools._EigenBasisTransform.operator-ket", "to_eigbasis:" + flag(d),
                            "to_eigbasis(operator-ket %s) != vec(V^dag X V)" % st)
                    f = ev.from_eigbasis(0, d)
                    if not np.array_equal(_data.column_unstack(f, n).to_array(),
                                          V @ X @ V.conj().T):
                        add("brtools._EigenBasisTransform.operator-ket", "from_eigbasis:" + flag(d),
                            "from_eigbasis(operator-ket %s) != vec(V X V^dag)" % st)
    except Exception as ex:      # noqa: BLE001
        add("data.ket-state", "raises:" + type(ex).__name__, "raised %r" % (ex,))
    return bad, seen


# ------------------------------------------- time-dependent inputs / history
def _lin_t(t):
    return float(t)


def _lin_t_args(t, w0):
    return float(w0) * float(t)


def _close(a, b, exact):
    a, b = np.asarray(a), np.asarray(b)
    if a.shape != b.shape:
        return False
    if exact and np.array_equal(a, b):
        return True
    scale = max(1.0, float(np.abs(b).max()) if b.size else 1.0)
    # numerical validation layer (eigen-decomposition is LAPACK): a wrong basis
    # change is O(1); rounding is ~1e-13
    return bool(np.abs(a - b).max() <= 1e-9 * scale)


def gen_hist_case(rng, exact):
    n = rng.choice([2, 3])
    for _ in range(50):
        H0 = np.diag([complex(rng.randint(-3, 3)) for _ in range(n)])
        if exact:
            # commuting diagonal parts with level crossings between the sample
            # times: the (sorted) eigenvector matrix changes by a permutation
            H1 = np.diag([complex(rng.randint(-3, 3)) for _ in range(n)])
        else:
            H1 = rand_mat(rng, n, n, "herm")
            if np.allclose(H0 @ H1, H1 @ H0):
                continue
        orders = set()
        ok = True
        for t in range(4):
            d = np.diag(H0 + t * H1).real if exact else np.linalg.eigvalsh(H0 + t * H1)
            if exact and len(set(d)) < n:
                ok = False
            orders.add(tuple(np.argsort(d, kind="stable")))
        if ok and (not exact or len(orders) > 1):
            break
    A0 = rand_mat(rng, n, n, "herm")
    A1 = rand_mat(rng, n, n, "herm") if rng.random() < 0.4 else None
    times = [rng.choice([0, 1, 2, 3]) for _ in range(5)]
    if len(set(times)) < 3:
        times = rng.sample([0, 1, 2, 3], 4) + [rng.choice([0, 1, 2, 3])]
    return {"n": n, "exact": exact, "H0": mat_json(H0), "H1": mat_json(H1),
            "A0": mat_json(A0), "A1": None if A1 is None else mat_json(A1),
            "B": mat_json(rand_mat(rng, n, n, "any")),
            "cs": [mat_json(rand_mat(rng, n, n))] if rng.random() < 0.4 else [],
            "times": times, "spec": rng.choice(["flat", "step", "quad"]),
            "sec": rng.choice([-1, -1, 0.1]),
            "kind": rng.choice(["tensor", "tensor", "brterm", "brcrossterm"]),
            "args": rng.random() < 0.5,
            "S": mat_json(rand_mat(rng, n * n, n * n, "any")),
            "X": mat_json(rand_mat(rng, n, n, "any"))}


def _spec_coeff(kind):
    import qutip
    f = spectrum_fn(kind)
    return qutip.coefficient(lambda t, w: f(w), args={"w": 0})


def _hist_build(case, meth, fb, tconst=None, w0=1.0, spectra=None):
    """the generator as ONE time-dependent object (tconst None) or built from
    the constant operators H(t), A(t) (fresh object)."""
    import qutip
    from qutip.core.blochredfield import bloch_redfield_tensor, brterm, brcrossterm
    H0, H1 = mat_unjson(case["H0"]), mat_unjson(case["H1"])
    A0 = mat_unjson(case["A0"])
    A1 = None if case["A1"] is None else mat_unjson(case["A1"])
    B = qutip.Qobj(mat_unjson(case["B"]))
    cs = [qutip.Qobj(mat_unjson(c)) for c in case["cs"]]
    spec = spectra if spectra is not None else _spec_coeff(case["spec"])
    if tconst is None:
        if case["args"]:
            H = qutip.QobjEvo([qutip.Qobj(H0), [qutip.Qobj(H1), _lin_t_args]], args={"w0": 1.0})
        else:
            H = qutip.QobjEvo([qutip.Qobj(H0), [qutip.Qobj(H1), _lin_t]])
        A = qutip.Qobj(A0) if A1 is None else qutip.QobjEvo(
            [qutip.Qobj(A0), [qutip.Qobj(A1), _lin_t]])
    else:
        H = qutip.Qobj(H0 + w0 * tconst * H1)
        A = qutip.Qobj(A0 if A1 is None else A0 + tconst * A1)
    kw = dict(sec_cutoff=case["sec"], fock_basis=fb, br_computation_method=meth)
    if case["kind"] == "tensor":
        return bloch_redfield_tensor(H, [(A, spec)], c_ops=cs, **kw)
    if case["kind"] == "brterm":
        return brterm(H, A, spec, **kw)
    return brcrossterm(H, A, B, spec, **kw)


def check_hist_case(case):
    """time-dependent H (and a_op): R(t) evaluated at several times in a given
    ORDER on one object vs the tensor of the constant operators; structural
    laws; matmul on operator-kets and superoperators; argument replacement."""
    import qutip
    bad = []
    n, exact = case["n"], case["exact"]
    S = mat_unjson(case["S"])
    X = mat_unjson(case["X"])
    I_vec = vec(np.eye(n, dtype=complex)).conj().T

    def add(site, sig, what):
        if not any(b[0] == site and b[1] == sig for b in bad):
            bad.append((site, sig, what))

    for meth in ("dense", "sparse", "matrix"):
        for fb in (True, False):
            tag = "%s/%s/fock_basis=%s" % (case["kind"], meth, fb)
            try:
                obj = _hist_build(case, meth, fb)
                R, Vevo = (obj, None) if fb else obj
                fresh = {}
                if meth == "dense" and fb:
                    from qutip.core._brtools import _EigenBasisTransform
                    evh = _EigenBasisTransform(qutip.QobjEvo(
                        [qutip.Qobj(mat_unjson(case["H0"])),
                         [qutip.Qobj(mat_unjson(case["H1"])), _lin_t]]))
                    for t in case["times"]:
                        if np.any(np.diff(np.asarray(evh.eigenvalues(float(t)))) < 0):
                            add("brtools._EigenBasisTransform.eigenvalues", "not-sorted",
                                "eigenvalues(t=%s) of the time-dependent H are not sorted" % t)
                for t in case["times"]:
                    if t not in fresh:
                        fo = _hist_build(case, meth, fb, tconst=t)
                        fresh[t] = (fo.full(), None) if fb else (fo[0].full(), fo[1].full())
                    M = R(float(t)).full()
                    want, Vw = fresh[t]
                    if not _close(M, want, exact):
                        add("brtensor.time-dependent", "R(t)-differs-from-constant-tensor",
                            "%s: R(t=%s) of the time-dependent object (times evaluated in "
                            "order %s) differs from the tensor built from the constant H(t), "
                            "a_op(t)" % (tag, t, case["times"]))
                    if not fb and not _close(Vevo(float(t)).full(), Vw, exact):
                        add("brtensor.time-dependent", "evecs(t)",
                            "%s: returned eigenvectors at t=%s differ from those of H(t)" % (tag, t))
                    if not _close(I_vec @ M, np.zeros((1, n * n)), False):
                        add("brtensor.time-dependent", "trace-functional",
                            "%s: vec(I)^dagger R(t=%s) != 0" % (tag, t))
                    if case["kind"] != "brcrossterm":
                        for Y in basis_ops(n, n):
                            a = unvec(M @ vec(Y.conj().T), n, n)
                            b = unvec(M @ vec(Y), n, n).conj().T
                            if not _close(a, b, False):
                                add("brtensor.time-dependent", "hermiticity",
                                    "%s: R(t=%s)(Y^dagger) != R(t=%s)(Y)^dagger" % (tag, t, t))
                                break
                # applying the object to an operator-ket and to a superoperator
                for t in reversed(case["times"]):
                    want = fresh[t][0]
                    got = R.matmul(float(t), qutip.operator_to_vector(qutip.Qobj(X))).full()
                    if not _close(got, want @ vec(X), False):
                        add("brtensor.time-dependent", "matmul-operator-ket",
                            "%s: R.matmul(t=%s, vec X) != R(t) vec X" % (tag, t))
                    Sq = qutip.Qobj(S, dims=R.dims)
                    got = R.matmul(float(t), Sq).full()
                    if not _close(got, want @ S, False):
                        add("brtensor.time-dependent", "matmul-superoperator",
                            "%s: R.matmul(t=%s, S) != R(t) S for a superoperator S" % (tag, t))
                # argument replacement (QobjEvo with args)
                if case["args"]:
                    t = case["times"][0] or 1
                    base = R(float(t)).full()
                    try:
                        same = R(float(t), w0=1.0).full()
                        if not _close(same, base, False):
                            # the Bloch-Redfield part rebuilt in the other basis?
                            ct = dict(case, kind="brterm" if case["kind"] == "tensor"
                                      else case["kind"])
                            t_this = _hist_build(ct, meth, fb, tconst=t)
                            t_other = _hist_build(ct, meth, not fb, tconst=t)
                            t_this = t_this.full() if fb else t_this[0].full()
                            t_other = t_other.full() if not fb else t_other[0].full()
                            sig = ("drops-eig_basis"
                                   if _close(same - base, t_other - t_this, False)
                                   else "same-arguments-different-tensor")
                            add("brtensor.replace_arguments", sig,
                                "%s: R(t, w0=1) with the arguments it already has differs "
                                "from R(t)%s" % (tag, " (it is the tensor in the other output "
                                                 "basis: replace_arguments rebuilds the element "
                                                 "without eig_basis/dtype)"
                                                 if sig.startswith("drops") else ""))
                        two = R(float(t), w0=2.0).full()
                        fo = _hist_build(case, meth, fb, tconst=t, w0=2.0)
                        fo = fo.full() if fb else fo[0].full()
                        if not _close(two, fo, False) and _close(same, base, False):
                            add("brtensor.replace_arguments", "new-arguments",
                                "%s: R(t, w0=2) differs from the tensor of H0 + 2 t H1" % tag)
                    except Exception as ex:      # noqa: BLE001
                        sig = ("crossterm-rebuilt-as-term:" + type(ex).__name__
                               if case["kind"] == "brcrossterm" else "raises:" + type(ex).__name__)
                        add("brtensor.replace_arguments", sig,
                            "%s: evaluating with explicit arguments raises %r" % (tag, ex))
            except Exception as ex:      # noqa: BLE001
                add("brtensor.time-dependent", "raises:" + type(ex).__name__,
                    "%s raised %r" % (tag, ex))
    return bad


def check_spectra_args(case):
    """callable spectrum f(w) (SpectraCoefficient) + new arguments."""
    import qutip
    c2 = dict(case, kind="brterm", args=True)
    try:
        R = _hist_build(c2, "dense", True, spectra=spectrum_fn(case["spec"]))
        a = R(1.0).full()
        b = R(1.0, w0=1.0).full()
        if not _close(a, b, False):
            return [("brtools.SpectraCoefficient.replace_arguments", "different-tensor",
                     "brterm with a callable spectrum: R(t, w0=1) != R(t)")]
    except AttributeError as ex:
        return [("brtools.SpectraCoefficient.replace_arguments", "AttributeError:replace",
                 "brterm with a callable spectrum f(w): evaluating with explicit arguments "
                 "raises %r (Coefficient has replace_arguments, not replace)" % (ex,))]
    except Exception as ex:      # noqa: BLE001
        return [("brtools.SpectraCoefficient.replace_arguments", "raises:" + type(ex).__name__,
                 "raises %r" % (ex,))]
    return []


def check_transform_history(case):
    """_EigenBasisTransform used directly: to_eigbasis / from_eigbasis of kets,
    operators, operator-kets and superoperators at successive times on one
    object vs a fresh transform of the constant H(t)."""
    import qutip
    from qutip.core import data as _data
    from qutip.core._brtools import _EigenBasisTransform
    bad = []
    n, exact = case["n"], case["exact"]
    H0, H1 = qutip.Qobj(mat_unjson(case["H0"])), qutip.Qobj(mat_unjson(case["H1"]))
    Hevo = qutip.QobjEvo([H0, [H1, _lin_t]])
    X = mat_unjson(case["X"])
    S = mat_unjson(case["S"])
    shapes = {"ket": X[:, :1].copy(), "oper": X, "operator-ket": vec(X), "super": S}
    for first in ("super", "oper"):
        ev = _EigenBasisTransform(Hevo)
        prevV = None
        for t in case["times"]:
            fr = _EigenBasisTransform(qutip.QobjEvo(Hevo(float(t))))
            order = [first] + [k for k in shapes if k != first]
            for k in order:
                d = _data.Dense(shapes[k])
                try:
                    got = ev.to_eigbasis(float(t), d).to_array()
                    want = fr.to_eigbasis(0.0, d).to_array()
                    back = ev.from_eigbasis(float(t), _data.Dense(want)).to_array()
                except Exception as ex:      # noqa: BLE001
                    bad.append(("brtools._EigenBasisTransform", "raises:" + type(ex).__name__,
                                "to/from_eigbasis(%s) raised %r" % (k, ex)))
                    return bad
                if not _close(got, want, exact) or not _close(back, shapes[k], False):
                    V = fr.evecs(0.0).to_array()
                    sig = "differs:" + k
                    if k == "super" and prevV is not None:
                        Cinv = np.kron(prevV.T, V)     # kron_transpose(V(t_prev)^dagger, V(t))
                        stale = Cinv.conj().T @ S @ Cinv
                        if _close(got, stale, False):
                            sig = "stale-inverse:super"
                    bad.append(("brtools._EigenBasisTransform.history", sig,
                                "to_eigbasis(t=%s, %s) after earlier times %s differs from a "
                                "fresh transform of H(t)%s" % (
                                    t, k, case["times"],
                                    ": _inv(t) returns the cached adjoint eigenvectors of the "
                                    "previous time (the cache is only cleared by evecs(t), which "
                                    "_S_converter_inverse evaluates after _inv(t))"
                                    if sig.startswith("stale") else "")))
                    return bad
            prevV = fr.evecs(0.0).to_array().conj().T.copy()
            prevV = prevV  # V(t)^dagger
    return bad


# ---------------------------------------------------------------------- run
def report(ctx, problems, detail):
    for site, sig, what in problems:
        ctx.violation(site, sig, what, detail)


def run_oracle(ctx, rng, terms, n_liou, n_small, n_br, n_brt, n_cross):
    dist = {"liouvillian_route": {}, "chi": {}, "br_spec": {}, "br_cut": {}}
    for _ in range(n_liou):
        case = gen_liou_case(rng, not ctx.quick)
        dist["liouvillian_route"][case["route"]] = dist["liouvillian_route"].get(case["route"], 0) + 1
        ck = "none" if case["chi"] is None else ("zeros" if not any(case["chi"]) else "nonzero")
        dist["chi"][ck] = dist["chi"].get(ck, 0) + 1
        n = int(np.prod(case["dims"]))
        ctx.count_case(("liou", json.dumps(case, sort_keys=True)), nontrivial=n > 1)
        report(ctx, check_liou_case(ctx, case, terms), {"liouvillian": case})
        ctx.cov["traces_validated_against_impl"] += 1
        ctx.sample({"liouvillian_case": {k: case[k] for k in ("dims", "route", "chi", "fmtH", "fmtC")}},
                   maxn=3)
    dist["small"] = check_small(ctx, rng, terms, n_small)
    dist["malformed"] = malformed(ctx)
    for _ in range(n_brt):
        case = gen_brt_case(rng, not ctx.quick)
        ctx.count_case(("brt", json.dumps(case, sort_keys=True)))
        report(ctx, check_brt_case(case), {"bloch_redfield_tensor": case})
    for _ in range(n_cross):
        case = gen_cross_case(rng)
        ctx.count_case(("cross", json.dumps(case, sort_keys=True)))
        report(ctx, check_cross_matmul(case), {"br_matmul": case})
    dist["ket_states"] = {}
    for k in range(max(4, n_small // 10)):
        case = gen_ket_case(rng)
        ctx.count_case(("ket", json.dumps(case, sort_keys=True)))
        problems, seen = check_ket_case(case)
        for kk, vv in seen.items():
            dist["ket_states"][kk] = dist["ket_states"].get(kk, 0) + vv
        report(ctx, problems, {"ket_state": case})
    n_hist = max(2, n_brt // 2)
    dist["br_history"] = {"exact": 0, "numeric": 0}
    for k in range(n_hist):
        exact = (k % 2 == 0)
        case = gen_hist_case(rng, exact)
        dist["br_history"]["exact" if exact else "numeric"] += 1
        ctx.count_case(("hist", json.dumps(case, sort_keys=True)))
        report(ctx, check_hist_case(case), {"br_history": case})
        report(ctx, check_transform_history(case), {"br_transform_history": case})
        if k < 2:
            report(ctx, check_spectra_args(case), {"br_spectra_args": case})
    return dist


def run_br_correspondence(ctx, rng, n_br, dist):
    cases, impls = [], []
    cdir = os.path.join(vlib.VERIF, "corpus", "C07")
    if os.path.isdir(cdir):
        for f in sorted(os.listdir(cdir)):
            c = json.load(open(os.path.join(cdir, f)))
            if "br_term" in c:
                cases.append(c["br_term"])
    while len(cases) < n_br:
        cases.append(gen_br_case(rng, not ctx.quick))
    for case in cases:
        dist["br_spec"][case["spec"]] = dist["br_spec"].get(case["spec"], 0) + 1
        dist["br_cut"][str(case["cut"])] = dist["br_cut"].get(str(case["cut"]), 0) + 1
        ctx.count_case(("br", json.dumps(case, sort_keys=True)), nontrivial=case["n"] > 1)
        problems, d = check_br_case(case)
        report(ctx, problems, {"br_term": case})
        impls.append(d)
        if "B" not in case:
            case["B"] = mat_json(rand_mat(rng, case["n"], case["n"], "any"))
        report(ctx, check_cterm_case(case), {"br_cterm": case})
    try:
        vals = vlib.coq_eval_values("cases_C07br", HEADER_BR,
                                    [br_coq_expr(c) for c in cases], chunk=40)
    except RuntimeError as e:
        ctx.violation("corr:C07:model-eval", "coqc", "model evaluation failed",
                      {"log": str(e)}, found_input=False)
        return
    for case, d, v in zip(cases, impls, vals):
        if d is None:
            continue
        mv = vlib.parse_coq_value(v)
        M = np.array([[complex(x[0], x[1]) for x in row] for row in mv], dtype=complex)
        if M.shape != d.shape or not np.array_equal(M, 2 * d):
            ctx.violation("corr:brtensor._br_term_dense", "model-differs",
                          "Coq model of the element formula and _br_term_dense disagree",
                          {"br_term": case, "impl_x2": mat_json(2 * d), "model": mat_json(M)})
        ctx.cov["traces_validated_against_impl"] += 1
    ctx.sample({"br_term_case": cases[-1]}, maxn=5)


def replay_witness(ctx):
    """the former counter-example (fixed by the `.transpose()` in the kernels):
    H = sigma_z, A = sigma_x + sigma_y, white spectrum."""
    case = {"n": 2, "A": mat_json(np.array([[0, 1 - 1j], [1 + 1j, 0]])), "w": [-1, 1],
            "S": [[2, 2], [2, 2]], "K": [[0, -2], [2, 0]], "cut": None, "spec": "flat",
            "fmt": "Dense"}
    problems, d = check_br_case(case)
    X = np.array([[0, 1], [0, 0]], dtype=complex)
    got = unvec(2 * d @ vec(X), 2, 2)
    detail = {"br_term": case, "X": mat_json(X), "impl_2R_X": mat_json(got),
              "coq_lemma": "br_dense_witness"}
    if not np.array_equal(got, np.array([[0, -8], [8j, 0]])):
        ctx.violation("corr:brtensor._br_term_dense", "witness-differs",
                      "the witness of Proofs/C07_br.v (br_dense_witness) evaluates "
                      "differently on the implementation", detail)
    report(ctx, problems, detail)
    bc = {"bloch_redfield_tensor": {"n": 2, "w": [1, -1], "A": mat_json(np.array(
        [[0, 1 - 1j], [1 + 1j, 0]])), "cs": [], "spec": "flat", "sec": -1}}
    report(ctx, check_brt_case(bc["bloch_redfield_tensor"]), bc)


def run(ctx):
    rng = random.Random(ctx.seed * 7919 + 7)
    ctx.cov["rule"] = (
        "liouvillian case = (tensor dims, H kind/None, 0-3 collapse operators, chi "
        "None/zeros/integers with exact exp stand-in, storage format of H and of c_ops, "
        "route data|data_only|QobjEvo H|QobjEvo c_op); small case = one of spre/spost/"
        "sprepost(square, rectangular, QobjEvo)/lindblad_dissipator(a[,b],chi)/stacking/"
        "term-by-term assembly; br_term case = (n, Gaussian-integer A, integer spectrum "
        "matrix, sorted integer eigenvalues, cut-off None/integer, format); "
        "bloch_redfield_tensor case = (diagonal integer H, A, c_ops, spectrum kind, "
        "sec_cutoff) x 3 methods x 2 bases; non-trivial when dimension > 1")
    ctx.cov["trusted_base"] += [
        "translator tools/tx_c07_superop.py: supported subset = straight-line code over "
        "_data.kron/kron_transpose/add/sub/mul/matmul/multiply/transpose/identity_like, "
        "Qobj arithmetic (+ - * @, scalar *), .dag()/.adjoint()/.conj(), the c_ops/chi "
        "loop and generator sum, `if chi:`; guards `if ..: raise`, dims=/isherm=/superrep= "
        "keywords (C02/C03) and the liouvillian argument-normalisation preamble are "
        "skipped; fails closed otherwise",
        "den/act semantics of the data-layer primitives (kron = numpy.kron, "
        "kron_transpose(b,a) = kron(b^T,a), add(l,r,s) = l+s*r, column stacking): modelled, "
        "checked against the implementation by the exact correspondence K1 in every format",
        "Section variables: i (conj i = -i), h (h + h = 1), expi (expi 0 = 1) standing for "
        "1j, 0.5, chi |-> np.exp(1j*chi); Qobj/QobjEvo arithmetic = matrix arithmetic (C02/C05)",
        "Bloch-Redfield: eigen-decomposition (_EigenBasisTransform) is outside the model "
        "[NUM]; exact runs use diagonal integer H; _br_term_sparse loop-skipping and the "
        "secular mask of _br_term_data are checked by the oracle only (not under a theorem)",
        "translator tools/tx_c07_kernels.py: the Cython loop kernels are read after stripping "
        "cdef declarations and casts; statement shapes are matched exactly (pre-sum nest, "
        "four-fold element nest, store index a*nrows+b / c*nrows+d, zero-initialised buffers); "
        "`fabs(x) < cutoff` is the abstract predicate `near x` over an abelian group of skew "
        "values (exact arithmetic: floating-point skew differences and borderline cut-offs are "
        "outside); the loop-skipping devices of the sparse kernels (break over c, d_min, break "
        "over d, break in the pre-sum loop) are emitted as executable loops over an ordered "
        "field (Gen/C07_sparse.v: skeleton matched exactly, conditions read from the AST) and "
        "proved sound under the hypothesis that the eigenvalues are sorted in non-decreasing "
        "order (the eigen-solver's output order is assumed, and checked by the oracle); entries "
        "never pushed to the COO buffers are zero and pushed entries are distinct "
        "(csr.from_coo_pointers is not modelled); "
        "_EigenBasisTransform: V = evecs(t) and _inv(t) = V.adjoint() (eigen-decomposition "
        "itself is LAPACK)",
        "MathComp 1.15 (ssreflect, algebra, real_closed.mxtens), mathcomp.algebra_tactics (ring)"]

    def oracle_all(budget=1.0):
        q = ctx.quick
        return run_oracle(ctx, rng, terms,
                          int((60 if q else 1500) * budget), int((70 if q else 1500) * budget),
                          0, int((10 if q else 150) * budget), int((3 if q else 30) * budget))

    # ---- (T) translator
    terms = None
    try:
        terms = tx.generate()
        ctx.add_obligation("translator:tx_c07_superop covers spre/spost/sprepost/"
                           "lindblad_dissipator/liouvillian/_br_term_data", True)
        ctx.sample({"generated_term": "liouvillian_data",
                    "coq": tx.coq(terms["liouvillian_data"])[:600]})
        txk.generate()
        ctx.add_obligation("translator:tx_c07_kernels covers _br_term_dense/_sparse, "
                           "_br_cterm_dense/_sparse, the secular masks, _br_cterm_data and "
                           "the tensor/operator branches of to_eigbasis/from_eigbasis", True)
    except tx.Unsupported as ex:
        ctx.add_obligation("translator:tx_c07_superop/tx_c07_kernels", False)
        before = len(ctx.violations)
        # implementation-level oracle only (no generated terms to compare)
        oracle_all()
        if len(ctx.violations) == before:
            ctx.violation("translator:C07", str(ex)[:80],
                          "the source is no longer inside the translated subset, so the "
                          "theorems do not cover it: %s" % ex, {"error": str(ex)},
                          found_input=False)
        return

    # ---- proofs over the generated terms
    def search(failed, log):
        oracle_all(0.5)

    nviol = len(ctx.violations)
    ok = vlib.standard_proof_step(
        ctx, ["Props/C07.vo", "Props/C07_kernels.vo", "Props/C07_sparse.vo"],
        ["Props/C07.v", "Props/C07_kernels.v", "Props/C07_sparse.v"], search)
    if not ok and len(ctx.violations) == nviol:
        # the search met only listed findings: the broken proof must still fail the run
        ctx.violation("proof:C07", "theorems-no-longer-check",
                      "the theorems of Props/C07.v no longer check against the terms "
                      "generated from the current source, and the oracle found no unlisted "
                      "failing input", {"props": "Props/C07.v"}, found_input=False)

    # ---- oracle + correspondences (always)
    dist = oracle_all()
    run_br_correspondence(ctx, rng, 60 if ctx.quick else 1200, dist)
    if ok and not ctx.quick:
        with vlib.Lock("coq"):
            rc, out = vlib.sh(["timeout", "900", "coqchk", "-silent", "-o", "-Q", ".", "QV",
                               "QV.Props.C07"], timeout=930, cwd=vlib.COQ)
        good = rc == 0 and "Axioms: <none>" in out
        ctx.add_obligation("coqchk QV.Props.C07 (Axioms: <none>)", good)
        if good:
            with vlib.Lock("coq"):
                rc, out = vlib.sh(["timeout", "900", "coqchk", "-silent", "-o", "-Q", ".", "QV",
                                   "QV.Props.C07_kernels", "QV.Props.C07_sparse"],
                                  timeout=930, cwd=vlib.COQ)
            # mathcomp.algebra_tactics (ring) loads Coq's primitive machine integers /
            # floats; coqchk lists those primitives under "Axioms".  Nothing else may
            # appear there (every theorem prints "Closed under the global context").
            m = re.search(r"\* Axioms:(.*?)\* Constants/Inductives relying on type-in-type",
                          out, re.S)
            listed = [l.strip() for l in (m.group(1) if m else "?").split("\n") if l.strip()]
            extra = [l for l in listed if l != "<none>" and not re.match(
                r"Coq\.(Numbers\.Cyclic\.Int63\.PrimInt63|Floats\.PrimFloat|Array\.PArray)\.", l)]
            good = rc == 0 and m is not None and not extra
            ctx.add_obligation("coqchk QV.Props.C07_kernels + QV.Props.C07_sparse (no axiom; "
                               "only Coq's primitive int/float operations loaded by the ring "
                               "plugin)", good)
            if not good:
                out = "unexpected axioms: %r\n" % extra[:10] + out
        if not good:
            ctx.violation("proof:coqchk", "Props/C07", "coqchk does not accept Props/C07.vo / Props/C07_kernels.vo",
                          {"log": out[-2000:]}, found_input=False)
    replay_witness(ctx)
    ctx.cov["input_distribution"] = dist
    ctx.cov["explanation"] = (
        "Theorems of Props/C07.v hold for every field with involution, every dimension, "
        "every operand and every list of collapse operators, over terms regenerated from "
        "the source; the terms' denotation is compared exactly with the implementation; "
        "the Bloch-Redfield element formula is modelled executably and compared exactly; "
        "the oracle applies L.full() to a full operator basis.")


def replay(ctx, payload):
    d = payload.get("detail", {})
    terms = tx.generate()
    if "liouvillian" in d:
        report(ctx, check_liou_case(ctx, d["liouvillian"], terms), d)
    if "small" in d:
        report(ctx, small_case(d["small"], tx.Eval(terms, expi_exact)), d)
    if "br_term" in d:
        report(ctx, check_br_case(d["br_term"])[0], d)
    if "br_cterm" in d:
        report(ctx, check_cterm_case(d["br_cterm"]), d)
    if "bloch_redfield_tensor" in d:
        report(ctx, check_brt_case(d["bloch_redfield_tensor"]), d)
    if "ket_state" in d:
        report(ctx, check_ket_case(d["ket_state"])[0], d)
    if "br_history" in d:
        report(ctx, check_hist_case(d["br_history"]), d)
    if "br_transform_history" in d:
        report(ctx, check_transform_history(d["br_transform_history"]), d)
    if "br_spectra_args" in d:
        report(ctx, check_spectra_args(d["br_spectra_args"]), d)
    if "br_matmul" in d:
        report(ctx, check_cross_matmul(d["br_matmul"]), d)
    if "malformed" in d:
        malformed(ctx)
