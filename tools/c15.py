"""C15 - ensemble statistics equal the weighted statistics of the trajectories
added (qutip/solver/multitrajresult.py, multitraj.py).

Tie (K): histories of new / add / add_deterministic / merge / read operations
are executed on real McResult / MultiTrajResult objects fed with fake
trajectories carrying dyadic expectation arrays, and on the Coq model
(coq/Model/C15.v) by vm_compute; the complete observable state of every
object (running sums, weight lists, seeds, collapses, caches, reported
weights, freshly computed average and variance, the stats dictionaries) is
compared exactly.

Oracle: an independent recomputation with Python fractions of the weighted
mean / spread from the list of trajectories added (no Coq, no qutip code),
plus metamorphic checks (insertion order, merge = adding everything with
rescaled weights, associativity of +, operands unchanged, alignment of
per-trajectory data), plus _minimum_roundoff_ensemble against its
specification.
"""
import copy
import json
import math
import os
import random
from fractions import Fraction as Fr

import numpy as np

import vlib
from vlib import cz, cnat, cbool, clist

HEADER = ("From Coq Require Import List ZArith.\nImport ListNotations.\n"
          "From QV Require Import Model.C15.\nOpen Scope Z_scope.\n")

SITE_CACHE = "MultiTrajResult.average_e_data"
SITE_MERGE = "MultiTrajResult.merge"
SITE_CREATE = "MultiTrajResult._create_e_data"
SITE_WEIGHTS = "MultiTrajResult.runs_weights"
SITE_ADD = "MultiTrajResult.add"
SITE_ENS = "_InitialConditions._minimum_roundoff_ensemble"


# ------------------------------------------------------------------ numbers
def fr(x):
    return Fr(x[0], x[1])


def is_float_exact(q):
    try:
        return Fr(float(q)) == q
    except OverflowError:
        return False


def num_eq(model_q, impl_f, exact_case, stats=None):
    """model value (Fraction) against implementation float."""
    impl_f = float(impl_f)
    if exact_case and is_float_exact(model_q):
        if stats is not None:
            stats["exact"] = stats.get("exact", 0) + 1
        return Fr(impl_f) == model_q
    if stats is not None:
        stats["approx"] = stats.get("approx", 0) + 1
    return abs(impl_f - float(model_q)) <= 1e-11 * max(1.0, abs(float(model_q)))


def vec_eq(mv, iv, exact_case, stats=None):
    if mv is None or iv is None:
        return mv is None and iv is None
    if len(mv) != len(iv):
        return False
    return all(num_eq(a, b, exact_case, stats) for a, b in zip(mv, iv))


# ------------------------------------------------------------ implementation
class FakeTraj:
    """What MultiTrajResult reads from a single-trajectory Result."""

    def __init__(self, tr, shape):
        ne, nt = shape
        vals = [fr(v) for v in tr["e"]]
        self.seed_id = tr["seed"]
        self.tr = tr
        self.times = [float(tr["times"] + k) for k in range(nt)]
        self.e_ops = {k: None for k in range(ne)}
        self.expect = [np.array([float(v) for v in vals[k * nt:(k + 1) * nt]])
                       for k in range(ne)]
        self.e_data = {k: list(self.expect[k]) for k in range(ne)}
        self.states = []
        self.final_state = None
        self.collapse = [(float(tr["coll"]), 0)]


def flat(list_of_arrays):
    out = []
    for a in list_of_arrays:
        out.extend(float(x) for x in np.asarray(a).ravel())
    return out


class Impl:
    """Runs a history on real result objects."""

    def __init__(self, case):
        import qutip.solver.multitrajresult as M
        self.M = M
        self.case = case
        self.shape = tuple(case["shape"])
        self.cls = getattr(M, case.get("cls", "McResult"))
        self.e_ops = ["e%d" % k for k in range(self.shape[0])]
        self.objs = []
        self.heap = []
        self.outcomes = []
        self.reads = []        # (op index, obj index, kind, values or None)
        self.merge_log = []    # (op index, i, j, p, before/after snapshots)

    def new(self, keep, rt):
        stats = {"run time": float(fr(rt)), "num_collapse": 1}
        self.heap.append(stats)
        o = self.cls(self.e_ops, {"store_states": False, "store_final_state": False,
                                  "keep_runs_results": bool(keep)},
                     solver="fake", stats=stats)
        self.objs.append(o)
        return o

    def sref(self, o):
        for k, d in enumerate(self.heap):
            if d is o.stats:
                return k
        return -1

    def step(self, k, op):
        kind = op[0]
        try:
            if kind == "new":
                self.new(op[1], op[2])
                return 0
            if kind in ("add", "adddet", "read", "readstd"):
                if not (0 <= op[1] < len(self.objs)):
                    return 1
                o = self.objs[op[1]]
                if kind == "add":
                    t = FakeTraj(op[2], self.shape)
                    if op[3] is None:
                        o.add((t.seed_id, t))
                    else:
                        o.add((t.seed_id, t, float(fr(op[3]))))
                elif kind == "adddet":
                    t = FakeTraj(op[2], self.shape)
                    o.add_deterministic(t, float(fr(op[3])))
                elif kind == "read":
                    v = flat(o.average_expect)
                    self.reads.append((k, op[1], "avg", v))
                else:
                    v = flat(o.std_expect)
                    self.reads.append((k, op[1], "std", v))
                return 0
            if kind == "merge":
                i, j, p = op[1], op[2], op[3]
                if not (0 <= i < len(self.objs) and 0 <= j < len(self.objs)):
                    return 1
                a, b = self.objs[i], self.objs[j]
                before = (self.snapshot(a), self.snapshot(b),
                          copy.deepcopy(a.stats), copy.deepcopy(b.stats))
                try:
                    if p is None and self.case.get("plus"):
                        m = a + b
                    else:
                        m = a.merge(b, None if p is None else float(fr(p)))
                finally:
                    after = (self.snapshot(a), self.snapshot(b),
                             copy.deepcopy(a.stats), copy.deepcopy(b.stats))
                    self.merge_log.append((k, i, j, before, after))
                if not any(d is m.stats for d in self.heap):
                    self.heap.append(m.stats)      # the merged result's own dictionary
                self.objs.append(m)
                return 0
        except ValueError:
            return 2
        except ZeroDivisionError:
            return 3
        except TypeError:
            return 4
        except Exception as e:   # anything else is reported as a mismatch
            self.outcomes_extra = repr(e)
            return 9
        return 8

    def run(self):
        for k, op in enumerate(self.case["ops"]):
            self.outcomes.append(self.step(k, op))
        return self

    # -- observation
    def fresh(self, o):
        """What _create_e_data computes on the current sums (on a shallow copy
        with empty caches, so the object itself is not touched)."""
        c = copy.copy(o)
        c._average_e_data = {}
        c._std_e_data = {}
        try:
            c._create_e_data()
        except TypeError:
            return None, None
        avg = flat([np.array(v) for v in c._average_e_data.values()])
        std = flat([np.array(v) for v in c._std_e_data.values()])
        return avg, std

    def snapshot(self, o):
        def ts(s):
            if s is None:
                return None
            return (flat(s.sum_expect), flat(s.sum2_expect))
        times = None if o.times is None else int(o.times[0])
        runs_e = None
        if o.runs_e_data:
            ks = list(o.runs_e_data)
            ntr = len(o.runs_e_data[ks[0]])
            runs_e = [flat([o.runs_e_data[k][j] for k in ks]) for j in range(ntr)]
        avg_c = flat([np.array(v) for v in o._average_e_data.values()]) if o._average_e_data else None
        std_c = flat([np.array(v) for v in o._std_e_data.values()]) if o._std_e_data else None
        favg, fstd = self.fresh(o)
        coll = None
        if hasattr(o, "collapse"):
            coll = [int(c[0][0]) for c in o.collapse]
        return {
            "keep": bool(o.options["keep_runs_results"]), "sref": self.sref(o),
            "times": times, "num": int(o.num_trajectories),
            "sum_rel": ts(o._sum_rel), "sum_det": ts(o._sum_det),
            "w_rel": [float(w) for w in o._trajectories_weight_info],
            "w_det": [float(w) for w in o._deterministic_weight_info],
            "seeds": list(o.seeds), "collapse": coll,
            "trajs": [t.seed_id for t in o.trajectories],
            "det_trajs": [t.seed_id for t in o.deterministic_trajectories],
            "runs_e": runs_e, "avg_cache": avg_c, "std_cache": std_c,
            "runs_weights": [float(w) for w in o.runs_weights] if o.num_trajectories else [],
            "det_weights": [float(w) for w in o.deterministic_weights],
            "average": favg, "std": fstd,
        }

    def observe(self):
        return {"outcomes": self.outcomes,
                "objs": [self.snapshot(o) for o in self.objs],
                "stats": [(d["run time"], 1 if d.get("end_condition") == "Merged results"
                           else (0 if d.get("end_condition") == "unknown" else -1))
                          for d in self.heap]}


# -------------------------------------------------------------------- model
def cq(x):
    return "(mkq %s %s)" % (cz(x[0]), cz(x[1]))


def ctraj(t):
    return "(mkt %s %s %s %s)" % (cz(t["seed"]), cz(t["times"]), cz(t["coll"]),
                                  clist(t["e"], lambda v: "(%s, %s)" % (cz(v[0]), cz(v[1]))))


def cop(op):
    k = op[0]
    if k == "new":
        return "ONew %s %s" % (cbool(op[1]), cq(op[2]))
    if k == "add":
        return "OAdd %s %s %s" % (cnat(op[1]), ctraj(op[2]),
                                 "None" if op[3] is None else "(Some %s)" % cq(op[3]))
    if k == "adddet":
        return "OAddDet %s %s %s" % (cnat(op[1]), ctraj(op[2]), cq(op[3]))
    if k == "merge":
        return "OMerge %s %s %s" % (cnat(op[1]), cnat(op[2]),
                                   "None" if op[3] is None else "(Some %s)" % cq(op[3]))
    if k == "read":
        return "ORead %s" % cnat(op[1])
    if k == "readstd":
        return "OReadStd %s" % cnat(op[1])
    raise ValueError(k)


def cops(ops):
    return "observe %s" % clist(ops, cop)


def mq(x):
    return Fr(x[0], x[1])


def mvec(v):
    return [mq(x) for x in v]


def mopt(x, f):
    if x is None:
        return None
    assert x[0] == "Some", x
    return f(x[1])


def parse_model(val):
    codes, objs, stats = vlib.parse_coq_value(val)
    out = []
    for o in objs:
        keep, sref, times, num, sums, ws, trs, caches, rep = o
        srel, sdet = sums
        w_rel, w_det, seeds, coll = ws
        trajs, dtrajs, runs_e = trs
        avg_c, std_c = caches
        rw, avg, var = rep

        def ts(s):
            return mopt(s, lambda p: (mvec(p[0]), mvec(p[1])))
        out.append({
            "keep": keep, "sref": sref, "times": mopt(times, lambda t: t), "num": num,
            "sum_rel": ts(srel), "sum_det": ts(sdet),
            "w_rel": mvec(w_rel), "w_det": mvec(w_det), "seeds": list(seeds),
            "collapse": list(coll), "trajs": list(trajs), "det_trajs": list(dtrajs),
            "runs_e": mopt(runs_e, lambda l: [mvec(v) for v in l]),
            "avg_cache": mopt(avg_c, mvec), "var_cache": mopt(std_c, mvec),
            "runs_weights": mvec(rw), "average": mopt(avg, mvec), "variance": mopt(var, mvec)})
    return {"outcomes": list(codes), "objs": out,
            "stats": [(Fr(s[0], s[1]), s[2]) for s in stats]}


def sqrt_of(var_q):
    """std the implementation must store for an exact variance value."""
    return math.sqrt(float(var_q))


def compare(case, im, mo, cstats):
    """First difference between implementation observation and model
    observation, or None."""
    ex = case["exact"]
    if im["outcomes"] != mo["outcomes"]:
        return "outcomes", im["outcomes"], mo["outcomes"]
    if len(im["objs"]) != len(mo["objs"]):
        return "number of objects", len(im["objs"]), len(mo["objs"])
    for k, (a, b) in enumerate(zip(im["objs"], mo["objs"])):
        for f in ("keep", "sref", "times", "num", "seeds", "trajs", "det_trajs"):
            if a[f] != b[f]:
                return "obj%d.%s" % (k, f), a[f], b[f]
        if a["collapse"] is not None and a["collapse"] != b["collapse"]:
            return "obj%d.collapse" % k, a["collapse"], b["collapse"]
        for f in ("sum_rel", "sum_det"):
            if (a[f] is None) != (b[f] is None):
                return "obj%d.%s" % (k, f), a[f], str(b[f])
            if a[f] is not None:
                for h in (0, 1):
                    if not vec_eq(b[f][h], a[f][h], ex, cstats):
                        return "obj%d.%s[%d]" % (k, f, h), a[f][h], [str(x) for x in b[f][h]]
        for f in ("w_rel", "w_det", "runs_weights"):
            if not vec_eq(b[f], a[f], ex, cstats):
                return "obj%d.%s" % (k, f), a[f], [str(x) for x in b[f]]
        if (a["runs_e"] is None) != (b["runs_e"] is None):
            return "obj%d.runs_e" % k, a["runs_e"], str(b["runs_e"])
        if a["runs_e"] is not None:
            if len(a["runs_e"]) != len(b["runs_e"]) or not all(
                    vec_eq(y, x, ex, cstats) for x, y in zip(a["runs_e"], b["runs_e"])):
                return "obj%d.runs_e" % k, a["runs_e"], str(b["runs_e"])
        for fi, fm in (("avg_cache", "avg_cache"), ("average", "average")):
            if not vec_eq(b[fm], a[fi], ex, cstats):
                return "obj%d.%s" % (k, fi), a[fi], str(b[fm])
        for fi, fm, fa in (("std_cache", "var_cache", "avg_cache"), ("std", "variance", "average")):
            if (a[fi] is None) != (b[fm] is None):
                return "obj%d.%s" % (k, fi), a[fi], str(b[fm])
            if a[fi] is not None:
                if len(a[fi]) != len(b[fm]):
                    return "obj%d.%s" % (k, fi), a[fi], str(b[fm])
                for s, v, av in zip(a[fi], b[fm], b[fa]):
                    if ex and is_float_exact(v) and is_float_exact(av * av):
                        cstats["exact"] = cstats.get("exact", 0) + 1
                        ok = (s == sqrt_of(v))
                    else:
                        cstats["approx"] = cstats.get("approx", 0) + 1
                        ok = abs(s * s - float(v)) <= 1e-9 * max(1.0, abs(float(v)))
                    if not ok:
                        return "obj%d.%s" % (k, fi), a[fi], str(b[fm])
    if len(im["stats"]) != len(mo["stats"]):
        return "stats heap size", im["stats"], str(mo["stats"])
    for k, (a, b) in enumerate(zip(im["stats"], mo["stats"])):
        if a[1] != b[1] or not num_eq(b[0], a[0], True):
            return "stats[%d]" % k, a, str(b)
    return None


# ----------------------------------------------------------- fraction oracle
class Ens:
    """Independent bookkeeping of what an object represents: the list of
    (absolute weight, trajectory) and (relative weight, trajectory)."""

    def __init__(self):
        self.rel = []
        self.det = []
        self.tid = None

    def n(self):
        return len(self.rel)

    def mean(self, f):
        s = sum((w * f(t) for w, t in self.det), Fr(0))
        if self.rel:
            s += sum((w * f(t) for w, t in self.rel), Fr(0)) / len(self.rel)
        return s

    def avg(self, n):
        return [self.mean(lambda t, k=k: fr(t["e"][k])) for k in range(n)]

    def var(self, n):
        out = []
        for k in range(n):
            m1 = self.mean(lambda t, k=k: fr(t["e"][k]))
            m2 = self.mean(lambda t, k=k: fr(t["e"][k]) ** 2)
            out.append(abs(m2 - abs(m1 * m1)))
        return out

    def total(self):
        return self.mean(lambda t: Fr(1))

    def empty(self):
        return not self.rel and not self.det


def oracle(ctx, case):
    """The property itself on the implementation trace of `case`.
    Returns list of (site, signature, what, extra)."""
    shape = tuple(case["shape"])
    n = shape[0] * shape[1]
    ex = case["exact"]
    I = Impl(case)
    ens = []
    first_read = {}     # obj index -> expected average at the first read
    found = []

    def bad(site, sig, what, extra=None):
        found.append((site, sig, what, extra or {}))

    def check_obj(k, idx, when):
        """fresh statistics and reported weights of object idx"""
        o = I.objs[idx]
        E = ens[idx]
        favg, fstd = I.fresh(o)
        if E.empty():
            if favg is not None:
                bad(SITE_CREATE, "average-of-empty", "average reported for an empty result")
            return
        if favg is None:
            bad(SITE_CREATE, "no-average", "no average although trajectories were added",
                {"op": k, "obj": idx})
            return
        if not vec_eq(E.avg(n), favg, ex):
            bad(SITE_CREATE, "average-formula",
                "average != sum_det w x + (1/N) sum_rel w x (%s)" % when,
                {"op": k, "obj": idx, "got": favg, "want": [str(x) for x in E.avg(n)]})
        want_var = E.var(n)
        if len(fstd) != n or not all(
                abs(s * s - float(v)) <= 1e-9 * max(1.0, abs(float(v))) for s, v in zip(fstd, want_var)):
            bad(SITE_CREATE, "std-formula", "std**2 != |<x^2> - |<x>^2|| (%s)" % when,
                {"op": k, "obj": idx, "got": fstd, "want": [str(x) for x in want_var]})
        rw = [float(w) for w in o.runs_weights] if o.num_trajectories else []
        want_rw = [w / E.n() for w, _ in E.rel]
        if not vec_eq(want_rw, rw, ex):
            bad(SITE_WEIGHTS, "runs-weights", "runs_weights are not the weights of the trajectories added",
                {"op": k, "obj": idx, "got": rw, "want": [str(x) for x in want_rw]})
        dw = [float(w) for w in o.deterministic_weights]
        if not vec_eq([w for w, _ in E.det], dw, ex):
            bad(SITE_WEIGHTS, "det-weights", "deterministic_weights are not the weights given",
                {"op": k, "obj": idx, "got": dw})
        tot = sum(rw) + sum(dw)
        if abs(tot - float(E.total())) > 1e-9 * max(1.0, abs(float(E.total()))):
            bad(SITE_WEIGHTS, "total-weight", "reported weights do not sum to the total weight",
                {"op": k, "obj": idx, "got": tot, "want": str(E.total())})
        # alignment of per-trajectory data
        if not (len(o.seeds) == o.num_trajectories == E.n()):
            bad(SITE_ADD, "seeds-misaligned", "len(seeds) != num_trajectories",
                {"op": k, "obj": idx})
        if list(o.seeds) != [t["seed"] for _, t in E.rel]:
            bad(SITE_ADD, "seeds-order", "seeds are not those of the trajectories in order",
                {"op": k, "obj": idx})
        if hasattr(o, "collapse") and [int(c[0][0]) for c in o.collapse] != [t["coll"] for _, t in E.rel]:
            bad(SITE_ADD, "collapse-misaligned", "collapse list not aligned with trajectories",
                {"op": k, "obj": idx})
        if o.trajectories and [t.seed_id for t in o.trajectories] != [t["seed"] for _, t in E.rel]:
            bad(SITE_MERGE, "trajectories-partial",
                "result keeps trajectories but `trajectories` is not the list of all "
                "trajectories of the ensemble (%d of %d)" % (len(o.trajectories), E.n()),
                {"op": k, "obj": idx})
        if o.runs_e_data:
            ks = list(o.runs_e_data)
            if any(len(o.runs_e_data[q]) != E.n() for q in ks):
                if not o.trajectories or [t.seed_id for t in o.trajectories] == [t["seed"] for _, t in E.rel]:
                    bad(SITE_ADD, "runs-e-data-misaligned", "runs_e_data length != num_trajectories",
                        {"op": k, "obj": idx})
        if len(o.deterministic_trajectories) != len(o.deterministic_weights):
            bad(SITE_MERGE, "deterministic-trajectories-dropped",
                "len(deterministic_trajectories)=%d but len(deterministic_weights)=%d" % (
                    len(o.deterministic_trajectories), len(o.deterministic_weights)),
                {"op": k, "obj": idx})

    for k, op in enumerate(case["ops"]):
        if len(ens) != len(I.objs):
            break       # bookkeeping and implementation diverged (already reported)
        nread = len(I.reads)
        nmerge = len(I.merge_log)
        code = I.step(k, op)
        I.outcomes.append(code)
        kind = op[0]
        if kind == "new":
            ens.append(Ens())
        elif kind == "add" and code == 0:
            w = Fr(1) if op[3] is None else fr(op[3])
            if ens[op[1]].empty():
                ens[op[1]].tid = op[2]["times"]
            ens[op[1]].rel.append((w, op[2]))
            check_obj(k, op[1], "after add")
        elif kind == "adddet" and code == 0:
            if ens[op[1]].empty():
                ens[op[1]].tid = op[2]["times"]
            ens[op[1]].det.append((fr(op[3]), op[2]))
            check_obj(k, op[1], "after add_deterministic")
        elif kind in ("read", "readstd"):
            if code == 1:
                continue
            E = ens[op[1]]
            if E.empty():
                if code != 4:
                    bad(SITE_CACHE, "read-empty", "reading an empty result did not raise TypeError")
                continue
            if code != 0 or len(I.reads) == nread:
                bad(SITE_CACHE, "read-raises", "reading the average raised (code %d)" % code,
                    {"op": k})
                continue
            vals = I.reads[-1][3]
            if kind == "read":
                want = E.avg(n)
                ok = vec_eq(want, vals, ex)
            else:
                want = E.var(n)
                ok = len(vals) == n and all(
                    abs(s * s - float(v)) <= 1e-9 * max(1.0, abs(float(v))) for s, v in zip(vals, want))
            if op[1] not in first_read:
                first_read[op[1]] = (E.avg(n), E.var(n))
            if not ok:
                old = first_read[op[1]][0 if kind == "read" else 1]
                if kind == "read":
                    stale = vec_eq(old, vals, ex)
                else:
                    stale = all(abs(s * s - float(v)) <= 1e-9 * max(1.0, abs(float(v)))
                                for s, v in zip(vals, old))
                bad(SITE_CACHE, "stale-after-add" if stale else "read-wrong",
                    ("average_expect/std_expect returns the value cached at the first read, not the "
                     "statistics of the trajectories added since") if stale else
                    "value read is not the weighted statistic of the trajectories added",
                    {"op": k, "obj": op[1], "got": vals, "want": [str(x) for x in want]})
        elif kind == "merge":
            if code == 1:
                continue
            i, j, p = op[1], op[2], op[3]
            Ea, Eb = ens[i], ens[j]
            # operands unchanged (also when merge raised)
            if len(I.merge_log) > nmerge:
                _, _, _, before, after = I.merge_log[-1]
                for side, q in (("self", 0), ("other", 1)):
                    if before[q] != after[q]:
                        diff = [f for f in before[q] if before[q][f] != after[q][f]]
                        bad(SITE_MERGE, "operand-changed:" + ",".join(diff),
                            "merge changed its %s operand (%s)" % (side, diff), {"op": k})
                for side, q, o_ in (("self", 2, I.objs[i]), ("other", 3, I.objs[j])):
                    if before[q] != after[q]:
                        keys = sorted(f for f in set(before[q]) | set(after[q])
                                      if before[q].get(f) != after[q].get(f))
                        shared = code == 0 and I.objs[-1].stats is o_.stats
                        sig = "operand-stats-shared" if (shared or code != 0) and set(keys) <= {
                            "run time", "end_condition"} else "operand-stats-changed:" + ",".join(keys)
                        bad(SITE_MERGE, sig,
                            "merge changed the stats dictionary of its %s operand: %s "
                            "(the new result shares the dictionary)" % (side, keys),
                            {"op": k, "before": before[q], "after": after[q]})
            if Ea.tid != Eb.tid:
                if code != 2:
                    bad(SITE_MERGE, "times-not-checked", "merge of results with different times accepted")
                continue
            if Ea.n() == 0 or Eb.n() == 0:
                if code == 0:
                    ens.append(Ens())      # keep indices aligned; nothing to say
                    bad(SITE_MERGE, "merge-without-trajectories", "merge with an operand without sampled trajectories returned", {"op": k})
                continue
            if code != 0:
                bad(SITE_MERGE, "merge-raises", "merge raised (code %d)" % code, {"op": k})
                continue
            pe = Fr(Ea.n(), Ea.n() + Eb.n())
            pp = pe if p is None else fr(p)
            E = Ens()
            E.tid = Ea.tid
            E.det = [(w * pp, t) for w, t in Ea.det] + [(w * (1 - pp), t) for w, t in Eb.det]
            E.rel = ([(w * pp / pe, t) for w, t in Ea.rel]
                     + [(w * (1 - pp) / (1 - pe), t) for w, t in Eb.rel])
            ens.append(E)
            m = len(ens) - 1
            # mixture law, independently of the bookkeeping above
            mixed = [pp * x + (1 - pp) * y for x, y in zip(Ea.avg(n), Eb.avg(n))]
            assert mixed == E.avg(n)
            check_obj(k, m, "after merge")
    I.final = I.observe()
    return found, I


# ---------------------------------------------------------------- generator
def dyadic(q):
    d = q.denominator
    return d & (d - 1) == 0


def gen_value(rng):
    return [315 * rng.randint(-4, 4), 2 ** rng.randint(0, 2)]


def gen_traj(rng, st, n, tid=0):
    st["seed"] += 1
    return {"seed": st["seed"], "times": tid, "coll": rng.randint(0, 9),
            "e": [gen_value(rng) for _ in range(n)]}


def gen_w(rng):
    return [rng.randint(1, 5), 2 ** rng.randint(0, 2)]


def gen_p(rng, na, nb, exact):
    if rng.random() < 0.4:
        return None
    pe = Fr(na, na + nb)
    cands = []
    for m in (1, 2, 3, 4, 5):
        for k in range(1, 2 ** m):
            p = Fr(k, 2 ** m)
            if not exact or (dyadic(p / pe) and dyadic((1 - p) / (1 - pe))
                             and (p / pe).denominator <= 64 and ((1 - p) / (1 - pe)).denominator <= 64):
                cands.append(p)
    if not cands:
        return None
    p = rng.choice(cands)
    return [p.numerator, p.denominator]


def gen_case(rng, exact=True, big=False):
    ne, nt = rng.choice([(1, 1), (1, 2), (2, 1), (2, 2), (1, 3), (3, 2)])
    n = ne * nt
    st = {"seed": 0}
    keep_mode = rng.choice(["F", "F", "T", "mixed"])
    ops = []
    nums = []      # sampled trajectories per object
    tids = []      # tlist id per object (None while empty)
    keeps = []

    def new():
        k = {"F": False, "T": True, "mixed": rng.random() < 0.5}[keep_mode]
        ops.append(["new", k, [rng.randint(1, 8), 4]])
        nums.append(0)
        tids.append(None)
        keeps.append(k)

    for _ in range(rng.randint(1, 3)):
        new()
    length = rng.randint(5, 40 if big else 22)
    odd_times = rng.random() < 0.12
    while len(ops) < length:
        r = rng.random()
        i = rng.randrange(len(nums))
        if r < 0.5:
            tid = 5 if (odd_times and tids[i] is None and rng.random() < 0.5) else 0
            t = gen_traj(rng, st, n, tid if tids[i] is None else tids[i])
            ops.append(["add", i, t, None if rng.random() < 0.45 else gen_w(rng)])
            nums[i] += 1
            if tids[i] is None:
                tids[i] = t["times"]
        elif r < 0.62:
            tid = 0
            t = gen_traj(rng, st, n, tid if tids[i] is None else tids[i])
            ops.append(["adddet", i, t, [rng.randint(1, 8), 16]])
            if tids[i] is None:
                tids[i] = t["times"]
        elif r < 0.76:
            ops.append([rng.choice(["read", "read", "readstd"]), i])
        elif r < 0.93:
            j = rng.randrange(len(nums))
            na, nb = nums[i], nums[j]
            if tids[i] != tids[j] or na == 0 or nb == 0:
                if rng.random() < 0.5:       # error branches, sometimes
                    ops.append(["merge", i, j, None])
                continue
            pe = Fr(na, na + nb)
            if exact and not dyadic(pe):
                continue
            ops.append(["merge", i, j, gen_p(rng, na, nb, exact)])
            nums.append(na + nb)
            tids.append(tids[i])
            keeps.append(None)
        elif r < 0.97:
            if len(nums) < 7:
                new()
        else:
            bad_i = len(nums) + rng.randint(0, 2)      # malformed: index out of range
            what = rng.choice(["add", "read", "merge"])
            if what == "add":
                ops.append(["add", bad_i, gen_traj(rng, st, n), None])
            elif what == "read":
                ops.append(["read", bad_i])
            else:
                ops.append(["merge", bad_i, 0, None])
    return {"shape": [ne, nt], "ops": ops, "exact": exact,
            "cls": rng.choice(["McResult", "McResult", "MultiTrajResult"]),
            "plus": rng.random() < 0.5, "keep_mode": keep_mode}


# fixed histories: the counterexamples found on the code before the repairs
# 3ad4eea / ca7c500 / b075e21 / 191187a (Examples C15_old_rule_* of
# Props/C15.v); they run first on every run as regression cases
def T(seed, vals, tid=0, coll=0):
    return {"seed": seed, "times": tid, "coll": coll, "e": [[v, 1] for v in vals]}


WITNESSES = {
    # stale average cache (C15_old_rule_stale_cache)
    "stale_cache": {"shape": [1, 1], "exact": True, "cls": "McResult", "plus": False, "ops": [
        ["new", False, [1, 1]], ["add", 0, T(0, [1]), None], ["read", 0],
        ["add", 0, T(1, [3]), None], ["read", 0]]},
    # merge wrote into its operand's stats (C15_old_rule_merge_stats_and_deterministic)
    "stats_shared": {"shape": [1, 1], "exact": True, "cls": "McResult", "plus": True, "ops": [
        ["new", False, [1, 1]], ["add", 0, T(0, [1]), None],
        ["new", False, [2, 1]], ["add", 1, T(1, [3]), None], ["merge", 0, 1, None]]},
    # merge dropped the deterministic trajectories
    "det_dropped": {"shape": [1, 1], "exact": True, "cls": "McResult", "plus": True, "ops": [
        ["new", False, [1, 1]], ["adddet", 0, T(0, [1]), [1, 2]], ["add", 0, T(1, [2]), [1, 2]],
        ["new", False, [1, 1]], ["adddet", 1, T(2, [4]), [1, 4]], ["add", 1, T(3, [2]), [3, 4]],
        ["merge", 0, 1, None]]},
    # partially kept trajectories (C15_old_rule_mixed_keep)
    "mixed_keep": {"shape": [1, 1], "exact": True, "cls": "McResult", "plus": True, "ops": [
        ["new", True, [1, 1]], ["add", 0, T(0, [1]), None],
        ["new", False, [1, 1]], ["add", 1, T(1, [2]), None],
        ["merge", 0, 1, None], ["add", 2, T(2, [3]), None],
        ["new", True, [1, 1]], ["add", 3, T(3, [4]), None],
        ["merge", 3, 2, None]]},
}


# ------------------------------------------------------- metamorphic checks
def fresh_obj(M, cls, shape, keep=False):
    e_ops = ["e%d" % k for k in range(shape[0])]
    return getattr(M, cls)(e_ops, {"store_states": False, "store_final_state": False,
                                   "keep_runs_results": keep},
                           solver="fake", stats={"run time": 0.0, "num_collapse": 1})


def meta_checks(ctx, rng, ncases):
    """insertion order, merge = adding all, associativity of +, on the real
    classes (no model involved)."""
    import qutip.solver.multitrajresult as M
    found = []
    for c in range(ncases):
        ne, nt = rng.choice([(1, 1), (1, 2), (2, 2), (3, 1)])
        shape = (ne, nt)
        n = ne * nt
        st = {"seed": 0}
        cls = rng.choice(["McResult", "MultiTrajResult"])
        items = []
        for _ in range(rng.randint(2, 9)):
            t = gen_traj(rng, st, n)
            if rng.random() < 0.25:
                items.append(("det", t, [rng.randint(1, 8), 16]))
            else:
                items.append(("rel", t, None if rng.random() < 0.4 else gen_w(rng)))

        def fill(o, its):
            for kind, t, w in its:
                ft = FakeTraj(t, shape)
                if kind == "det":
                    o.add_deterministic(ft, float(fr(w)))
                elif w is None:
                    o.add((t["seed"], ft))
                else:
                    o.add((t["seed"], ft, float(fr(w))))
            return o
        # 1. insertion order (all float operations are exact on these inputs,
        #    so the comparison is exact)
        o1 = fill(fresh_obj(M, cls, shape), items)
        perm = list(items)
        rng.shuffle(perm)
        o2 = fill(fresh_obj(M, cls, shape), perm)
        a1, s1 = flat(o1.average_expect), flat(o1.std_expect)
        a2, s2 = flat(o2.average_expect), flat(o2.std_expect)
        ctx.count_case(("order", c, json.dumps(items)), nontrivial=len(items) >= 3)
        if a1 != a2 or s1 != s2:
            found.append((SITE_ADD, "insertion-order", "average/std depend on insertion order",
                          {"items": items, "perm": perm, "got": [a1, a2]}))
        # 2. merge = adding all trajectories with rescaled weights
        k = rng.randint(1, len(items) - 1)
        A, B = items[:k], items[k:]
        na = sum(1 for i in A if i[0] == "rel")
        nb = sum(1 for i in B if i[0] == "rel")
        if na and nb:
            oa = fill(fresh_obj(M, cls, shape), A)
            ob = fill(fresh_obj(M, cls, shape), B)
            exact = dyadic(Fr(na, na + nb))
            p = gen_p(rng, na, nb, exact)
            m = oa.merge(ob, None if p is None else float(fr(p)))
            all_ = fresh_obj(M, cls, shape)
            its = [i for i in A + B if i[0] == "det"] + [i for i in A + B if i[0] == "rel"]
            dws = list(m._deterministic_weight_info)
            rws = list(m._trajectories_weight_info)
            dets = [i for i in A if i[0] == "det"] + [i for i in B if i[0] == "det"]
            relsl = [i for i in A if i[0] == "rel"] + [i for i in B if i[0] == "rel"]
            for (kind, t, _), w in zip(dets, dws):
                all_.add_deterministic(FakeTraj(t, shape), w)
            for (kind, t, _), w in zip(relsl, rws):
                all_.add((t["seed"], FakeTraj(t, shape), w))
            am, aa = flat(m.average_expect), flat(all_.average_expect)
            sm, sa = flat(m.std_expect), flat(all_.std_expect)
            ctx.count_case(("merge-as-add", c), nontrivial=True)
            tol = 0.0 if exact else 1e-11
            if (len(dws) != len(dets) or len(rws) != len(relsl)
                    or any(abs(x - y) > tol * max(1, abs(x)) for x, y in zip(am, aa))
                    or any(abs(x * x - y * y) > max(tol, 1e-12) * max(1, abs(x * x)) for x, y in zip(sm, sa))
                    or list(m.seeds) != list(all_.seeds)
                    or m.num_trajectories != all_.num_trajectories):
                found.append((SITE_MERGE, "merge-vs-adding-all",
                              "merge differs from adding all trajectories with the merged weights",
                              {"A": A, "B": B, "p": p, "got": [am, aa]}))
            # weights rescaled as documented: p * rho + (1 - p) * rho'
            pe = Fr(na, na + nb)
            pp = pe if p is None else fr(p)
            want_d = ([fr(i[2]) * pp for i in A if i[0] == "det"]
                      + [fr(i[2]) * (1 - pp) for i in B if i[0] == "det"])
            want_r = ([(Fr(1) if i[2] is None else fr(i[2])) * pp / pe for i in A if i[0] == "rel"]
                      + [(Fr(1) if i[2] is None else fr(i[2])) * (1 - pp) / (1 - pe) for i in B if i[0] == "rel"])
            if not vec_eq(want_d, dws, exact) or not vec_eq(want_r, rws, exact):
                found.append((SITE_MERGE, "merge-weights", "merged weights are not rescaled by p and p_equal",
                              {"A": A, "B": B, "p": p, "got": [dws, rws]}))
            # 3. associativity of +
            if len(B) >= 2 and nb >= 2:
                # split B so that both parts have a sampled trajectory
                idx = [q for q, i in enumerate(B) if i[0] == "rel"]
                cut = idx[1]
                B1, B2 = B[:cut], B[cut:]
                ob1 = fill(fresh_obj(M, cls, shape), B1)
                ob2 = fill(fresh_obj(M, cls, shape), B2)
                oa2 = fill(fresh_obj(M, cls, shape), A)
                l = (oa2 + ob1) + ob2
                r = oa2 + (ob1 + ob2)
                ctx.count_case(("assoc", c), nontrivial=True)
                la, ra = flat(l.average_expect), flat(r.average_expect)
                if (any(abs(x - y) > 1e-11 * max(1, abs(x)) for x, y in zip(la, ra))
                        or any(abs(x - y) > 1e-12 for x, y in zip(l.runs_weights, r.runs_weights))
                        or any(abs(x - y) > 1e-12 for x, y in zip(l.deterministic_weights, r.deterministic_weights))
                        or list(l.seeds) != list(r.seeds)):
                    found.append((SITE_MERGE, "associativity", "(a+b)+c differs from a+(b+c)",
                                  {"A": A, "B1": B1, "B2": B2, "got": [la, ra]}))
                # associativity for arbitrary mixing weights (C15_merge_associative_any_p)
                pa = Fr(rng.randint(1, 15), 16)
                qa = Fr(rng.randint(1, 15), 16)
                l = oa2.merge(ob1, float(pa)).merge(ob2, float(qa))
                r = oa2.merge(ob1.merge(ob2, float(qa * (1 - pa) / (1 - pa * qa))), float(pa * qa))
                ctx.count_case(("assoc-p", c), nontrivial=True)
                la, ra = flat(l.average_expect), flat(r.average_expect)
                ls, rs = flat(l.std_expect), flat(r.std_expect)
                if (any(abs(x - y) > 1e-10 * max(1, abs(x)) for x, y in zip(la, ra))
                        or any(abs(x * x - y * y) > 1e-8 * max(1, abs(x * x)) for x, y in zip(ls, rs))
                        or list(l.seeds) != list(r.seeds)):
                    found.append((SITE_MERGE, "associativity-any-p",
                                  "(a +_p b) +_q c differs from a +_{pq} (b +_{q(1-p)/(1-pq)} c)",
                                  {"A": A, "B1": B1, "B2": B2, "p": str(pa), "q": str(qa), "got": [la, ra]}))
            # commutativity: merge(a, b, p) and merge(b, a, 1 - p) (C15_merge_commutative)
            m2 = ob.merge(oa, None if p is None else float(1 - fr(p)))
            ctx.count_case(("comm", c), nontrivial=True)
            am2, sm2 = flat(m2.average_expect), flat(m2.std_expect)
            if (any(abs(x - y) > 1e-10 * max(1, abs(x)) for x, y in zip(am, am2))
                    or any(abs(x * x - y * y) > 1e-8 * max(1, abs(x * x)) for x, y in zip(sm, sm2))
                    or m2.num_trajectories != m.num_trajectories):
                found.append((SITE_MERGE, "commutativity", "merge(a, b, p) differs from merge(b, a, 1 - p)",
                              {"A": A, "B": B, "p": p, "got": [am, am2]}))
    return found



# --------------------------------- averaged states / final state (oracle only)
class FakeTrajS(FakeTraj):
    """fake trajectory that also carries states (2x2 integer matrices or kets)"""

    def __init__(self, tr, shape, mats, with_states, with_final):
        FakeTraj.__init__(self, tr, shape)
        import qutip
        qs = [qutip.Qobj(np.array([[_z(x) for x in row] for row in m], dtype=complex)) for m in mats]
        self.states = qs if with_states else []
        self.final_state = qs[-1] if (with_final or with_states) else None


def _z(x):
    return complex(x["re"], x["im"]) if isinstance(x, dict) else x


def dm_of(m):
    a = np.array([[_z(x) for x in row] for row in m], dtype=complex)
    if a.shape[1] == 1:
        return a @ a.conj().T
    return a


def gen_mats(rng, nt, ket):
    out = []
    for _ in range(nt):
        if ket:
            out.append([[rng.randint(-2, 2) + 1j * rng.randint(-1, 1)], [rng.randint(-2, 2)]])
        else:
            a, b, c = rng.randint(0, 4), rng.randint(-2, 2), rng.randint(-2, 2)
            out.append([[a, b + 1j * c], [b - 1j * c, 4 - a]])
    return out


def states_scenario(sc):
    """fill A0, [read, add `extra`, read], permuted refill, merge with B;
    average_states / average_final_state against the weighted mean of the
    states added, at every read.  Implementation-level only (states are not
    in the Coq model)."""
    import qutip.solver.multitrajresult as M
    found = []
    nt, ss, sf, keep, cls = sc["nt"], sc["ss"], sc["sf"], sc["keep"], sc["cls"]
    shape = (1, nt)
    detail = {"scenario": sc, "kind": "states"}

    def mk():
        return getattr(M, cls)(["e0"], {"store_states": ss, "store_final_state": sf,
                                        "keep_runs_results": keep}, solver="fake",
                               stats={"run time": 0.0, "num_collapse": 1})

    def fill(o, its):
        for kind, t, w, mats in its:
            ft = FakeTrajS(t, shape, mats, ss, sf)
            if kind == "det":
                o.add_deterministic(ft, float(fr(w)))
            elif w is None:
                o.add((t["seed"], ft))
            else:
                o.add((t["seed"], ft, float(fr(w))))
        return o

    def expected(dets, rels):
        out = []
        for k in range(nt):
            acc = np.zeros((2, 2), dtype=complex)
            for w, mats in dets:
                acc = acc + float(w) * dm_of(mats[k])
            if rels:
                r = np.zeros((2, 2), dtype=complex)
                for w, mats in rels:
                    r = r + float(w) * dm_of(mats[k])
                acc = acc + r / len(rels)
            out.append(acc)
        return out

    def split(its):
        return ([(fr(i[2]), i[3]) for i in its if i[0] == "det"],
                [((Fr(1) if i[2] is None else fr(i[2])), i[3]) for i in its if i[0] == "rel"])

    def check(o, dets, rels, when, lazy=False):
        # lazy: keep_runs_results is set and average_states was read on this
        # object (or on a merge operand) before trajectories were added/merged
        sfx = "-after-lazy-reduction-with-keep_runs_results" if lazy else ""
        want = expected(dets, rels)
        avs = o.average_states
        afs = o.average_final_state
        if ss:
            if avs is None or len(avs) != nt or any(
                    np.abs(a.full() - w).max() > 1e-12 for a, w in zip(avs, want)):
                found.append(("MultiTrajResult.average_states", "average-states-formula" + sfx,
                              "average_states != weighted mean of the states added (%s)" % when,
                              dict(detail, when=when)))
        elif avs is not None:
            found.append(("MultiTrajResult.average_states", "states-without-store",
                          "average_states reported although states were not stored (%s)" % when,
                          dict(detail, when=when)))
        if ss or sf:
            if afs is None or np.abs(afs.full() - want[-1]).max() > 1e-12:
                found.append(("MultiTrajResult.average_final_state", "average-final-state-formula" + sfx,
                              "average_final_state != weighted mean of the final states (%s)" % when,
                              dict(detail, when=when)))
        elif afs is not None:
            found.append(("MultiTrajResult.average_final_state", "final-without-store",
                          "average_final_state reported although not stored (%s)" % when,
                          dict(detail, when=when)))

    A = [tuple(i) for i in sc["A0"]]
    oa = fill(mk(), A)
    da, ra = split(A)
    check(fill(mk(), [tuple(i) for i in sc["perm"]]), da, ra, "permuted insertion")
    early = sc["extra"] is not None
    if early:
        check(oa, da, ra, "after adds")
        extra = [tuple(i) for i in sc["extra"]]
        fill(oa, extra)
        A = A + extra
        da, ra = split(A)
        check(oa, da, ra, "read, more adds, read", lazy=keep)
    B = [tuple(i) for i in sc["B"]]
    ob = fill(mk(), B)
    db, rb = split(B)
    na, nb = len(ra), len(rb)
    pe = Fr(na, na + nb)
    p = sc["p"]
    pp = pe if p is None else fr(p)
    m = oa.merge(ob, None if p is None else float(fr(p)))
    dm_ = [(w * pp, x) for w, x in da] + [(w * (1 - pp), x) for w, x in db]
    rm_ = [(w * pp / pe, x) for w, x in ra] + [(w * (1 - pp) / (1 - pe), x) for w, x in rb]
    check(m, dm_, rm_, "after merge", lazy=keep and early)
    check(oa, da, ra, "left operand after merge", lazy=keep and early)
    check(ob, db, rb, "right operand after merge")
    # go on adding to an operand and to the merged result
    if sc.get("postA"):
        post = [tuple(i) for i in sc["postA"]]
        fill(oa, post)
        d2, r2 = split(post)
        da, ra = da + d2, ra + r2
        check(oa, da, ra, "operand: merge, more adds, read", lazy=keep and early)
    if sc.get("postM"):
        post = [tuple(i) for i in sc["postM"]]
        fill(m, post)
        d2, r2 = split(post)
        check(m, dm_ + d2, rm_ + r2, "merged result: more adds, read", lazy=keep and early)
    return found


def states_checks(ctx, rng, ncases):
    found = []
    fixed = [(1, True, True, True), (1, True, False, True), (2, False, True, True)]
    for c in range(ncases):
        nt = rng.choice([1, 2, 3])
        ss, sf, keep = rng.random() < 0.5, rng.random() < 0.5, rng.random() < 0.4
        if c < len(fixed):
            nt, ss, sf, keep = fixed[c]
        ket = rng.random() < 0.4
        st = {"seed": 0}

        def gen_items(kmin, kmax=5):
            its = []
            for _ in range(rng.randint(kmin, kmax)):
                t = gen_traj(rng, st, nt)
                mats = gen_mats(rng, nt, ket)
                if rng.random() < 0.25:
                    its.append(("det", t, [rng.randint(1, 8), 16], mats))
                else:
                    its.append(("rel", t, None if rng.random() < 0.4 else gen_w(rng), mats))
            if not any(i[0] == "rel" for i in its):
                its.append(("rel", gen_traj(rng, st, nt), None, gen_mats(rng, nt, ket)))
            return its

        A0 = gen_items(1)
        perm = list(A0)
        rng.shuffle(perm)
        extra = gen_items(1, 2) if (rng.random() < 0.5 or c < len(fixed)) else None
        B = gen_items(1)
        na = sum(1 for i in A0 + (extra or []) if i[0] == "rel")
        nb = sum(1 for i in B if i[0] == "rel")
        p = gen_p(rng, na, nb, dyadic(Fr(na, na + nb)))
        sc = {"nt": nt, "ss": ss, "sf": sf, "keep": keep,
              "cls": rng.choice(["McResult", "MultiTrajResult"]), "ket": ket,
              "A0": A0, "perm": perm, "extra": extra, "B": B, "p": p,
              "postA": gen_items(1, 2) if rng.random() < 0.6 else None,
              "postM": gen_items(1, 2) if rng.random() < 0.6 else None}
        sc = json.loads(json.dumps(sc, default=_cplx))
        ctx.count_case(("states", c, ss, sf, keep), nontrivial=True)
        found += states_scenario(sc)
    return found


def _cplx(z):
    if isinstance(z, complex):
        return {"re": z.real, "im": z.imag}
    raise TypeError(z)


# ------------------------ stored states: correspondence with Model/C15_st.v
ST_HEADER = ("From Coq Require Import List ZArith.\nImport ListNotations.\n"
             "From QV Require Import Model.C15 Model.C15_st.\nOpen Scope Z_scope.\n")
ST_D = 8          # one 2x2 complex matrix flattened: 4 real parts, 4 imaginary parts


def st_flat_mat(a):
    a = np.asarray(a, dtype=complex).ravel()
    return [float(x.real) for x in a] + [float(x.imag) for x in a]


def st_mats_vec(mats):
    out = []
    for m in mats:
        out.extend(st_flat_mat(dm_of(m)))
    return out


class StImpl:
    def __init__(self, case):
        import qutip.solver.multitrajresult as M
        self.M = M
        self.case = case
        self.nt = case["nt"]
        self.cls = getattr(M, case.get("cls", "McResult"))
        self.objs = []
        self.outcomes = []
        self.reads = []

    def mk_traj(self, o, tr):
        ss, sf = o.options["store_states"], o.options["store_final_state"]
        t = FakeTrajS({"seed": tr["id"], "times": 0, "coll": 0,
                       "e": [[0, 1]] * self.nt}, (1, self.nt), tr["mats"], bool(ss), bool(sf))
        if "trace" in tr:           # NmmcResult: martingale weight per time
            t.trace = [float(fr(v)) for v in tr["trace"]]
        return t

    def step(self, op):
        k = op[0]
        try:
            if k == "new":
                self.objs.append(self.cls(["e0"], {"store_states": op[1], "store_final_state": op[2],
                                                  "keep_runs_results": op[3]}, solver="fake",
                                          stats={"run time": 0.0, "num_collapse": 1}))
                return 0
            if k == "merge":
                if not (0 <= op[1] < len(self.objs) and 0 <= op[2] < len(self.objs)):
                    return 1
                a, b = self.objs[op[1]], self.objs[op[2]]
                m = a.merge(b, None if op[3] is None else float(fr(op[3])))
                self.objs.append(m)
                return 0
            if not (0 <= op[1] < len(self.objs)):
                return 1
            o = self.objs[op[1]]
            if k == "add":
                t = self.mk_traj(o, op[2])
                o.add((t.seed_id, t, float(fr(op[3]))))
            elif k == "adddet":
                o.add_deterministic(self.mk_traj(o, op[2]), float(fr(op[3])))
            elif k == "rstates":
                self.reads.append(("states", op[1], self.val_states(o.average_states)))
            elif k == "rfinal":
                self.reads.append(("final", op[1], self.val_final(o.average_final_state)))
            return 0
        except ValueError:
            return 2
        except ZeroDivisionError:
            return 3
        except (TypeError, AttributeError):
            return 4

    @staticmethod
    def val_states(v):
        if v is None:
            return (0, [])
        out = []
        for q in v:
            out.extend(st_flat_mat(q.full()))
        return (1, out)

    @staticmethod
    def val_final(v):
        if v is None:
            return (0, [])
        return (1, st_flat_mat(v.full()))

    def snap(self, o):
        def ssum(s):
            if s is None:
                return None
            st = None
            if s.sum_states:
                st = []
                for q in s.sum_states:
                    st.extend(st_flat_mat(q.full()))
            fin = None if s.sum_final_state is None else st_flat_mat(s.sum_final_state.full())
            return (st, fin)

        def pure(prop, val):
            c = copy.copy(o)
            c._sum_rel = copy.copy(o._sum_rel)
            c._sum_det = copy.copy(o._sum_det)
            try:
                return val(getattr(c, prop))
            except (TypeError, AttributeError):
                return (2, [])
        return {"opts": (bool(o.options["store_states"]), bool(o.options["store_final_state"]),
                         bool(o.options["keep_runs_results"])),
                "num": int(o.num_trajectories),
                "rel": ssum(o._sum_rel), "det": ssum(o._sum_det),
                "w_rel": [float(w) for w in o._trajectories_weight_info],
                "w_det": [float(w) for w in o._deterministic_weight_info],
                "trajs": [t.seed_id for t in o.trajectories],
                "dtrajs": [t.seed_id for t in o.deterministic_trajectories],
                "avg_states": pure("average_states", self.val_states),
                "avg_final": pure("average_final_state", self.val_final)}

    def run(self):
        for op in self.case["ops"]:
            self.outcomes.append(self.step(op))
        return {"outcomes": self.outcomes, "objs": [self.snap(o) for o in self.objs]}


def st_cvec(v):
    return clist(v, lambda x: "(%s, %s)" % (cz(Fr(x).numerator), cz(Fr(x).denominator)))


def st_ctraj(tr, ss, sf, nt):
    vec = st_mats_vec(tr["mats"])
    if "trace" in tr:
        # nm_scale of Model/C15_nm.v: the states of time j multiplied by trace[j]
        vec = [Fr(x) * fr(tr["trace"][q // ST_D]) for q, x in enumerate(vec)]
    st = "(Some %s)" % st_cvec(vec) if ss else "None"
    fin = "(Some %s)" % st_cvec(vec[-ST_D:]) if (ss or sf) else "None"
    return "(mkst %s %s %s)" % (cz(tr["id"]), st, fin)


def st_cops(case):
    """Coq term; trajectories carry states exactly when the options of the
    object they are added to ask for them (as the solvers produce them)."""
    ss, sf = case["ss"], case["sf"]
    out = []
    for op in case["ops"]:
        k = op[0]
        if k == "new":
            out.append("SNew %s %s %s" % (cbool(op[1]), cbool(op[2]), cbool(op[3])))
        elif k == "add":
            out.append("SAdd %s %s %s" % (cnat(op[1]), st_ctraj(op[2], ss, sf, case["nt"]), cq(op[3])))
        elif k == "adddet":
            out.append("SAddDet %s %s %s" % (cnat(op[1]), st_ctraj(op[2], ss, sf, case["nt"]), cq(op[3])))
        elif k == "merge":
            out.append("SMerge %s %s %s" % (cnat(op[1]), cnat(op[2]),
                                           "None" if op[3] is None else "(Some %s)" % cq(op[3])))
        elif k == "rstates":
            out.append("SReadStates %s" % cnat(op[1]))
        else:
            out.append("SReadFinal %s" % cnat(op[1]))
    return "sobserve %s %s" % (cnat(ST_D), clist(out))


def st_parse(val):
    codes, objs = vlib.parse_coq_value(val)
    out = []
    for o in objs:
        ss, sf, keep, num, sums, ws, vals = o
        rel, det = sums
        w_rel, w_det, trajs, dtrajs = ws
        av = (vals[0], vals[1])
        af = vals[2]

        def ssum(x):
            return mopt(x, lambda pr: (mopt(pr[0], mvec), mopt(pr[1], mvec)))
        out.append({"opts": (ss, sf, keep), "num": num, "rel": ssum(rel), "det": ssum(det),
                    "w_rel": mvec(w_rel), "w_det": mvec(w_det), "trajs": list(trajs),
                    "dtrajs": list(dtrajs),
                    "avg_states": (av[0], mvec(av[1])), "avg_final": (af[0], mvec(af[1]))})
    return {"outcomes": list(codes), "objs": out}


def st_compare(im, mo, cstats):
    if im["outcomes"] != mo["outcomes"]:
        return "outcomes", im["outcomes"], mo["outcomes"]
    if len(im["objs"]) != len(mo["objs"]):
        return "number of objects", len(im["objs"]), len(mo["objs"])
    for k, (a, b) in enumerate(zip(im["objs"], mo["objs"])):
        for f in ("opts", "num", "trajs", "dtrajs"):
            if tuple(a[f]) != tuple(b[f]) if f == "opts" else a[f] != b[f]:
                return "obj%d.%s" % (k, f), a[f], b[f]
        for f in ("w_rel", "w_det"):
            if not vec_eq(b[f], a[f], True, cstats):
                return "obj%d.%s" % (k, f), a[f], [str(x) for x in b[f]]
        for f in ("rel", "det"):
            if (a[f] is None) != (b[f] is None):
                return "obj%d.%s" % (k, f), a[f], str(b[f])
            if a[f] is not None:
                for h, nm in ((0, "sum_states"), (1, "sum_final_state")):
                    if not vec_eq(b[f][h], a[f][h], True, cstats):
                        return "obj%d.%s.%s" % (k, f, nm), a[f][h], str(b[f][h])
        for f in ("avg_states", "avg_final"):
            if a[f][0] != b[f][0] or not vec_eq(b[f][1], a[f][1], True, cstats):
                return "obj%d.%s" % (k, f), a[f], str(b[f])
    return None


def st_oracle(case):
    """The property itself on a stored-state history, from fractions: after
    every operation and at every read, average_states / average_final_state
    (when reported) are the weighted mean of exactly the trajectories added,
    average_final_state is the last averaged state, a value is reported
    whenever states (final states) are stored and sampled trajectories exist,
    and merge leaves the reported values of its operands unchanged.
    Returns (found, impl_observation)."""
    I = StImpl(case)
    ss, sf = case["ss"], case["sf"]
    nt = case["nt"]
    found = []
    ens = []

    def vec_of(tr):
        v = [Fr(x) for x in st_mats_vec(tr["mats"])]
        if "trace" in tr:
            v = [x * fr(tr["trace"][q // ST_D]) for q, x in enumerate(v)]
        return v

    def bad(site, sig, what, k, idx, extra=None):
        d = {"st_case": case, "kind": "stcase", "op": k, "obj": idx}
        d.update(extra or {})
        found.append((site, sig, what, d))

    def expected(E):
        n = nt * ST_D
        out = []
        for q in range(n):
            a = sum((w * v[q] for w, v in E.det), Fr(0))
            if E.rel:
                a += sum((w * v[q] for w, v in E.rel), Fr(0)) / len(E.rel)
            out.append(a)
        return out

    def check(k, idx, when, vals=None):
        o = I.objs[idx]
        E = ens[idx]
        if E.empty():
            return
        sn = I.snap(o) if vals is None else vals
        want = expected(E)
        av, af = sn["avg_states"], sn["avg_final"]
        if av[0] == 1 and not vec_eq(want, av[1], True):
            bad("MultiTrajResult.average_states", "average-states-formula",
                "average_states != weighted mean of the states added (%s)" % when, k, idx,
                {"got": av[1][:ST_D], "want": [str(x) for x in want[:ST_D]]})
        if af[0] == 1 and not vec_eq(want[-ST_D:], af[1], True):
            bad("MultiTrajResult.average_final_state", "average-final-state-formula",
                "average_final_state != weighted mean of the final states added (%s)" % when, k, idx,
                {"got": af[1], "want": [str(x) for x in want[-ST_D:]]})
        if av[0] == 1 and af[0] == 1 and any(
                abs(x - y) > 1e-12 * max(1.0, abs(x)) for x, y in zip(av[1][-ST_D:], af[1])):
            bad("MultiTrajResult.average_final_state", "final-not-last-averaged-state",
                "average_final_state != average_states[-1] (%s)" % when, k, idx,
                {"final": af[1], "last_state": av[1][-ST_D:]})
        if av[0] == 2 or af[0] == 2:
            bad("MultiTrajResult.average_states", "read-raises",
                "reading the averaged states raised on a non-empty result (%s)" % when, k, idx)
        if E.rel:
            if ss and av[0] == 0:
                bad("MultiTrajResult.average_states", "no-averaged-states",
                    "store_states is set but average_states is None (%s)" % when, k, idx)
            if (ss or sf) and af[0] == 0:
                bad("MultiTrajResult.average_final_state", "no-averaged-final-state",
                    "final states are stored but average_final_state is None (%s)" % when, k, idx)

    for k, op in enumerate(case["ops"]):
        if len(ens) != len(I.objs):
            break
        kind = op[0]
        before = None
        if kind == "merge" and 0 <= op[1] < len(I.objs) and 0 <= op[2] < len(I.objs):
            before = [(j, I.snap(I.objs[j])) for j in sorted({op[1], op[2]})]
        nread = len(I.reads)
        code = I.step(op)
        I.outcomes.append(code)
        if kind == "new":
            e = Ens()
            e.hast = False
            ens.append(e)
        elif kind == "add" and code == 0:
            ens[op[1]].rel.append((fr(op[3]), vec_of(op[2])))
            check(k, op[1], "after add")
        elif kind == "adddet" and code == 0:
            ens[op[1]].det.append((fr(op[3]), vec_of(op[2])))
            check(k, op[1], "after add_deterministic")
        elif kind in ("rstates", "rfinal") and code == 0 and len(I.reads) > nread:
            check(k, op[1], "after a read")
        elif kind == "merge" and before is not None:
            for j, sn in before:
                after = I.snap(I.objs[j])
                for f in ("avg_states", "avg_final"):
                    if sn[f] != after[f]:
                        bad("MultiTrajResult.merge", "merge-changes-operand-states",
                            "merge changed the %s reported by an operand" % f, k, j)
            if code == 0:
                Ea, Eb = ens[op[1]], ens[op[2]]
                pe = Fr(Ea.n(), Ea.n() + Eb.n())
                pp = pe if op[3] is None else fr(op[3])
                E = Ens()
                E.det = [(w * pp, v) for w, v in Ea.det] + [(w * (1 - pp), v) for w, v in Eb.det]
                E.rel = ([(w * pp / pe, v) for w, v in Ea.rel]
                         + [(w * (1 - pp) / (1 - pe), v) for w, v in Eb.rel])
                ens.append(E)
                check(k, len(ens) - 1, "after merge")
                check(k, op[1], "operand after merge")
                check(k, op[2], "operand after merge")
    obs = {"outcomes": I.outcomes, "objs": [I.snap(o) for o in I.objs]}
    return found, obs



def _stt(i, v):
    return {"id": i, "mats": [[[315 * v, 0], [0, 315 * (4 - v)]]]}


def _st_merge_then_add(ss, sf, keep):
    """merge, then add / add_deterministic on an operand and on the merged
    result, then read everything"""
    ops = [["new", ss, sf, keep], ["add", 0, _stt(1, 1), [1, 1]], ["adddet", 0, _stt(2, 2), [1, 4]],
           ["new", ss, sf, keep], ["add", 1, _stt(3, 3), [1, 1]],
           ["merge", 0, 1, None],
           ["add", 0, _stt(4, 4), [1, 1]], ["rfinal", 0], ["rstates", 0],
           ["adddet", 1, _stt(5, 2), [1, 8]], ["rfinal", 1],
           ["add", 2, _stt(6, 0), [1, 2]], ["rfinal", 2], ["rstates", 2],
           ["adddet", 2, _stt(7, 1), [1, 8]], ["rstates", 2], ["rfinal", 2],
           ["merge", 2, 0, [1, 4]], ["rfinal", 3], ["rstates", 3]]
    return {"nt": 1, "ss": ss, "sf": sf, "ops": ops, "keep_mode": "T" if keep else "F", "ket": False,
            "cls": "MultiTrajResult"}


ST_CORPUS = [_st_merge_then_add(a, b, c) for a in (True, False) for b in (True, False)
             for c in (False, True)]


def st_gen_case(rng, big=False):
    nt = rng.choice([1, 2, 3])
    ss, sf = rng.random() < 0.6, rng.random() < 0.5
    keep_mode = rng.choice(["F", "T", "T", "mixed"])
    ket = rng.random() < 0.3
    ops, nums, hast = [], [], []
    st = {"id": 0}

    def new():
        k = {"F": False, "T": True, "mixed": rng.random() < 0.5}[keep_mode]
        ops.append(["new", ss, sf, k])
        nums.append(0)
        hast.append(False)

    cls = rng.choice(["McResult", "MultiTrajResult", "NmmcResult"])

    def traj():
        st["id"] += 1
        mats = gen_mats(rng, nt, ket)
        mats = [[[315 * _z(x) if not isinstance(x, complex) else 315 * x for x in row] for row in m]
                for m in mats] if not ket else mats
        t = {"id": st["id"], "mats": json.loads(json.dumps(mats, default=_cplx))}
        if cls == "NmmcResult":
            t["trace"] = [[rng.randint(-3, 6), 2 ** rng.randint(0, 2)] for _ in range(nt)]
        return t

    for _ in range(rng.randint(1, 3)):
        new()
    length = rng.randint(5, 30 if big else 18)
    while len(ops) < length:
        r = rng.random()
        i = rng.randrange(len(nums))
        if r < 0.4:
            ops.append(["add", i, traj(), [1, 1] if rng.random() < 0.4 else gen_w(rng)])
            nums[i] += 1
            hast[i] = True
        elif r < 0.55:
            ops.append(["adddet", i, traj(), [rng.randint(1, 8), 16]])
            hast[i] = True
        elif r < 0.75:
            ops.append([rng.choice(["rstates", "rfinal"]), i])
        elif r < 0.93:
            j = rng.randrange(len(nums))
            na, nb = nums[i], nums[j]
            if hast[i] != hast[j] or na == 0 or nb == 0:
                if rng.random() < 0.5:
                    ops.append(["merge", i, j, None])
                continue
            if not dyadic(Fr(na, na + nb)):
                continue
            ops.append(["merge", i, j, gen_p(rng, na, nb, True)])
            nums.append(na + nb)
            hast.append(True)
            # often go on adding to an operand and / or to the merged result, then read
            for tgt in (i, j, len(nums) - 1):
                if rng.random() < 0.5:
                    if rng.random() < 0.7:
                        ops.append(["add", tgt, traj(), [1, 1] if rng.random() < 0.4 else gen_w(rng)])
                        nums[tgt] += 1
                    else:
                        ops.append(["adddet", tgt, traj(), [rng.randint(1, 8), 16]])
                    ops.append([rng.choice(["rfinal", "rstates"]), tgt])
        elif len(nums) < 6:
            new()
    return {"nt": nt, "ss": ss, "sf": sf, "ops": ops, "keep_mode": keep_mode, "ket": ket,
            "cls": cls}


# ------------------------- NmmcResult: correspondence with Model/C15_nm.v
NM_HEADER = ("From Coq Require Import List ZArith.\nImport ListNotations.\n"
             "From QV Require Import Model.C15 Model.C15_st Model.C15_nm.\nOpen Scope Z_scope.\n")


class FakeTrajN(FakeTraj):
    def __init__(self, tr, shape):
        FakeTraj.__init__(self, tr, shape)
        self.trace = [float(fr(v)) for v in tr["trace"]]


class NmImpl:
    def __init__(self, case):
        import qutip.solver.multitrajresult as M
        self.M = M
        self.case = case
        self.shape = tuple(case["shape"])
        self.e_ops = ["e%d" % k for k in range(self.shape[0])]
        self.objs = []
        self.outcomes = []
        self.reads = []

    def step(self, op):
        k = op[0]
        try:
            if k == "new":
                self.objs.append(self.M.NmmcResult(
                    self.e_ops, {"store_states": False, "store_final_state": False,
                                 "keep_runs_results": op[1]}, solver="fake",
                    stats={"run time": 0.0, "num_collapse": 1}))
                return 0
            if k == "merge":
                if not (0 <= op[1] < len(self.objs) and 0 <= op[2] < len(self.objs)):
                    return 1
                self.objs.append(self.objs[op[1]].merge(
                    self.objs[op[2]], None if op[3] is None else float(fr(op[3]))))
                return 0
            if not (0 <= op[1] < len(self.objs)):
                return 1
            o = self.objs[op[1]]
            if k == "add":
                t = FakeTrajN(op[2], self.shape)
                o.add((t.seed_id, t, float(fr(op[3]))))
            elif k == "adddet":
                o.add_deterministic(FakeTrajN(op[2], self.shape), float(fr(op[3])))
            elif k == "rtrace":
                self.reads.append((op[1], [float(x) for x in o.average_trace],
                                   [float(x) for x in o.std_trace]))
            return 0
        except ValueError:
            return 2
        except ZeroDivisionError:
            return 3
        except (TypeError, AttributeError):
            return 4

    def snap(self, o):
        def ns(s):
            return None if s is None else (flat(s.sum_expect), flat(s.sum2_expect))
        tr = None
        if o._sum_trace_det is not None:
            tr = tuple([float(x) for x in v] for v in (o._sum_trace_det, o._sum_trace_rel,
                                                      o._sum2_trace_det, o._sum2_trace_rel))
        cache = None
        if o._average_trace is not None:
            cache = ([float(x) for x in o._average_trace], [float(x) for x in o._std_trace])
        c = copy.copy(o)
        c._average_trace = None
        c._std_trace = None
        try:
            c._compute_avg_trace()
            fresh = ([float(x) for x in c._average_trace], [float(x) for x in c._std_trace])
        except TypeError:
            fresh = None
        c2 = copy.copy(o)
        c2._average_e_data = {}
        c2._std_e_data = {}
        try:
            c2._create_e_data()
            avg = flat([np.array(v) for v in c2._average_e_data.values()])
            std = flat([np.array(v) for v in c2._std_e_data.values()])
        except TypeError:
            avg = std = None
        return {"keep": bool(o.options["keep_runs_results"]), "num": int(o.num_trajectories),
                "rel": ns(o._sum_rel), "det": ns(o._sum_det), "tr": tr,
                "w_rel": [float(w) for w in o._trajectories_weight_info],
                "w_det": [float(w) for w in o._deterministic_weight_info],
                "runs_trace": [[float(x) for x in t] for t in o.runs_trace],
                "cache": cache, "fresh_trace": fresh, "avg": avg, "std": std,
                "ntrajs": len(o.trajectories), "ndet": len(o.deterministic_trajectories)}

    def run(self):
        for op in self.case["ops"]:
            self.outcomes.append(self.step(op))
        return {"outcomes": self.outcomes, "objs": [self.snap(o) for o in self.objs]}


def nm_cops(case):
    ne, nt = case["shape"]
    out = []

    def zl(v):
        return clist(v, lambda x: "(%s, %s)" % (cz(x[0]), cz(x[1])))
    for op in case["ops"]:
        k = op[0]
        if k == "new":
            out.append("NNew %s" % cbool(op[1]))
        elif k in ("add", "adddet"):
            t = op[2]
            tm = "(mknt %s %s %s %s)" % (cz(t["seed"]), zl(t["e"]), zl(t["trace"] * ne), zl(t["trace"]))
            out.append("%s %s %s %s" % ("NAdd" if k == "add" else "NAddDet", cnat(op[1]), tm, cq(op[3])))
        elif k == "merge":
            out.append("NMerge %s %s %s" % (cnat(op[1]), cnat(op[2]),
                                           "None" if op[3] is None else "(Some %s)" % cq(op[3])))
        else:
            out.append("NReadTrace %s" % cnat(op[1]))
    return "nobserve %s" % clist(out)


def nm_parse(val):
    codes, objs = vlib.parse_coq_value(val)
    out = []
    for o in objs:
        keep, num, sums, tr, ws, vals = o
        rel, det = sums
        w_rel, w_det, runs = ws
        cache, fresh, avg, var = vals

        def ns(x):
            return mopt(x, lambda pr: (mvec(pr[0]), mvec(pr[1])))

        def pr2(x):
            return mopt(x, lambda pr: (mvec(pr[0]), mvec(pr[1])))
        out.append({"keep": keep, "num": num, "rel": ns(rel), "det": ns(det),
                    "tr": mopt(tr, lambda q: tuple(mvec(v) for v in q)),
                    "w_rel": mvec(w_rel), "w_det": mvec(w_det),
                    "runs_trace": [mvec(v) for v in runs],
                    "cache": pr2(cache), "fresh_trace": pr2(fresh),
                    "avg": mopt(avg, mvec), "var": mopt(var, mvec)})
    return {"outcomes": list(codes), "objs": out}


def var_eq(mv, sv, cstats):
    """model variance vector against implementation std vector"""
    if mv is None or sv is None:
        return mv is None and sv is None
    if len(mv) != len(sv):
        return False
    for v, s_ in zip(mv, sv):
        cstats["approx"] = cstats.get("approx", 0) + 1
        if abs(s_ * s_ - float(v)) > 1e-9 * max(1.0, abs(float(v))):
            return False
    return True


def nm_compare(im, mo, cstats):
    if im["outcomes"] != mo["outcomes"]:
        return "outcomes", im["outcomes"], mo["outcomes"]
    if len(im["objs"]) != len(mo["objs"]):
        return "number of objects", len(im["objs"]), len(mo["objs"])
    for k, (a, b) in enumerate(zip(im["objs"], mo["objs"])):
        for f in ("keep", "num"):
            if a[f] != b[f]:
                return "obj%d.%s" % (k, f), a[f], b[f]
        for f in ("w_rel", "w_det"):
            if not vec_eq(b[f], a[f], True, cstats):
                return "obj%d.%s" % (k, f), a[f], [str(x) for x in b[f]]
        for f in ("rel", "det"):
            if (a[f] is None) != (b[f] is None):
                return "obj%d.%s" % (k, f), a[f], str(b[f])
            if a[f] is not None:
                for h in (0, 1):
                    if not vec_eq(b[f][h], a[f][h], True, cstats):
                        return "obj%d.%s[%d]" % (k, f, h), a[f][h], str(b[f][h])
        if (a["tr"] is None) != (b["tr"] is None):
            return "obj%d.trace sums" % k, a["tr"], str(b["tr"])
        if a["tr"] is not None:
            for h in range(4):
                if not vec_eq(b["tr"][h], a["tr"][h], True, cstats):
                    return "obj%d.trace sum %d" % (k, h), a["tr"][h], str(b["tr"][h])
        if len(a["runs_trace"]) != len(b["runs_trace"]) or not all(
                vec_eq(y, x, True, cstats) for x, y in zip(a["runs_trace"], b["runs_trace"])):
            return "obj%d.runs_trace" % k, a["runs_trace"], str(b["runs_trace"])
        for f in ("cache", "fresh_trace"):
            if (a[f] is None) != (b[f] is None):
                return "obj%d.%s" % (k, f), a[f], str(b[f])
            if a[f] is not None:
                if not vec_eq(b[f][0], a[f][0], True, cstats) or not var_eq(b[f][1], a[f][1], cstats):
                    return "obj%d.%s" % (k, f), a[f], str(b[f])
        if not vec_eq(b["avg"], a["avg"], True, cstats) or not var_eq(b["var"], a["std"], cstats):
            return "obj%d.average/std expect" % k, [a["avg"], a["std"]], str([b["avg"], b["var"]])
    return None


def nm_gen_case(rng, big=False):
    ne, nt = rng.choice([(1, 1), (1, 2), (2, 2), (2, 1), (1, 3)])
    n = ne * nt
    st = {"seed": 0}
    keep_mode = rng.choice(["F", "T", "mixed"])
    ops, nums, hast = [], [], []

    def new():
        ops.append(["new", {"F": False, "T": True, "mixed": rng.random() < 0.5}[keep_mode]])
        nums.append(0)
        hast.append(False)

    def traj():
        t = gen_traj(rng, st, n)
        t["trace"] = [[rng.randint(-3, 6), 2 ** rng.randint(0, 2)] for _ in range(nt)]
        return t

    for _ in range(rng.randint(1, 3)):
        new()
    length = rng.randint(5, 30 if big else 18)
    while len(ops) < length:
        r = rng.random()
        i = rng.randrange(len(nums))
        if r < 0.45:
            ops.append(["add", i, traj(), [1, 1] if rng.random() < 0.4 else gen_w(rng)])
            nums[i] += 1
            hast[i] = True
        elif r < 0.6:
            ops.append(["adddet", i, traj(), [rng.randint(1, 8), 16]])
            hast[i] = True
        elif r < 0.75:
            ops.append(["rtrace", i])
        elif r < 0.93:
            j = rng.randrange(len(nums))
            na, nb = nums[i], nums[j]
            if hast[i] != hast[j] or na == 0 or nb == 0:
                if rng.random() < 0.5:
                    ops.append(["merge", i, j, None])
                continue
            if not dyadic(Fr(na, na + nb)):
                continue
            ops.append(["merge", i, j, gen_p(rng, na, nb, True)])
            nums.append(na + nb)
            hast.append(True)
        elif len(nums) < 6:
            new()
    return {"shape": [ne, nt], "ops": ops, "keep_mode": keep_mode}


def nm_oracle(case, I):
    """NmmcResult against fractions: trace-weighted mean of the expectation
    values and mean of the trace, with the weights the object reports."""
    ne, nt = case["shape"]
    n = ne * nt
    found = []
    ens = []
    ok_idx = 0
    for op, code in zip(case["ops"], I["outcomes"]):
        k = op[0]
        if k == "new":
            ens.append(Ens())
        elif k == "add" and code == 0:
            ens[op[1]].rel.append((fr(op[3]), op[2]))
        elif k == "adddet" and code == 0:
            ens[op[1]].det.append((fr(op[3]), op[2]))
        elif k == "merge" and code == 0:
            Ea, Eb = ens[op[1]], ens[op[2]]
            pe = Fr(Ea.n(), Ea.n() + Eb.n())
            pp = pe if op[3] is None else fr(op[3])
            E = Ens()
            E.det = [(w * pp, t) for w, t in Ea.det] + [(w * (1 - pp), t) for w, t in Eb.det]
            E.rel = ([(w * pp / pe, t) for w, t in Ea.rel]
                     + [(w * (1 - pp) / (1 - pe), t) for w, t in Eb.rel])
            ens.append(E)
    if len(ens) != len(I["objs"]):
        return [("NmmcResult.merge", "objects-diverge", "number of result objects differs from the history", {})]
    for idx, (E, o) in enumerate(zip(ens, I["objs"])):
        if E.empty():
            continue
        want = [E.mean(lambda t, k=k: fr(t["trace"][k % nt]) * fr(t["e"][k])) for k in range(n)]
        if o["avg"] is None or not vec_eq(want, o["avg"], True):
            found.append(("NmmcResult._reduce_expect", "trace-weighted-average",
                          "average_expect != weighted mean of trace * value", {"obj": idx, "got": o["avg"],
                                                                              "want": [str(x) for x in want]}))
        wt = [E.mean(lambda t, k=k: fr(t["trace"][k])) for k in range(nt)]
        if o["fresh_trace"] is None or not vec_eq(wt, o["fresh_trace"][0], True):
            found.append(("NmmcResult._compute_avg_trace", "average-trace",
                          "average_trace != weighted mean of the traces", {"obj": idx, "got": o["fresh_trace"],
                                                                          "want": [str(x) for x in wt]}))
        if o["cache"] is not None and not vec_eq(wt, o["cache"][0], True):
            found.append(("NmmcResult.average_trace", "stale-trace-cache",
                          "cached average_trace is not the current weighted mean", {"obj": idx}))
        if o["keep"] and len(o["runs_trace"]) == o["ntrajs"]:
            want_rt = [[float(fr(v)) for v in t["trace"]] for _, t in E.rel]
            if o["runs_trace"] != want_rt:
                found.append(("NmmcResult._add_trace", "runs-trace-misaligned",
                              "runs_trace is not the list of traces of the sampled trajectories, in order",
                              {"obj": idx, "got": o["runs_trace"], "want": want_rt}))
        if not o["keep"] and o["runs_trace"]:
            found.append(("NmmcResult._add_trace", "runs-trace-without-keep",
                          "runs_trace filled although keep_runs_results is off", {"obj": idx}))
        if o["keep"] and len(o["runs_trace"]) != o["ntrajs"]:
            found.append(("NmmcResult._add_trace", "runs-trace-includes-deterministic",
                          "len(runs_trace)=%d but len(trajectories)=%d (traces of deterministic "
                          "trajectories are appended to runs_trace)" % (len(o["runs_trace"]), o["ntrajs"]),
                          {"obj": idx}))
    for r in found:
        r[3]["nm_case"] = case
        r[3]["kind"] = "nm"
    return found


# ------------------- _target_tolerance_end: correspondence with Model/C15_tt.v
TT_HEADER = ("From Coq Require Import List ZArith.\nImport ListNotations.\n"
             "From QV Require Import Model.C15 Model.C15_tt.\nOpen Scope Z_scope.\n")
SITE_TT = "MultiTrajResult._target_tolerance_end"


def tt_run(ctx, rng, ncases):
    """Drives real results with a target tolerance; returns (records, found).
    A record is the state before the call, the value `add` returned and the
    end_condition it left."""
    import qutip.solver.multitrajresult as M
    recs, found = [], []
    for c in range(ncases):
        ne, nt = rng.choice([(1, 1), (1, 2), (2, 2), (2, 1)])
        n = ne * nt
        st = {"seed": 0}
        target = rng.randint(1, 10)
        tols = [[Fr(2) ** rng.randint(-3, 3), rng.choice([Fr(0), Fr(0), Fr(0), Fr(1, 4), Fr(1, 2)])]
                for _ in range(ne)]
        exact = all(r == 0 for _, r in tols)
        o = M.MultiTrajResult(["e%d" % k for k in range(ne)],
                              {"store_states": False, "store_final_state": False,
                               "keep_runs_results": False}, solver="fake", stats={"run time": 0.0})
        o.add_end_condition(target, target_tol=[(float(a), float(r)) for a, r in tols])
        atol = [[t[0].numerator, t[0].denominator] for t in tols for _ in range(nt)]
        rtol = [[t[1].numerator, t[1].denominator] for t in tols for _ in range(nt)]
        E = Ens()
        same = rng.random() < 0.25          # identical trajectories: zero spread
        base = gen_traj(rng, st, n)
        for step in range(rng.randint(1, target + 2)):
            if rng.random() < 0.15 and not E.det:
                t = gen_traj(rng, st, n)
                w = [rng.randint(1, 8), 16]
                o.add_deterministic(FakeTraj(t, (ne, nt)), float(fr(w)))
                E.det.append((fr(w), t))
                continue
            t = dict(base, seed=st["seed"] + 1) if same else gen_traj(rng, st, n)
            t["e"] = [[v[0] // 315 if v[0] % 315 == 0 else v[0], v[1]] for v in t["e"]]
            o.stats["end_condition"] = "timeout"
            ret = o.add((t["seed"], FakeTraj(t, (ne, nt))))
            E.rel.append((Fr(1), t))
            flag = {"timeout": 0, "ntraj reached": 1, "target tolerance reached": 2}.get(
                o.stats["end_condition"], -1)
            s1 = [Fr(x) for x in flat(o._sum_rel.sum_expect)]
            s2 = [Fr(x) for x in flat(o._sum_rel.sum2_expect)]
            wdet = [Fr(float(w_)) for w_ in o._deterministic_weight_info]
            rec = {"target": target, "num": int(o.num_trajectories), "s1": s1, "s2": s2,
                   "atol": atol, "rtol": rtol, "wdet": wdet, "ret": float(ret), "flag": flag,
                   "exact": exact, "shape": [ne, nt]}
            recs.append(rec)
            ctx.count_case(("tt", c, step), nontrivial=rec["num"] >= 2)
            # the property itself, from the trajectories added (fractions)
            N = E.n()
            if ret <= 0 and N < target:
                if N <= 1:
                    found.append((SITE_TT, "ends-with-one-trajectory",
                                  "the end is signalled with %d trajectory" % N, {"rec_case": _ttj(rec)}))
                else:
                    one = 1 - sum((w_ for w_, _ in E.det), Fr(0)) if E.det else Fr(1)
                    for k in range(n):
                        m1 = sum((fr(t_["e"][k]) for _, t_ in E.rel), Fr(0)) / N
                        m2 = sum((fr(t_["e"][k]) ** 2 for _, t_ in E.rel), Fr(0)) / N
                        tol = tols[k // nt][0] + tols[k // nt][1] * m1
                        if (m2 * one - m1 * m1) > (N - 1) * tol * tol * (1 + Fr(1, 10 ** 9)):
                            found.append((SITE_TT, "tolerance-not-reached",
                                          "end signalled but std/(N-1) > target**2 for component %d" % k,
                                          {"rec_case": _ttj(rec)}))
                            break
            if N >= target and not (ret == 0 and flag == 1):
                found.append((SITE_TT, "ntraj-not-respected",
                              "ntraj reached but add returned %r / %r" % (ret, flag), {"rec_case": _ttj(rec)}))
            if N < target and ret != math.inf and ret > target - N + 1e-9:
                found.append((SITE_TT, "asks-more-than-ntraj",
                              "estimate %r exceeds ntraj - N" % ret, {"rec_case": _ttj(rec)}))
    return recs, found


def _ttj(rec):
    return {k: ([str(x) for x in v] if k in ("s1", "s2", "wdet") else v) for k, v in rec.items()}


def tt_expr(rec):
    def zl(v):
        return clist(v, lambda x: "(%s, %s)" % (cz(Fr(x[0], x[1]).numerator if isinstance(x, list) else Fr(x).numerator),
                                                cz(Fr(x[0], x[1]).denominator if isinstance(x, list) else Fr(x).denominator)))
    return "tt_obs %s %s %s %s %s %s %s" % (cnat(rec["target"]), cnat(rec["num"]), zl(rec["s1"]),
                                           zl(rec["s2"]), zl(rec["atol"]), zl(rec["rtol"]), zl(rec["wdet"]))


def tt_zero_target(rec):
    """atol + rtol * mean == 0 for some component: the code divides by zero
    (inf / nan); outside the model"""
    if rec["num"] < 2:
        return False
    for s1, a, r in zip(rec["s1"], rec["atol"], rec["rtol"]):
        if Fr(a[0], a[1]) + Fr(r[0], r[1]) * Fr(s1) / rec["num"] == 0:
            return True
    return False


def tt_compare(rec, val, cstats):
    if tt_zero_target(rec) and rec["num"] < rec["target"]:
        cstats["zero-target-skipped"] = cstats.get("zero-target-skipped", 0) + 1
        return None
    v = vlib.parse_coq_value(val)
    inf, nd, flag = v[0], v[1], v[2]
    near0 = (not rec["exact"]) and inf == 0 and abs(float(Fr(nd[0], nd[1]))) < 1e-9
    if flag != rec["flag"] and not near0:      # rounding at the threshold: validation mode only
        return "end_condition flag", rec["flag"], flag
    if inf == 1:
        return None if rec["ret"] == math.inf else ("value", rec["ret"], "inf")
    if rec["ret"] == math.inf:
        return "value", rec["ret"], str(Fr(nd[0], nd[1]))
    if not num_eq(Fr(nd[0], nd[1]), rec["ret"], rec["exact"], cstats):
        return "value", rec["ret"], str(Fr(nd[0], nd[1]))
    return None


# --------------------------------------------- _minimum_roundoff_ensemble
def gen_weights(rng):
    """dyadic weights summing to one, with some zero-weight states"""
    m = rng.choice([2, 3, 4, 5, 6])
    tot = 2 ** m
    k = rng.randint(1, min(6, tot))
    cuts = sorted(rng.sample(range(1, tot), k - 1)) if k > 1 else []
    parts = [b - a for a, b in zip([0] + cuts, cuts + [tot])]
    ws = [[q, tot] for q in parts]
    for _ in range(rng.choice([0, 0, 0, 1, 2])):
        ws.insert(rng.randrange(len(ws) + 1), [0, 1])
    return ws


def ens_impl(ws, N):
    from qutip.solver.multitraj import _InitialConditions
    ic = object.__new__(_InitialConditions)
    sl = [(("state", i), float(fr(w))) for i, w in enumerate(ws)]
    try:
        return ("ok", [int(x) for x in ic._minimum_roundoff_ensemble(sl, N)])
    except ValueError:
        return ("ValueError",)
    except IndexError:
        return ("IndexError",)


def ens_oracle(ws, N, res):
    """constraints of the docstring: total exactly N, at least one trajectory
    per positive-weight state, none for zero weight; error iff too few."""
    pos = [i for i, w in enumerate(ws) if fr(w) > 0]
    if len(pos) > N:
        return None if res == ("ValueError",) else "too few trajectories accepted"
    if res[0] != "ok":
        return "raised %s" % res[0]
    nt = res[1]
    if len(nt) != len(ws):
        return "wrong length"
    if sum(nt) != N:
        return "sum(ntraj)=%d != ntraj_total=%d" % (sum(nt), N)
    for i, w in enumerate(ws):
        if fr(w) > 0 and nt[i] < 1:
            return "state %d with positive weight gets no trajectory" % i
        if fr(w) == 0 and nt[i] != 0:
            return "zero-weight state %d gets trajectories" % i
        # never more than the first guess ceil(w N)
        if fr(w) > 0 and nt[i] > math.ceil(fr(w) * N):
            return "state %d: %d trajectories, more than ceil(w*N), w*N=%s" % (i, nt[i], fr(w) * N)
    return None


def ens_weights_oracle(ws, N):
    """get_state_and_weight: for every state, frequency * correction = weight,
    and ids are allotted to states in blocks of ntraj[i]."""
    from qutip.solver.multitraj import _InitialConditions
    pos = [(("state", i), float(fr(w))) for i, w in enumerate(ws) if fr(w) > 0]
    if len(pos) > N or not pos:
        return None
    ic = _InitialConditions(pos, N)
    if ic.ntraj_total != N:
        return "ntraj_total %r != %d" % (ic.ntraj_total, N)
    acc = {}
    seq = []
    for id_ in range(N):
        st, cw = ic.get_state_and_weight(id_)
        acc.setdefault(st, Fr(0))
        acc[st] += Fr(cw) / N
        seq.append(st)
    for (st, w), n in zip(pos, ic.ntraj):
        if abs(float(acc.get(st, 0)) - w) > 1e-12:
            return "state %r: sum of correction_weight/N = %s, weight %s" % (st, float(acc.get(st, 0)), w)
        if seq.count(st) != n:
            return "state %r used %d times, ntraj says %d" % (st, seq.count(st), n)
    if seq != sorted(seq):
        return "ids are not allotted in blocks"
    for bad_id in (-1, N):
        try:
            ic.get_state_and_weight(bad_id)
            return "id %d accepted" % bad_id
        except IndexError:
            pass
    return None


def ens_cases(ctx, rng, ncases):
    cases = []
    for _ in range(ncases):
        ws = gen_weights(rng)
        npos = sum(1 for w in ws if w[0] > 0)
        N = rng.choice([npos, npos, npos + 1, rng.randint(1, 12), rng.randint(npos, 40),
                        rng.randint(npos, 200), max(1, npos - 1)])
        cases.append((ws, N))
    return cases

# ---------------------------------------------------------------------- run
def report(ctx, found, case, name=None):
    for site, sig, what, extra in found:
        d = {"case": case, "check": sig}
        d.update(extra)
        if name:
            d["witness"] = name
        ctx.violation(site, sig, what, d)


def run(ctx):
    rng = random.Random(ctx.seed * 7919 + 15)
    ctx.cov["rule"] = (
        "case = history of new/add/add_deterministic/merge/read operations on up to 7 result "
        "objects with fake trajectories (dyadic expectation arrays, shapes 1x1..3x2, dyadic "
        "weights and mixing probabilities chosen so that every float operation is exact); "
        "the full observable state after the history is compared with the Coq model run by "
        "vm_compute; a case is non-trivial when it contains a successful merge or a read "
        "followed by an add; distinct by the history itself")
    ctx.cov["trusted_base"] += [
        "fake trajectory objects of tools/c15.py standing for qutip.solver.result.Result "
        "(attributes times, e_ops, expect, e_data, states, final_state, collapse)",
        "Model/C15.v is hand-written (flattened expectation vectors over Qc, world of result "
        "objects with a heap of stats dictionaries), mirroring the source after the repairs "
        "3ad4eea, ca7c500, b075e21, 191187a; tied to multitrajresult.py by the exact "
        "state correspondence below; the square root of std_e_data is outside the model",
        "Model/C15_nm.v (NmmcResult: trace-weighted expectation sums, the four trace sums, "
        "average_trace / std_trace cache, runs_trace, merge) and Model/C15_tt.v "
        "(_target_tolerance_end; a zero target atol + rtol*mean, where the code divides by zero, "
        "is outside the model) are hand-written and tied by exact correspondence with the real "
        "classes; trace-weighted states are the plain state model on trajectories scaled by "
        "nm_scale (checked against the real NmmcResult)",
        "Model/C15_st.v: stored states / final states (processors, on-demand recomputation in "
        "average_states / average_final_state, merge with its reads of the operands), states "
        "flattened to one vector, _to_dm the identity (kets are projected by the harness); the "
        "theorems of Props/C15_st.v assume one option set (store_states, store_final_state, "
        "keep_runs_results) per history and trajectories carrying states exactly when the options "
        "ask for them; histories mixing keep_runs_results are covered by the correspondence only",
        "Model/C15_ens.v: _minimum_roundoff_ensemble over Q (floats in the code); the final "
        "positional writes ntraj[index] = count are tied by correspondence only",
        "exact rationals stand for floats: correspondence cases are generated so that all "
        "float operations are exact; rounding is outside every theorem"]

    def search(failed, log):
        r2 = random.Random(ctx.seed + 101)
        for _ in range(400):
            case = gen_case(r2, exact=True)
            found, _ = oracle(ctx, case)
            new = [f for f in found if not is_known(ctx, f)]
            if new:
                d = {"case": case, "failed_theorems": failed}
                d.update(new[0][3])
                ctx.violation(new[0][0], new[0][1], new[0][2], d)
                return

    vlib.standard_proof_step(ctx, ["Props/C15.vo", "Props/C15_st.vo", "Props/C15_nm.vo", "Props/C15_tt.vo"],
                             ["Props/C15.v", "Props/C15_st.v", "Props/C15_nm.v", "Props/C15_tt.v"], search)

    ctx.log("proof step done")
    # 1. the former counterexamples, as regression cases
    for name, case in WITNESSES.items():
        found, I = oracle(ctx, case)
        report(ctx, found, case, name)
        ctx.count_case(("regression", name))

    # 2. correspondence + oracle on generated histories
    ncases = 160 if ctx.quick else 4000
    cases = []
    cdir = os.path.join(vlib.VERIF, "corpus", "C15")
    if os.path.isdir(cdir):
        for f in sorted(os.listdir(cdir)):
            cases.append(json.load(open(os.path.join(cdir, f))))
    cases += [dict(c) for c in WITNESSES.values()]
    while len(cases) < ncases:
        cases.append(gen_case(rng, exact=True, big=not ctx.quick and rng.random() < 0.3))
    impls = []
    dist = {"shape": {}, "ops": {}, "outcomes": {}, "cls": {}, "keep_mode": {}, "merges_ok": 0,
            "len": {}}
    for case in cases:
        found, I = oracle(ctx, case)
        report(ctx, found, case)
        impls.append(I.final)
        ks = "%dx%d" % tuple(case["shape"])
        dist["shape"][ks] = dist["shape"].get(ks, 0) + 1
        dist["cls"][case["cls"]] = dist["cls"].get(case["cls"], 0) + 1
        km = case.get("keep_mode", "w")
        dist["keep_mode"][km] = dist["keep_mode"].get(km, 0) + 1
        for op, code in zip(case["ops"], I.final["outcomes"]):
            dist["ops"][op[0]] = dist["ops"].get(op[0], 0) + 1
            dist["outcomes"][str(code)] = dist["outcomes"].get(str(code), 0) + 1
            if op[0] == "merge" and code == 0:
                dist["merges_ok"] += 1
        lb = str(10 * (len(case["ops"]) // 10))
        dist["len"][lb] = dist["len"].get(lb, 0) + 1
        nontriv = any(op[0] == "merge" and c == 0 for op, c in zip(case["ops"], I.final["outcomes"]))
        seen_read = set()
        for op in case["ops"]:
            if op[0] in ("read", "readstd"):
                seen_read.add(op[1])
            elif op[0] in ("add", "adddet") and op[1] in seen_read:
                nontriv = True
        ctx.count_case(json.dumps(case, sort_keys=True), nontrivial=nontriv)
    try:
        vals = vlib.coq_eval_values("cases_C15", HEADER, [cops(c["ops"]) for c in cases], chunk=60)
    except RuntimeError as e:
        ctx.violation("corr:C15:model-eval", "coqc", "model evaluation failed",
                      {"log": str(e)}, found_input=False)
        return
    cstats = {}
    mism = 0
    for case, im, val in zip(cases, impls, vals):
        mo = parse_model(val)
        diff = compare(case, im, mo, cstats)
        ctx.cov["traces_validated_against_impl"] += 1
        if diff is not None:
            mism += 1
            if mism <= 3:
                found, _ = oracle(ctx, case)
                new = [f for f in found if not is_known(ctx, f)]
                ctx.violation("corr:multitrajresult", new[0][1] if new else "model-differs:" + diff[0].split(".")[-1],
                              "model and implementation disagree on %s" % diff[0]
                              + ("; implementation violates: " + new[0][2] if new else ""),
                              {"case": case, "field": diff[0], "impl": diff[1], "model": diff[2]},
                              found_input=bool(new))
    ctx.cov["input_distribution"] = dist
    ctx.cov["number_comparisons"] = cstats
    ctx.sample({"case": cases[-1], "impl_final_state": json.loads(json.dumps(impls[-1], default=str))})

    ctx.log("history correspondence done (%d cases)" % len(cases))
    # 3. free-mode histories (any N, any dyadic p): oracle only, tolerance 1e-11
    #    (validation, not part of the correspondence)
    nfree = 120 if ctx.quick else 3000
    for _ in range(nfree):
        case = gen_case(rng, exact=False)
        found, I = oracle(ctx, case)
        report(ctx, found, case)
        ctx.count_case(("free", json.dumps(case, sort_keys=True)), nontrivial=False)

    # 4. metamorphic checks on the implementation
    found = meta_checks(ctx, rng, 80 if ctx.quick else 2000)
    for site, sig, what, extra in found:
        ctx.violation(site, sig, what, extra)

    # 4b. averaged states / final states (implementation-level oracle only)
    for site, sig, what, extra in states_checks(ctx, rng, 60 if ctx.quick else 1500):
        ctx.violation(site, sig, what, extra)

    ctx.log("oracles (free mode, metamorphic, states) done")
    # 4c. stored states: exact correspondence with Model/C15_st.v
    scases = [dict(c) for c in ST_CORPUS] + [st_gen_case(rng, big=not ctx.quick)
                                             for _ in range(70 if ctx.quick else 1500)]
    simpls = []
    sfound = {}
    for q, c in enumerate(scases):
        fnd, obs = st_oracle(c)
        simpls.append(obs)
        sfound[q] = fnd
        for site, sig, what, extra in fnd:
            ctx.violation(site, sig, what, extra)
    try:
        svals = vlib.coq_eval_values("cases_C15_st", ST_HEADER, [st_cops(c) for c in scases], chunk=40)
    except RuntimeError as e:
        ctx.violation("corr:C15:states-model-eval", "coqc", "states model evaluation failed",
                      {"log": str(e)}, found_input=False)
        svals = []
    sdist = {"keep_mode": {}, "opts": {}, "merges_ok": 0, "reads": 0}
    smis = 0
    for q, (case, im, val) in enumerate(zip(scases, simpls, svals)):
        diff = st_compare(im, st_parse(val), cstats)
        ctx.cov["traces_validated_against_impl"] += 1
        km = case["keep_mode"]
        sdist["keep_mode"][km] = sdist["keep_mode"].get(km, 0) + 1
        ok_ = "%s%s" % ("S" if case["ss"] else "-", "F" if case["sf"] else "-")
        sdist["opts"][ok_] = sdist["opts"].get(ok_, 0) + 1
        sdist["merges_ok"] += sum(1 for op, c in zip(case["ops"], im["outcomes"]) if op[0] == "merge" and c == 0)
        sdist["reads"] += sum(1 for op in case["ops"] if op[0] in ("rstates", "rfinal"))
        ctx.count_case(("st", json.dumps(case, sort_keys=True)),
                       nontrivial=any(op[0] in ("rstates", "rfinal", "merge") for op in case["ops"]))
        if diff is not None:
            smis += 1
            if smis <= 3:
                ctx.violation("corr:multitrajresult.states", "model-differs:" + diff[0].split(".", 1)[-1],
                              "states model and implementation disagree on %s" % diff[0],
                              {"st_case": case, "field": diff[0], "impl": diff[1], "model": str(diff[2]),
                               "kind": "stcase",
                               "implementation_violates": [f[2] for f in sfound[q]][:3]},
                              found_input=bool(sfound[q]))
    dist["states_corr"] = sdist

    ctx.log("states correspondence done")
    # 4d. NmmcResult: exact correspondence with Model/C15_nm.v + fraction oracle
    ncases_ = [nm_gen_case(rng, big=not ctx.quick) for _ in range(60 if ctx.quick else 1500)]
    nimpls = [NmImpl(c).run() for c in ncases_]
    try:
        nvals = vlib.coq_eval_values("cases_C15_nm", NM_HEADER, [nm_cops(c) for c in ncases_], chunk=40)
    except RuntimeError as e:
        ctx.violation("corr:C15:nmmc-model-eval", "coqc", "NmmcResult model evaluation failed",
                      {"log": str(e)}, found_input=False)
        nvals = []
    nmis = 0
    for case, im, val in zip(ncases_, nimpls, nvals):
        for site, sig, what, extra in nm_oracle(case, im):
            ctx.violation(site, sig, what, extra)
        diff = nm_compare(im, nm_parse(val), cstats)
        ctx.cov["traces_validated_against_impl"] += 1
        ctx.count_case(("nm", json.dumps(case, sort_keys=True)),
                       nontrivial=any(op[0] in ("merge", "rtrace") for op in case["ops"]))
        if diff is not None:
            nmis += 1
            if nmis <= 3:
                ctx.violation("corr:NmmcResult", "model-differs:" + diff[0].split(".", 1)[-1],
                              "NmmcResult model and implementation disagree on %s" % diff[0],
                              {"nm_case": case, "field": diff[0], "impl": diff[1], "model": str(diff[2]),
                               "kind": "nm"}, found_input=False)
    dist["nmmc_corr"] = {"cases": len(ncases_),
                         "merges_ok": sum(1 for c, im in zip(ncases_, nimpls)
                                          for op, code in zip(c["ops"], im["outcomes"])
                                          if op[0] == "merge" and code == 0)}
    ctx.log("NmmcResult correspondence done")

    # 4e. _target_tolerance_end: correspondence with Model/C15_tt.v + criterion oracle
    trecs, tfound = tt_run(ctx, rng, 40 if ctx.quick else 800)
    for site, sig, what, extra in tfound:
        extra["kind"] = "tt"
        ctx.violation(site, sig, what, extra)
    try:
        tvals = vlib.coq_eval_values("cases_C15_tt", TT_HEADER, [tt_expr(r) for r in trecs], chunk=150)
    except RuntimeError as e:
        ctx.violation("corr:C15:tolerance-model-eval", "coqc", "tolerance model evaluation failed",
                      {"log": str(e)}, found_input=False)
        tvals = []
    tmis = 0
    tdist = {}
    for rec, val in zip(trecs, tvals):
        key = "%d/%s" % (rec["flag"], "inf" if rec["ret"] == math.inf else ("<=0" if rec["ret"] <= 0 else ">0"))
        tdist[key] = tdist.get(key, 0) + 1
        diff = tt_compare(rec, val, cstats)
        ctx.cov["traces_validated_against_impl"] += 1
        if diff is not None:
            tmis += 1
            if tmis <= 3:
                ctx.violation("corr:" + SITE_TT, "model-differs:" + diff[0],
                              "tolerance model and implementation disagree on %s" % diff[0],
                              {"rec_case": _ttj(rec), "impl": diff[1], "model": str(diff[2]), "kind": "tt"},
                              found_input=False)
    dist["tolerance_corr"] = tdist

    # 5. _minimum_roundoff_ensemble: model correspondence + specification oracle
    ecases = ens_cases(ctx, rng, 150 if ctx.quick else 5000)
    hdr = ("From Coq Require Import List ZArith.\nImport ListNotations.\n"
           "From QV Require Import Model.C15_ens.\nOpen Scope Z_scope.\n")
    exprs = ["ens_observe %s %s" % (clist(ws, lambda v: "(%s, %s)" % (cz(v[0]), cz(v[1]))), cz(N))
             for ws, N in ecases]
    try:
        evals = vlib.coq_eval_values("cases_C15_ens", hdr, exprs, chunk=200)
    except RuntimeError as e:
        ctx.violation("corr:C15:ens-model-eval", "coqc", "ensemble model evaluation failed",
                      {"log": str(e)}, found_input=False)
        evals = None
    edist = {"ok": 0, "ValueError": 0, "IndexError": 0}
    for q, (ws, N) in enumerate(ecases):
        res = ens_impl(ws, N)
        edist[res[0]] = edist.get(res[0], 0) + 1
        ctx.count_case(("ens", json.dumps(ws), N), nontrivial=len(ws) >= 2 and res[0] == "ok")
        msg = ens_oracle(ws, N, res)
        if msg is None and res[0] == "ok":
            msg = ens_weights_oracle(ws, N)
        if msg:
            ctx.violation(SITE_ENS, msg.split(":")[0].split("=")[0][:40], msg,
                          {"weights": ws, "ntraj_total": N, "result": res, "kind": "ens"})
        if evals is not None:
            code, lst = vlib.parse_coq_value(evals[q])
            model = {0: ("ok", list(lst)), 2: ("ValueError",), 5: ("IndexError",)}.get(code, ("fuel",))
            ctx.cov["traces_validated_against_impl"] += 1
            if model != res:
                ctx.violation("corr:" + SITE_ENS, "model-differs" if not msg else msg.split(":")[0][:40],
                              "ensemble model and implementation disagree",
                              {"weights": ws, "ntraj_total": N, "impl": res, "model": model,
                               "kind": "ens"}, found_input=bool(msg))
    dist["ensemble"] = edist

    ctx.cov["explanation"] = (
        "Theorems (Props/C15.v) hold for every history of the model; the model is tied to "
        "multitrajresult.py by exact equality of the whole observable state (running sums, "
        "weights, seeds, collapses, kept trajectories, caches, reported weights, fresh average "
        "and variance, stats dictionaries, raised errors) on generated histories.  The oracle "
        "recomputes the weighted statistics with fractions from the list of trajectories added "
        "and always runs; free-mode histories and associativity use a 1e-11 tolerance and are "
        "validation only.  average_states / average_final_state: theorems of Props/C15_st.v over "
        "Model/C15_st.v, tied by exact comparison of the state sums, kept trajectories and both "
        "averages after generated histories (all option sets, mixed keep_runs_results, kets and "
        "density matrices), plus the independent read-add-read / merge oracle.  Commutativity and "
        "associativity for arbitrary p are proved on the model and checked on the implementation "
        "with a 1e-10 tolerance (validation).  NmmcResult (Props/C15_nm.v) and "
        "_target_tolerance_end (Props/C15_tt.v) are tied by exact comparison of all running sums, "
        "caches, runs_trace, returned estimates and end_condition flags with the real classes, plus "
        "fraction oracles (trace-weighted mean; tolerance criterion for every component when the end "
        "is signalled).  "
        "_minimum_roundoff_ensemble: model (Model/C15_ens.v) compared exactly with the "
        "implementation on dyadic weight lists, plus the docstring constraints and "
        "get_state_and_weight (frequency * correction = weight) as oracle.")


def is_known(ctx, f):
    for k in ctx.known_findings:
        if (k.get("status") == "known" and k.get("property") == ctx.pid
                and k["match"].get("site") == f[0] and k["match"].get("signature") == f[1]):
            return True
    return False


def replay(ctx, payload):
    d = payload["detail"]
    if d.get("kind") == "ens":
        res = ens_impl(d["weights"], d["ntraj_total"])
        msg = ens_oracle(d["weights"], d["ntraj_total"], res)
        if msg is None and res[0] == "ok":
            msg = ens_weights_oracle(d["weights"], d["ntraj_total"])
        if msg:
            ctx.violation(payload["site"], payload["signature"], msg, d)
        return
    if d.get("kind") == "nm" and "nm_case" in d:
        for site, sig, what, extra in nm_oracle(d["nm_case"], NmImpl(d["nm_case"]).run()):
            if site == payload["site"] and sig == payload["signature"]:
                ctx.violation(site, sig, what, extra)
                return
        return
    if d.get("kind") == "stcase" and "st_case" in d:
        fnd, _ = st_oracle(d["st_case"])
        for site, sig, what, extra in fnd:
            if site == payload["site"] and sig == payload["signature"]:
                ctx.violation(site, sig, what, extra)
                return
        for site, sig, what, extra in fnd[:1]:
            ctx.violation(site, sig, what, extra)
        return
    if d.get("kind") == "states":
        for site, sig, what, extra in states_scenario(d["scenario"]):
            if site == payload["site"] and sig == payload["signature"]:
                ctx.violation(site, sig, what, extra)
                return
        return
    if "case" not in d:
        ctx.log("replay file has no case")
        return
    found, _ = oracle(ctx, d["case"])
    for site, sig, what, extra in found:
        if site == payload["site"] and sig == payload["signature"]:
            e = {"case": d["case"]}
            e.update(extra)
            ctx.violation(site, sig, what, e)
            return
    for site, sig, what, extra in found[:1]:
        e = {"case": d["case"]}
        e.update(extra)
        ctx.violation(site, sig, what, e)
