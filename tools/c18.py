"""C18 - every steady-state method returns a normalised fixed point.

Proof step: coq/Props/C18.v (algebra of the modified system, permutations,
null-vector normalisation for every phase, pseudo-inverse relations, HEOM row
replacement, power-loop counter).

Tie (K): the real steadystate() / pseudo_inverse() / HEOMSolver.steady_state()
run with *scripted numerical kernels* (`_data.solve`, `_data.svd`,
`Qobj.eigenstates`, scipy's reverse_cuthill_mckee / maximum_bipartite_matching,
`spsolve` of the HEOM module are replaced by fakes that record their arguments
and return chosen Gaussian-integer answers).  What the kernels are handed and
what is made of their answer is compared EXACTLY with the executable model
coq/Model/C18.v evaluated by vm_compute on the same inputs.

Oracle (always run): the property itself on real qutip objects - all
methods x solvers x reordering options x storage formats on random exact
generators with a unique stationary state, against an exact rational
reference (Gaussian elimination over Q(i)); tolerance comparisons are
labelled validation.
"""
import itertools
import json
import os
import random
import warnings
from fractions import Fraction

import numpy as np

import vlib
import tx_c18_bookkeeping

HEADER = ("From mathcomp Require Import all_ssreflect.\n"
          "From Coq Require Import ZArith.\n"
          "From QV Require Import Model.C18.\n")


# ----------------------------------------------------------------- Coq literals
def gz(z):
    z = complex(z)
    return "(%s, %s)" % (vlib.cz(int(round(z.real))), vlib.cz(int(round(z.imag))))


def cseq(xs, f=str):
    xs = list(xs)
    return "[:: " + "; ".join(f(x) for x in xs) + "]" if xs else "[::]"


def gzmat(M):
    return cseq(M, lambda row: cseq(row, gz))


def gzvec(v):
    return cseq(v, gz)


def cnatseq(p):
    return cseq(p, lambda k: "%d%%nat" % int(k))


def copt_perm(p):
    return "None" if p is None else "(Some %s)" % cnatseq(p)


def pz(v):
    """parsed Coq GZ -> python complex"""
    return complex(v[0], v[1])


def pmat(v):
    return np.array([[pz(e) for e in row] for row in v], dtype=complex)


def is_int_array(a):
    a = np.asarray(a, dtype=complex)
    return bool(np.all(a.real == np.round(a.real)) and np.all(a.imag == np.round(a.imag)))


# ------------------------------------------------------------ exact reference
class CF:
    """element of Q(i)"""
    __slots__ = ("a", "b")

    def __init__(self, a, b=0):
        self.a = Fraction(a)
        self.b = Fraction(b)

    def __add__(s, o):
        return CF(s.a + o.a, s.b + o.b)

    def __sub__(s, o):
        return CF(s.a - o.a, s.b - o.b)

    def __mul__(s, o):
        return CF(s.a * o.a - s.b * o.b, s.a * o.b + s.b * o.a)

    def inv(s):
        d = s.a * s.a + s.b * s.b
        return CF(s.a / d, -s.b / d)

    def iszero(s):
        return s.a == 0 and s.b == 0

    def __complex__(s):
        return complex(float(s.a), float(s.b))


def exact_null(Lint):
    """Lint: N x N numpy array of Gaussian integers.  Returns (nullity, v)
    with v a null vector (list of CF) when nullity == 1."""
    N = Lint.shape[0]
    M = [[CF(int(round(z.real)), int(round(z.imag))) for z in row] for row in Lint]
    piv_cols = []
    r = 0
    for c in range(N):
        p = None
        for i in range(r, N):
            if not M[i][c].iszero():
                p = i
                break
        if p is None:
            continue
        M[r], M[p] = M[p], M[r]
        iv = M[r][c].inv()
        M[r] = [x * iv for x in M[r]]
        for i in range(N):
            if i != r and not M[i][c].iszero():
                f = M[i][c]
                M[i] = [x - f * y for x, y in zip(M[i], M[r])]
        piv_cols.append(c)
        r += 1
        if r == N:
            break
    nullity = N - r
    if nullity != 1:
        return nullity, None
    free = [c for c in range(N) if c not in piv_cols][0]
    v = [CF(0) for _ in range(N)]
    v[free] = CF(1)
    for i, c in enumerate(piv_cols):
        v[c] = CF(0) - M[i][free]
    return 1, v


def exact_steady(L2):
    """L2 = 2*L (Gaussian integers).  Returns exact rho (n x n complex float
    array built from exact fractions) or None when not unique / traceless."""
    N = L2.shape[0]
    n = int(round(N ** 0.5))
    nullity, v = exact_null(L2)
    if nullity != 1:
        return None
    tr = CF(0)
    for k in range(n):
        tr = tr + v[k * n + k]
    if tr.iszero():
        return None
    it = tr.inv()
    v = [x * it for x in v]
    rho = np.zeros((n, n), dtype=complex)
    for j in range(n):
        for i in range(n):
            rho[i, j] = complex(v[j * n + i])
    return rho


# ------------------------------------------------------------------ generators
def half_int_herm(rng, n, amp=3):
    A = np.array([[complex(rng.randint(-amp, amp), rng.randint(-amp, amp))
                   for _ in range(n)] for _ in range(n)])
    return A + A.conj().T          # = 2*H with H half-integer Hermitian


def half_int_mat(rng, n, amp=2, dens=0.7):
    return np.array([[complex(rng.randint(-amp, amp), rng.randint(-amp, amp))
                      if rng.random() < dens else 0j
                      for _ in range(n)] for _ in range(n)])


def gen_system(rng, kind, dims, permute=None):
    """returns dict with H2 (=2H), C2 (list of 2*c) as integer arrays"""
    n = int(np.prod(dims))
    if kind == "generic":
        H2 = half_int_herm(rng, n)
        C2 = [half_int_mat(rng, n) for _ in range(rng.randint(1, 3))]
    elif kind == "zero_first":
        # level 0 is emptied and never refilled: rho_ss[0,0] = 0
        H2 = np.zeros((n, n), complex)
        H2[1:, 1:] = half_int_herm(rng, n - 1)
        C2 = []
        c = np.zeros((n, n), complex)
        c[rng.randint(1, n - 1), 0] = 2
        C2.append(c)
        for _ in range(2):
            c = np.zeros((n, n), complex)
            c[1:, 1:] = half_int_mat(rng, n - 1, dens=0.9)
            C2.append(c)
    elif kind == "rates":
        # classical rate equations, real generator
        H2 = np.zeros((n, n), complex)
        C2 = []
        for i in range(n):
            for j in range(n):
                if i != j and rng.random() < 0.7:
                    c = np.zeros((n, n), complex)
                    c[i, j] = 2 * rng.randint(1, 2)
                    C2.append(c)
        C2.append(2 * np.diag([complex(k) for k in range(n)]))   # dephasing
    elif kind == "ladder":
        a = np.diag([complex(2 * k) for k in range(1, n)], 1)    # 2*sqrt-free ladder
        H2 = (a + a.conj().T) * rng.randint(1, 2) + 2 * np.diag(
            [complex(k * rng.randint(0, 2)) for k in range(n)])
        C2 = [a]
    elif kind == "pump_top":
        # pumped to the top level: rho_ss = |n-1><n-1|, first population zero
        H2 = 2 * np.diag([complex(rng.randint(-2, 2)) for _ in range(n)])
        C2 = [np.diag([complex(2)] * (n - 1), -1)]
    elif kind == "sparse_ladder":
        # zero-temperature ladder (up or down, optional two-level skips): the
        # absorbing state is an end of the chain; the basis permutation below
        # puts it at an arbitrary position.  Many structurally zero entries.
        H2 = 2 * np.diag([complex(rng.randint(-2, 2)) for _ in range(n)]) \
            if rng.random() < 0.6 else np.zeros((n, n), complex)
        c = np.zeros((n, n), complex)
        up = rng.random() < 0.5
        for k in range(n - 1):
            a, b = (k + 1, k) if up else (k, k + 1)
            c[a, b] = 2 * rng.randint(1, 2)
        C2 = [c]
        if n >= 3 and rng.random() < 0.4:
            c2 = np.zeros((n, n), complex)
            k = rng.randint(0, n - 3)
            a, b = (k + 2, k) if up else (k, k + 2)
            c2[a, b] = 2
            C2.append(c2)
    elif kind == "sparse_block":
        # a chain feeding a block with coherent dynamics; nothing flows back
        m = max(2, n - rng.randint(1, max(1, n - 2)))      # block size
        m = min(m, n - 1)
        H2 = np.zeros((n, n), complex)
        H2[n - m:, n - m:] = half_int_herm(rng, m)
        C2 = []
        for k in range(n - m):
            c = np.zeros((n, n), complex)
            c[k + 1 if k + 1 < n - m or rng.random() < 0.5 else rng.randint(n - m, n - 1), k] = 2
            C2.append(c)
        c = np.zeros((n, n), complex)
        c[n - m:, n - m:] = half_int_mat(rng, m, dens=0.9)
        C2.append(c)
    elif kind == "sparse_tensor":
        # tensor product of two structurally sparse (or one generic) factors
        assert len(dims) == 2
        parts = []
        for d in dims:
            sub_kind = rng.choice(["sparse_ladder", "sparse_ladder", "rates"]) if d > 2 \
                else rng.choice(["sparse_ladder", "sparse_ladder", "generic"])
            ps = gen_system(rng, sub_kind, [d], permute=True)
            Hs = np.array([[complex(a, b) for a, b in row] for row in ps["H2"]])
            Cs = [np.array([[complex(a, b) for a, b in row] for row in c]) for c in ps["C2"]]
            parts.append((Hs, Cs))
        (H1, C1), (Hb, Cb) = parts
        I1, Ib = np.eye(dims[0]), np.eye(dims[1])
        H2 = np.kron(H1, Ib) + np.kron(I1, Hb)
        C2 = [np.kron(c, Ib) for c in C1] + [np.kron(I1, c) for c in Cb]
    else:
        raise ValueError(kind)
    if permute or (permute is None and (kind.startswith("sparse_l") or kind.startswith("sparse_b")
                                        or rng.random() < 0.25)):
        if len(dims) == 1:
            pi = list(range(n))
            rng.shuffle(pi)
            P = np.zeros((n, n))
            for k in range(n):
                P[pi[k], k] = 1
            H2 = P @ H2 @ P.T
            C2 = [P @ c @ P.T for c in C2]
    return {"kind": kind, "dims": list(dims),
            "H2": [[[int(round(z.real)), int(round(z.imag))] for z in row] for row in H2],
            "C2": [[[[int(round(z.real)), int(round(z.imag))] for z in row] for row in c] for c in C2]}


def sys_arrays(s):
    H = np.array([[complex(a, b) for a, b in row] for row in s["H2"]]) / 2
    C = [np.array([[complex(a, b) for a, b in row] for row in c]) / 2 for c in s["C2"]]
    return H, C


def sys_qobjs(s, fmt="csr"):
    import qutip as qt
    H, C = sys_arrays(s)
    d = s["dims"]
    Hq = qt.Qobj(H, dims=[d, d]).to(fmt)
    Cq = [qt.Qobj(c, dims=[d, d]).to(fmt) for c in C]
    return Hq, Cq


def exact_rho(s):
    """exact stationary state of a generated system (entries of H, c are
    half-integers, so 8*L is a Gaussian-integer matrix); None if not unique"""
    H, C = sys_arrays(s)
    L8 = 8 * liouvillian_np(H, C)
    assert is_int_array(L8)
    return exact_steady(np.round(L8))


def liouvillian_np(H, C):
    """independent formula (row-major kron, column stacking):
    vec(A X B) = (B^T kron A) vec X"""
    n = H.shape[0]
    I = np.eye(n)
    L = -1j * (np.kron(I, H) - np.kron(H.T, I))
    for c in C:
        cd = c.conj().T @ c
        L = L + np.kron(c.conj(), c) - 0.5 * np.kron(I, cd) - 0.5 * np.kron(cd.T, I)
    return L


# -------------------------------------------------------------------- patching
class Patch:
    def __init__(self, *triples):
        self.triples = triples
        self.saved = []

    def __enter__(self):
        try:
            for obj, name, val in self.triples:
                self.saved.append((obj, name, getattr(obj, name)))
                setattr(obj, name, val)
        except Exception:
            self.__exit__()
            raise
        return self

    def __exit__(self, *a):
        for obj, name, val in reversed(self.saved):
            setattr(obj, name, val)
        self.saved = []
        return False


def rand_gz_vec(rng, N, amp=4):
    return np.array([complex(rng.randint(-amp, amp), rng.randint(-amp, amp))
                     for _ in range(N)])


def rand_perm(rng, N):
    p = list(range(N))
    rng.shuffle(p)
    return p


# ----------------------------------------------------- correspondence: direct
def impl_direct(case):
    import qutip as qt
    import qutip.core.data as _data
    import scipy.sparse.csgraph as csg
    d = case["dims"]
    N = int(np.prod(d)) ** 2
    L = np.array([[complex(a, b) for a, b in row] for row in case["L"]])
    A = qt.Qobj(L, dims=[[d, d], [d, d]]).to(case["fmt"])
    xp = np.array([complex(a, b) for a, b in case["xp"]])
    rec = {"rcm": False, "wbm": False, "solve_calls": 0}

    def fake_solve(Lm, b, method=None, options={}):
        rec["solve_calls"] += 1
        rec["L"] = np.array(Lm.to_array())
        rec["b"] = np.array(b.to_array()).reshape(-1)
        rec["Ltype"] = type(Lm).__name__
        rec["method"] = method
        rec["options"] = sorted(options.keys())
        return _data.Dense(xp.reshape(-1, 1).copy())

    def fake_rcm(M, *a, **k):
        rec["rcm"] = True
        return np.array(case["rcm_order"], dtype=np.int32)

    def fake_wbm(M, *a, **k):
        rec["wbm"] = True
        return np.array(case["wbm_match"], dtype=np.int32)

    kw = dict(case["kw"])
    with Patch((_data, "solve", fake_solve),
               (csg, "reverse_cuthill_mckee", fake_rcm),
               (csg, "maximum_bipartite_matching", fake_wbm)), \
            warnings.catch_warnings():
        warnings.simplefilter("ignore")
        out = qt.steadystate(A, method=case.get("method", "direct"),
                             solver=case["solver"], **kw)
    rec["out2"] = out.full() * 2
    rec["dims"] = out.dims
    rec["isherm_flag"] = out._isherm
    return rec


def gen_direct_case(rng, quick):
    dims = rng.choice([[2], [2], [3], [3], [2, 2]] if not quick else [[2], [2], [3]])
    n = int(np.prod(dims))
    N = n * n
    if rng.random() < 0.6:
        s = gen_system(rng, rng.choice(["generic", "zero_first" if n > 2 else "generic", "rates"]), dims)
        H, C = sys_arrays(s)
        # any integer matrix will do for the data flow; keep the structure
        L = np.round(2 * liouvillian_np(2 * H, [2 * c for c in C]))
    else:
        L = np.array([[complex(rng.randint(-3, 3), rng.randint(-3, 3))
                       if rng.random() < 0.5 else 0j for _ in range(N)] for _ in range(N)])
    if rng.random() < 0.25:
        L[:, 0] = 0          # zero first column
    solver = rng.choice([None, None, "solve", "spsolve", "lstsq", "gmres"])
    fmt = rng.choice(["csr", "csr", "dense", "dia"])
    kw = {"weight": rng.choice([1, 2, 3, 5, 8, -4])}
    if rng.random() < 0.6:
        kw["use_rcm"] = True
    if rng.random() < 0.5:
        kw["use_wbm"] = True
    if rng.random() < 0.2:
        kw["sparse"] = rng.random() < 0.5
    return {"dims": dims, "L": [[[int(z.real), int(z.imag)] for z in row] for row in L],
            "fmt": fmt, "solver": solver, "kw": kw,
            "rcm_order": rand_perm(rng, N), "wbm_match": rand_perm(rng, N),
            "xp": [[int(z.real), int(z.imag)] for z in rand_gz_vec(rng, N)],
            "method": rng.choice(["direct", "direct", "direct", "iterative"])}


def direct_expr(case, rec):
    n = int(np.prod(case["dims"]))
    L = [[complex(a, b) for a, b in row] for row in case["L"]]
    xp = [complex(a, b) for a, b in case["xp"]]
    wbm = case["wbm_match"] if rec["wbm"] else None
    rcm = case["rcm_order"] if rec["rcm"] else None
    return ("let '(L3, b3, p) := gz_direct_system %d%%nat %s %s %s %s in "
            "(L3, b3, gz_direct_post2 %d%%nat %s p)" % (
                n, gz(case["kw"]["weight"]), gzmat(L), copt_perm(wbm),
                copt_perm(rcm), n, gzvec(xp)))


# ------------------------------------------- correspondence: eigen / svd / power
def nice_divisor(rng):
    return rng.choice([1, -1, 2, -2, 4, 1j, -1j, 2j, 1 + 1j, 1 - 1j, -1 + 1j, 2 + 2j, -2j])


def gen_null_case(rng, method):
    dims = rng.choice([[2], [3], [2, 2]] if method != "power" else [[2], [3]])
    n = int(np.prod(dims))
    N = n * n
    V = np.array([[complex(rng.randint(-4, 4), rng.randint(-4, 4)) for _ in range(n)]
                  for _ in range(n)])
    cur = np.trace(V) - V[n - 1, n - 1]
    if method == "eigen":
        t = nice_divisor(rng)
    elif method == "svd":
        t = nice_divisor(rng)
    else:
        t = complex(rng.choice([1, -1, 2, -2, 4]), rng.randint(-3, 3))
    V[n - 1, n - 1] = t - cur
    case = {"dims": dims, "method": method,
            "v": [[int(z.real), int(z.imag)] for z in V.reshape(-1, order="F")]}
    if method == "svd":
        # the whole vh the scripted svd returns: random rows, the last one is conj(v)
        vh = [[[rng.randint(-3, 3), rng.randint(-3, 3)] for _ in range(N)] for _ in range(N - 1)]
        vh.append([[int(z.real), -int(z.imag)] for z in V.reshape(-1, order="F")])
        case["vh"] = vh
    if method == "eigen":
        # dense-fallback decision: what the sparse / dense eigensolver return
        case["sparse"] = rng.random() < 0.7
        case["big"] = rng.random() < 0.5
        W = np.array([[complex(rng.randint(-4, 4), rng.randint(-4, 4)) for _ in range(n)]
                      for _ in range(n)])
        W[n - 1, n - 1] = nice_divisor(rng) - (np.trace(W) - W[n - 1, n - 1])
        case["v_other"] = [[int(z.real), int(z.imag)] for z in W.reshape(-1, order="F")]
    if method == "power":
        # largest modulus entry must be exactly representable: put 16 or 16i
        # on an off-diagonal element (does not change the trace)
        big = rng.choice([16, -16, 16j, -16j])
        i, j = rng.choice([(0, 1), (1, 0)])
        V[i, j] = big
        v = V.reshape(-1, order="F")
        case["v"] = [[int(z.real), int(z.imag)] for z in v]
        # generator with v as null vector: L = B (c I - v u^T), c = u^T v
        B = np.array([[complex(rng.randint(-2, 2), rng.randint(-2, 2)) for _ in range(N)]
                      for _ in range(N)])
        u = rand_gz_vec(rng, N, 2)
        c = u @ v
        L = B @ (c * np.eye(N) - np.outer(v, u))
        case["L"] = [[[int(round(z.real)), int(round(z.imag))] for z in row] for row in L]
        case["k"] = rng.choice([1, 1, 2, 3])
        case["maxiter"] = rng.choice([1, 2, 3, 4, 10])
        case["use_rcm"] = rng.random() < 0.5
        case["rcm_order"] = rand_perm(rng, N)
        case["solver"] = rng.choice([None, "solve", "spsolve"])
        case["junk"] = [[int(z.real), int(z.imag)] for z in rand_gz_vec(rng, N, 3)]
    else:
        case["L"] = [[[rng.randint(-2, 2), rng.randint(-2, 2)] for _ in range(N)]
                     for _ in range(N)]
    return case


def impl_null(case):
    import qutip as qt
    import qutip.core.data as _data
    import scipy.sparse.csgraph as csg
    d = case["dims"]
    n = int(np.prod(d))
    N = n * n
    L = np.array([[complex(a, b) for a, b in row] for row in case["L"]])
    v = np.array([complex(a, b) for a, b in case["v"]])
    A = qt.Qobj(L, dims=[[d, d], [d, d]])
    rec = {}
    if case["method"] == "svd":
        def fake_svd(data, vecs=True, **kw):
            vh = np.array([[complex(a, b) for a, b in row] for row in case["vh"]])
            return _data.Dense(np.eye(N, dtype=complex)), np.ones(N), _data.Dense(vh)
        with Patch((_data, "svd", fake_svd)):
            out = qt.steadystate(A, method="svd")
    elif case["method"] == "eigen":
        # v is what the solver that ends up being used returns, v_other the other one
        v_other = np.array([complex(a, b) for a, b in case["v_other"]])
        use_sparse = case["sparse"] and not case["big"]
        rec["eig_calls"] = []
        LdL_max = float(np.abs(L.conj().T @ L).max())

        def fake_eig(self, *a, **kw):
            sp_ = bool(kw.get("sparse", False))
            rec["eig_calls"].append(sp_)
            rec["eig_kw"] = sorted(kw.keys())
            vec = (v if use_sparse else v_other) if sp_ else (v_other if use_sparse else v)
            # the first answer fails the smallness test when case["big"], whichever
            # solver gave it: only a sparse answer may trigger the fallback
            val = 1.0 * max(LdL_max, 1.0) if (case["big"] and len(rec["eig_calls"]) == 1) else 0.0
            ket = qt.operator_to_vector(qt.Qobj(vec.reshape((n, n), order="F"), dims=[d, d]))
            return np.array([val]), np.array([ket], dtype=object)
        with Patch((qt.Qobj, "eigenstates", fake_eig)):
            out = qt.steadystate(A, method="eigen", sparse=case["sparse"])
    else:
        junk = np.array([complex(a, b) for a, b in case["junk"]])
        calls = {"n": 0, "rcm": False}
        perm_holder = {}

        def fake_rcm(M, *a, **k):
            calls["rcm"] = True
            return np.array(case["rcm_order"], dtype=np.int32)

        def fake_solve(Lm, b, method=None, options={}):
            calls["n"] += 1
            y = v if calls["n"] >= case["k"] else junk
            if calls["rcm"]:
                # the solver works in permuted coordinates: hand back the
                # permuted vector, as a real solver would
                r = case["rcm_order"]
                perm = [r.index(k) for k in range(N)]
                yp = np.zeros(N, complex)
                for i in range(N):
                    yp[perm[i]] = y[i]
                y = yp
            return _data.Dense(y.reshape(-1, 1).copy())
        kw = {"power_maxiter": case["maxiter"]}
        if case["use_rcm"]:
            kw["use_rcm"] = True
        try:
            with Patch((_data, "solve", fake_solve),
                       (csg, "reverse_cuthill_mckee", fake_rcm)), warnings.catch_warnings():
                warnings.simplefilter("ignore")
                out = qt.steadystate(A, method="power", solver=case["solver"], **kw)
        except Exception as e:
            if "Failed to find steady state" not in str(e):
                raise
            out = None
        rec["solves"] = calls["n"]
        rec["conv0"] = bool(np.max(np.abs(L @ np.ones(N))) <= 1e-12)
    if out is None:
        rec["raised"] = True
        return rec
    rec["raised"] = False
    rec["out"] = out.full()
    rec["dims"] = out.dims
    return rec


def null_expr(case):
    n = int(np.prod(case["dims"]))
    v = [complex(a, b) for a, b in case["v"]]
    if case["method"] == "svd":
        vh = [[complex(a, b) for a, b in row] for row in case["vh"]]
        return "gz_svd_route %d%%nat %s" % (n, gzmat(vh))
    if case["method"] == "eigen":
        vo = [complex(a, b) for a, b in case["v_other"]]
        use_sparse = case["sparse"] and not case["big"]
        vs, vd = (v, vo) if use_sparse else (vo, v)
        return ("(eigen_calls %s %s, gz_eigen_post %d%%nat (eigen_pick %s %s %s %s))"
                % (vlib.cbool(case["sparse"]), vlib.cbool(case["big"]), n,
                   vlib.cbool(case["sparse"]), vlib.cbool(case["big"]), gzvec(vs), gzvec(vd)))
    f = {"eigen": "gz_eigen_post", "svd": "gz_svd_post", "power": "gz_power_post"}[case["method"]]
    return "%s %d%%nat %s" % (f, n, gzvec(v))


def exact_div(Vp, dp):
    """Vp complex int array, dp complex int: V/d as exact fractions -> floats
    (exact when representable); returns None when d == 0"""
    if dp == 0:
        return None
    d = CF(int(dp.real), int(dp.imag)).inv()
    out = np.zeros(Vp.shape, complex)
    exact = True
    for idx in np.ndindex(Vp.shape):
        z = CF(int(Vp[idx].real), int(Vp[idx].imag)) * d
        out[idx] = complex(z)
        if Fraction(out[idx].real) != z.a or Fraction(out[idx].imag) != z.b:
            exact = False
    return out, exact


# ----------------------------------------------------- correspondence: pinv
def gen_pinv_case(rng):
    dims = rng.choice([[2], [2], [3]])
    n = int(np.prod(dims))
    N = n * n
    return {"dims": dims,
            "L": [[[rng.randint(-2, 2), rng.randint(-2, 2)] for _ in range(N)] for _ in range(N)],
            "rho": [[[rng.randint(-3, 3), rng.randint(-3, 3)] for _ in range(n)] for _ in range(n)],
            "LIQ": [[[rng.randint(-3, 3), rng.randint(-3, 3)] for _ in range(N)] for _ in range(N)],
            "method": rng.choice(["splu", "solve", "lstsq"]),
            "w": rng.choice([None, 0.5]),
            "use_rcm": rng.random() < 0.5, "rcm_order": rand_perm(rng, N)}


def impl_pinv(case):
    import qutip as qt
    import qutip.core.data as _data
    d = case["dims"]
    L = np.array([[complex(a, b) for a, b in row] for row in case["L"]])
    rho = np.array([[complex(a, b) for a, b in row] for row in case["rho"]])
    LIQ = np.array([[complex(a, b) for a, b in row] for row in case["LIQ"]])
    A = qt.Qobj(L, dims=[[d, d], [d, d]])
    rec = {}

    import scipy.sparse.csgraph as csg
    rec["rcm"] = False

    def fake_solve(Lm, b, method=None, options={}):
        rec["A"] = np.array(Lm.to_array())
        rec["Q"] = np.array(b.to_array())
        rec["method"] = method
        return _data.Dense(LIQ.copy())

    def fake_rcm(M, *a, **k):
        rec["rcm"] = True
        return np.array(case["rcm_order"], dtype=np.int32)
    with Patch((_data, "solve", fake_solve), (csg, "reverse_cuthill_mckee", fake_rcm)), \
            warnings.catch_warnings():
        warnings.simplefilter("ignore")
        R = qt.pseudo_inverse(A, qt.Qobj(rho, dims=[d, d]), w=case["w"], method=case["method"],
                              use_rcm=bool(case.get("use_rcm")))
    rec["R"] = R.full()
    rec["dims"] = R.dims
    return rec


def pinv_expr(case, rec=None):
    n = int(np.prod(case["dims"]))
    f = lambda M: gzmat([[complex(a, b) for a, b in row] for row in M])
    if rec is not None and rec.get("rcm"):
        return "gz_pinv_rcm_R %d%%nat %s %s %s" % (n, cnatseq(case["rcm_order"]),
                                                  f(case["rho"]), f(case["LIQ"]))
    return "gz_pinv_R %d%%nat %s %s" % (n, f(case["rho"]), f(case["LIQ"]))


# --------------------------------------------- correspondence: propagator loop
def gen_expm_case(rng):
    n = rng.choice([2, 3])
    perm = rand_perm(rng, n)
    rho = np.array([[complex(rng.randint(-3, 3), rng.randint(-3, 3)) for _ in range(n)]
                    for _ in range(n)])
    rho = rho + rho.conj().T
    t = rng.choice([1, 2, 4, -2])
    rho[n - 1, n - 1] += t - np.trace(rho)
    return {"n": n, "perm": perm, "rho": [[[int(z.real), int(z.imag)] for z in row] for row in rho],
            "kconv": rng.choice([0, 1, 2, 3, 5]), "max_iter": rng.choice([1, 2, 3, 4, 6]),
            "phases": [rng.choice([[1, 0], [-1, 0], [0, 1], [0, -1]]) for _ in range(n)]}


def expm_P(case):
    n = case["n"]
    S = np.zeros((n, n), complex)
    for k in range(n):
        S[case["perm"][k], k] = complex(*case["phases"][k])
    return np.kron(S.conj(), S)          # vec(S rho S^dag), column stacking


def impl_expm(case):
    import sys
    import qutip as qt
    ssm = sys.modules["qutip.solver.steadystate"]
    n = case["n"]
    P = expm_P(case)
    rho0 = np.array([[complex(a, b) for a, b in row] for row in case["rho"]])
    A = qt.Qobj(np.zeros((n * n, n * n), complex), dims=[[[n], [n]], [[n], [n]]])
    rec = {"dist_calls": 0, "expm_calls": 0}

    def fake_expm(self, *a, **k):
        rec["expm_calls"] += 1
        return qt.Qobj(P.copy(), dims=self.dims)

    def fake_dist(a, b):
        k = rec["dist_calls"]
        rec["dist_calls"] += 1
        return 0.0 if k >= case["kconv"] else 1.0
    try:
        with Patch((qt.Qobj, "expm", fake_expm), (ssm, "hilbert_dist", fake_dist)), \
                warnings.catch_warnings():
            warnings.simplefilter("ignore")
            out = qt.steadystate(A, method="propagator", rho=qt.Qobj(rho0),
                                 propagator_max_iter=case["max_iter"])
        rec["raised"] = False
        rec["out"] = out.full()
    except RuntimeError as e:
        if "Did not converge" not in str(e):
            raise
        rec["raised"] = True
    return rec


# --------------------------------------- correspondence: solver result dispatch
def gen_dispatch_case(rng):
    kind = rng.choice(["iter", "iter", "iter", "lsq", "array"])
    tag = rng.randint(1, 40)
    if kind == "iter":
        rest = [rng.choice([0, 0, 1, 2, 5, 200, 1000, -1, -10, -11])]
        name = rng.choice(["gmres", "lgmres", "bicgstab"])
    elif kind == "lsq":
        rest = [rng.choice([0, 1, 2, 7, -1])] + [rng.randint(0, 50) for _ in range(rng.randint(1, 8))]
        name = "lstsq"
    else:
        rest = None
        name = rng.choice(["spsolve", "gmres", "solve"])
    return {"kind": kind, "tag": tag, "rest": rest, "name": name,
            "fmt": rng.choice(["csr", "dia"]), "N": rng.choice([2, 3, 4])}


def impl_dispatch(case):
    """real _data.solve on a CSR/Dia matrix with the scipy routine replaced by
    a scripted one that returns the prescribed result shape"""
    import qutip.core.data as _data
    import scipy.sparse.linalg as splinalg
    N = case["N"]
    M = _data.to(_data.CSR if case["fmt"] == "csr" else _data.Dia,
                 _data.Dense(np.eye(N) + np.diag(np.ones(N - 1), 1)))
    b = _data.Dense(np.ones((N, 1), dtype=complex))
    x = np.full(N, complex(case["tag"]))
    called = {"n": 0}

    def fake(A, rhs, *a, **k):
        called["n"] += 1
        if case["rest"] is None:
            return x.copy()
        return (x.copy(),) + tuple(case["rest"])
    attr = {"lstsq": "lsqr", "solve": "spsolve"}.get(case["name"], case["name"])
    with Patch((splinalg, attr, fake)), warnings.catch_warnings():
        warnings.simplefilter("ignore")
        try:
            out = _data.solve(M, b, case["name"])
            arr = out.to_array().reshape(-1)
            if not np.all(arr == arr[0]):
                return ("Other", "non-constant result")
            res = ("SRet", int(round(arr[0].real)))
        except RuntimeError as e:
            msg = str(e)
            code = int(msg.rsplit("Error code:", 1)[1].strip()) if "Error code:" in msg else None
            if "Tolerance was not" in msg:
                res = ("SRaiseTol", code)
            elif "Bad input" in msg:
                res = ("SRaiseBad", code)
            else:
                res = ("Other", msg[:80])
        except Exception as e:
            res = ("Other", "%s: %s" % (type(e).__name__, str(e)[:80]))
    if called["n"] != 1:
        return ("Other", "scripted solver called %d times" % called["n"])
    return res


def dispatch_expr(case):
    if case["rest"] is None:
        return "solve_dispatch (SArr %s)" % vlib.cz(case["tag"])
    return "solve_dispatch (STup %s %s)" % (vlib.cz(case["tag"]), cseq(case["rest"], vlib.cz))


# ----------------------------------------------------- correspondence: HEOM
def impl_heom(case):
    import qutip as qt
    import qutip.solver.heom.bofin_solvers as bs
    from qutip.solver.heom import HEOMSolver, BosonicBath
    n = case["n"]
    Hs = qt.Qobj(np.diag(np.arange(n) + 0.0))
    Qc = qt.Qobj(np.ones((n, n)) - np.eye(n))
    bath = BosonicBath(Qc, [1.0], [1.0], [0.5], [1.0])
    s = HEOMSolver(Hs, bath, max_depth=case["depth"])
    P = n * n * s._n_ados
    rng = random.Random(case["seed"])
    G = np.array([[complex(rng.randint(-3, 3), rng.randint(-3, 3)) if rng.random() < 0.4 else 0j
                   for _ in range(P)] for _ in range(P)])
    sol = rand_gz_vec(rng, P, 3)
    rec = {"P": P, "G": G, "sol": sol}

    class FakeRhs:
        def __call__(self, t):
            return qt.Qobj(G)

    def fake_spsolve(Lm, b, *a, **k):
        rec["L"] = np.array(Lm.toarray())
        rec["b"] = np.array(b).reshape(-1)
        return sol.copy()
    old_rhs = s.rhs
    s.rhs = FakeRhs()
    try:
        with Patch((bs, "spsolve", fake_spsolve), (bs, "mkl_spsolve", None)):
            rho, ados = s.steady_state()
    finally:
        s.rhs = old_rhs
    rec["rho2"] = rho.full() * 2
    rec["dims"] = rho.dims
    return rec


# --------------------------------------------------------------------- oracle
TOL = {"direct": 1e-9, "power_eps": 1e-6, "iterative": 1e-9, "eigen": 2e-6, "svd": 1e-9, "power": 1e-8,
       "propagator": 5e-4}
ITER_SOLVERS = ("gmres", "lgmres", "bicgstab")


def oracle_configs(quick, rng):
    cfgs = []
    for solver in [None, "solve", "lstsq", "spsolve"]:
        cfgs.append(("direct", solver, {}))
    cfgs += [("direct", None, {"use_rcm": True}), ("direct", None, {"use_wbm": True}),
             ("direct", "spsolve", {"use_rcm": True, "use_wbm": True}),
             ("direct", None, {"weight": 7.5}), ("direct", "solve", {"weight": 0.125}),
             ("direct", None, {"sparse": False}), ("direct", None, {"sparse": True}),
             ("direct", "solve", {"use_rcm": True}),
             ("iterative", "gmres", {"use_precond": True}),
             ("direct", "gmres", {}), ("direct", "lgmres", {"use_precond": True}),
             ("direct", "lgmres", {"use_rcm": True}),
             ("direct", "bicgstab", {"use_precond": True, "use_wbm": True}),
             ("direct-spsolve", None, {}),
             ("direct", "spsolve", {"use_wbm": True}),
             ("direct", None, {"use_wbm": True, "weight": 2.0}),
             ("direct", None, {"use_wbm": True, "use_rcm": True, "sparse": True}),
             ("iterative", "lgmres", {"use_wbm": True, "use_precond": True}),
             ("direct", "gmres", {"use_wbm": True, "use_rcm": True, "use_precond": True}),
             ("iterative-gmres", None, {"use_wbm": True, "use_precond": True}),
             ("eigen", None, {}), ("eigen", None, {"sparse": False}),
             ("svd", None, {}),
             ("power", None, {}), ("power", "solve", {}), ("power", "spsolve", {"use_rcm": True}),
             ("power", None, {"use_wbm": True}), ("power-gmres", None, {"use_precond": True}),
             ("power", "spsolve", {"power_eps": 1e-10, "power_tol": 1e-8, "use_rcm": True}),
             ("power", None, {"power_eps": 1e-10, "power_tol": 1e-8, "sparse": True, "use_wbm": True}),
             ("propagator", None, {})]
    return cfgs


# Iterative solvers that are stopped at their iteration limit: on the unchanged
# tree every one of these calls raises RuntimeError("Tolerance was not reached");
# a state that is RETURNED is held to the usual standard (check_result).
HARD_ITER_CONFIGS = [
    ("iterative-gmres", None, {"maxiter": 1, "restart": 2}),
    ("iterative-bicgstab", None, {"maxiter": 1}),
    ("iterative-lgmres", None, {"maxiter": 1, "inner_m": 2}),
    ("direct", "gmres", {"maxiter": 1, "restart": 2, "use_rcm": True}),
    ("direct", "bicgstab", {"maxiter": 1, "use_wbm": True}),
    ("power-gmres", None, {"maxiter": 1, "restart": 2}),
    ("power-bicgstab", None, {"maxiter": 1}),
]


def jc_system(N=10):
    """damped driven Jaynes-Cummings, cavity N x qubit (floats, not exact)"""
    a1 = np.diag(np.sqrt(np.arange(1, N)), 1)
    a = np.kron(a1, np.eye(2))
    sm = np.kron(np.eye(N), np.array([[0, 0], [1, 0]], dtype=float))
    H = a.conj().T @ a + sm.conj().T @ sm + 0.5 * (a.conj().T @ sm + a @ sm.conj().T) \
        + 0.3 * (a + a.conj().T)
    C = [np.sqrt(0.1) * a, np.sqrt(0.05) * sm]
    return H.astype(complex), [c.astype(complex) for c in C], [N, 2]


def oracle_jc(ctx, stats, quick):
    """a larger composite system on which un-preconditioned Krylov solvers do not
    converge within maxiter=200: either the call raises or the returned state is
    a normalised fixed point (relative residual within 100 x the solver's rtol)"""
    import qutip as qt
    H, C, dims = jc_system(10 if not quick else 8)
    L = liouvillian_np(H, C)
    n = H.shape[0]
    u, sv, vh = np.linalg.svd(L)
    v = vh[-1].conj()
    ref = v.reshape((n, n), order="F")
    ref = ref / np.trace(ref)
    if sv[-2] < 1e-8 or np.abs(L @ ref.reshape(-1, order="F")).max() > 1e-9:
        ctx.log("JC reference not usable; skipped")
        return
    Hq = qt.Qobj(H, dims=[dims, dims]).to("csr")
    Cq = [qt.Qobj(c, dims=[dims, dims]).to("csr") for c in C]
    scale = np.abs(L).max()
    cfgs = [("iterative-gmres", None, {"maxiter": 200}),
            ("iterative-bicgstab", None, {"maxiter": 200}),
            ("iterative-lgmres", None, {"maxiter": 20}),
            ("power-bicgstab", None, {"maxiter": 200}),
            ("iterative-gmres", None, {"use_precond": True}),
            ("iterative-bicgstab", None, {"use_precond": True, "use_rcm": True}),
            ("direct", None, {}), ("direct", "spsolve", {"use_wbm": True, "use_rcm": True}),
            ("power", None, {}), ("eigen", None, {})]
    for method, solver, kw in cfgs:
        key = {"method": method, "solver": solver, "opts": sorted(kw.keys()), "system": "jaynes-cummings"}
        stats["jc_runs"] = stats.get("jc_runs", 0) + 1
        try:
            with warnings.catch_warnings():
                warnings.simplefilter("ignore")
                r = qt.steadystate(Hq, Cq, method=method, solver=solver, **dict(kw))
        except Exception as e:
            itr = method.split("-")[-1] in ITER_SOLVERS
            if itr and isinstance(e, (RuntimeError, ArithmeticError, Warning)) or \
                    "Failed to find steady state" in str(e):
                stats["jc_raised"] = stats.get("jc_raised", 0) + 1      # excusable [NUM]
                continue
            ctx.violation("steadystate:" + method.split("-")[0],
                          dict(key, symptom="raises:" + type(e).__name__),
                          "steadystate(%s, %s) on the Jaynes-Cummings system raised %s: %s"
                          % (method, kw, type(e).__name__, str(e)[:100]), {"cfg": [method, solver, kw]})
            continue
        M = r.full()
        rtol = 1e-5
        bad = []
        rel = np.abs(L @ M.reshape(-1, order="F")).max() / (scale * max(1e-300, np.abs(M).max()))
        if rel > 100 * rtol:
            bad.append("not-fixed-point")
        if abs(np.trace(M) - 1) > 100 * rtol:
            bad.append("trace")
        if np.abs(M - M.conj().T).max() > 100 * rtol:
            bad.append("not-hermitian")
        if np.abs(M - ref).max() > 1e-3:
            bad.append("differs-from-reference")
        if r.dims != [dims, dims]:
            bad.append("dims")
        ctx.count_case(("jc", method, solver, json.dumps(kw, sort_keys=True)))
        if bad:
            ctx.violation("steadystate:" + method.split("-")[0], dict(key, symptom=bad[0]),
                          "steadystate(%s, solver=%s, %s) on a damped driven Jaynes-Cummings system "
                          "(cavity %d x qubit) RETURNED a state that violates %s: relative residual "
                          "%.2e, distance to the null vector of L %.2e"
                          % (method, solver, kw, dims[0], bad, rel, np.abs(M - ref).max()),
                          {"cfg": [method, solver, kw], "system": "jc_system(%d)" % dims[0],
                           "symptoms": bad, "relative_residual": float(rel)})
        else:
            stats["jc_ok"] = stats.get("jc_ok", 0) + 1


def check_result(s, L, rho_ex, r, method, solver, loose=0.0):
    """returns list of symptom strings (empty = property holds)"""
    base = method.split("-")[0]
    tol = TOL.get(base, 1e-9)
    if solver in ITER_SOLVERS or "-" in method and method.split("-")[1] in ITER_SOLVERS:
        tol = max(tol, 2e-4)
    if solver == "lstsq":
        tol = max(tol, 1e-8)
    if loose:
        tol = max(tol, loose)
    scale = max(1.0, float(np.abs(L).max()))
    M = r.full()
    bad = []
    if r.dims != [s["dims"], s["dims"]]:
        bad.append("dims")
    if not r.isoper:
        bad.append("type")
    if M.shape != rho_ex.shape:
        return bad + ["shape"]
    if np.abs(M - M.conj().T).max() > tol:
        bad.append("not-hermitian")
    if abs(np.trace(M) - 1) > tol:
        bad.append("trace")
    if np.abs(L @ M.reshape(-1, order="F")).max() > tol * scale * 10:
        bad.append("not-fixed-point")
    if np.abs(M - rho_ex).max() > tol * 10:
        bad.append("differs-from-exact")
    Mh = (M + M.conj().T) / 2
    if np.linalg.eigvalsh(Mh).min() < -tol * 10:
        bad.append("not-psd")
    if r._isherm is True and np.abs(M - M.conj().T).max() > 1e-6:
        bad.append("isherm-flag-wrong")
    return bad


def loose_tol(kw, solver, fmt):
    """extra tolerance [NUM]: power_eps shifts the generator; solver='lstsq'
    on Dia data is dispatched to scipy's iterative lsqr (default atol=btol=1e-6)"""
    t = 0.0
    if "power_eps" in kw:
        t = 1e-6
    if solver == "lstsq" and fmt == "dia":
        t = max(t, 2e-5)
    return t


EIGEN_ARPACK_SIG = {"symptom": "sparse eigensolver misses the zero eigenvalue of L^dag L"}


def arpack_missed_null(s, fmt):
    """is the lowest eigenvalue the sparse route of Qobj.eigenstates reports for
    L^dag L far from zero although the generator is singular?"""
    import qutip as qt
    Hq, Cq = sys_qobjs(s, "csr")
    Lq = qt.liouvillian(Hq, Cq)
    M = Lq.dag() @ Lq
    with warnings.catch_warnings():
        warnings.simplefilter("ignore")
        val, _ = M.eigenstates(eigvals=1, sort="low", sparse=True)
    return bool(abs(val[0]) > 1e-8 * np.abs(M.full()).max())


EIGEN_WITNESS = None


def witness_eigen_sparse(ctx):
    """qubit x 3-level system, both decaying at zero temperature"""
    import qutip as qt
    H = qt.tensor(qt.sigmaz(), qt.qeye(3)) + qt.tensor(qt.qeye(2), qt.num(3))
    cs = [qt.tensor(qt.sigmam(), qt.qeye(3)), qt.tensor(qt.qeye(2), qt.destroy(3))]
    with warnings.catch_warnings():
        warnings.simplefilter("ignore")
        ref = qt.steadystate(H, cs).full()
        r = qt.steadystate(H, cs, method="eigen")
    dev = float(np.abs(r.full() - ref).max())
    if dev > 1e-5 or r.dims != H.dims:
        ctx.violation("steadystate:eigen", EIGEN_ARPACK_SIG,
                      "steadystate(method='eigen') on a decaying qubit x 3-level system differs "
                      "from method='direct' by %.1e" % dev,
                      {"witness": "H = sz x 1 + 1 x num(3); c_ops = [sm x 1, 1 x destroy(3)]",
                       "dev": dev})


def phase_symptom(M, rho_ex):
    """is M = c * rho_ex with complex c, Re c = 1 ?"""
    c = np.vdot(rho_ex, M) / np.vdot(rho_ex, rho_ex)
    if np.abs(M - c * rho_ex).max() < 1e-8 and abs(c.real - 1) < 1e-8 and abs(c.imag) > 1e-8:
        return True
    return False


def _snapshot(objs):
    return [(type(o.data).__name__, o.dims, np.array(o.data.to_array(), copy=True), o._isherm)
            for o in objs]


def run_one(s, cfg, fmt, as_liouv, seed, guard=None):
    """one real steadystate() call.  With guard (a list), the operands handed
    in are compared bitwise before/after and the call is repeated on the very
    same objects: symptoms are appended to guard."""
    import qutip as qt
    method, solver, kw = cfg
    Hq, Cq = sys_qobjs(s, fmt)
    if as_liouv == "L":
        A, cl = qt.liouvillian(Hq, Cq), []
    elif as_liouv == "L+c":
        A, cl = qt.liouvillian(Hq, Cq[:1]), Cq[1:]
    else:
        A, cl = Hq, Cq
    before = _snapshot([A] + cl) if guard is not None else None
    ncl = len(cl)

    def call():
        np.random.seed(seed % (2 ** 31))
        with warnings.catch_warnings():
            warnings.simplefilter("ignore")
            return qt.steadystate(A, cl, method=method, solver=solver, **dict(kw))
    r = call()
    if guard is not None:
        after = _snapshot([A] + cl)
        if len(cl) != ncl:
            guard.append("mutates-input:c_ops-list-length")
        for k, (b0, a0) in enumerate(zip(before, after)):
            if b0[0] != a0[0] or b0[1] != a0[1] or b0[3] != a0[3] or not np.array_equal(b0[2], a0[2]):
                guard.append("mutates-input:" + ("A" if k == 0 else "c_ops"))
                break
        r2 = call()
        # bitwise for the deterministic routes; ARPACK (random start vector),
        # the propagator method (random initial state) and Krylov solvers are
        # compared within their own tolerance
        base = method.split("-")[0]
        atol = 0.0
        if base == "propagator":
            atol = 1e-3
        elif base == "eigen" and kw.get("sparse", True):
            atol = 1e-5
        elif solver in ITER_SOLVERS or ("-" in method and method.split("-")[1] in ITER_SOLVERS):
            atol = 1e-3
        same = np.array_equal(r.full(), r2.full()) if atol == 0.0 else \
            bool(np.abs(r.full() - r2.full()).max() <= atol)
        if not same or r.dims != r2.dims:
            guard.append("second-call-differs")
    return r


def oracle_system(ctx, s, cfgs, rng, stats, fmts):
    import qutip as qt
    H, C = sys_arrays(s)
    L = liouvillian_np(H, C)
    rho_ex = exact_rho(s)
    if rho_ex is None:
        stats["skipped_not_unique"] += 1
        return False
    # the reference itself: independent checks (validation)
    assert np.abs(L @ rho_ex.reshape(-1, order="F")).max() < 1e-9
    Lq = qt.liouvillian(*sys_qobjs(s, "dense")).full()
    if np.abs(Lq - L).max() > 1e-12:
        ctx.violation("liouvillian", "differs-from-kron-formula",
                      "qutip.liouvillian differs from the Kronecker formula (C07 territory)",
                      {"system": s})
    rho00zero = abs(rho_ex[0, 0]) < 1e-12
    if matching_max_cycle(s) >= 3:
        stats["matching_cycle_ge_3_systems"] = stats.get("matching_cycle_ge_3_systems", 0) + 1
    for cfg in cfgs:
        method, solver, kw = cfg
        fmt = rng.choice(fmts)
        if ("use_wbm" in kw or "use_rcm" in kw) and rng.random() < 0.8:
            fmt = "csr"
        as_l = rng.choice(["H", "H", "L", "L+c"]) if len(s["C2"]) > 1 else rng.choice(["H", "L"])
        seed = rng.randrange(1 << 30)
        key = {"method": method, "solver": solver, "opts": sorted(kw.keys())}
        stats["runs"] += 1
        guard = [] if (stats["systems"] < 2 or rng.random() < 0.3) else None
        try:
            r = run_one(s, cfg, fmt, as_l, seed, guard)
        except Exception as e:
            msg = "%s: %s" % (type(e).__name__, str(e)[:120])
            itr = (solver in ITER_SOLVERS or method.endswith(tuple(ITER_SOLVERS)))
            if cfg in HARD_ITER_CONFIGS:
                stats["hard_iterative_raised"] = stats.get("hard_iterative_raised", 0) + 1
            nr = stats.setdefault("no_result_by_cfg", {})
            ck = "%s/%s/%s: %s" % (method, solver, ",".join(sorted(kw)), type(e).__name__)
            nr[ck] = nr.get(ck, 0) + 1
            if itr and isinstance(e, (RuntimeError, ArithmeticError, Warning)):
                # non-convergence / breakdown of a Krylov solver [NUM]
                stats["iterative_no_convergence"] += 1
                continue
            if method.startswith("power") and "Failed to find steady state" in str(e):
                stats["power_no_convergence"] += 1           # [NUM], default maxiter
                continue
            if method.startswith("power") and "Matrix is singular" in str(e):
                # L + 1e-15 is exactly singular in floating point for the sparse LU
                # (exact cancellation on exactly representable inputs) [NUM]
                stats["power_exactly_singular"] += 1
                continue
            if method == "propagator" and isinstance(e, RuntimeError) and "Did not converge" in str(e):
                stats["propagator_no_convergence"] += 1
                continue
            ctx.violation("steadystate:" + method.split("-")[0],
                          dict(key, symptom="raises:" + type(e).__name__),
                          "steadystate(%s, solver=%s, %s) raised %s" % (method, solver, kw, msg),
                          {"system": s, "cfg": [method, solver, kw], "fmt": fmt,
                           "input": as_l, "seed": seed, "error": msg})
            continue
        if guard is not None:
            stats["guarded_runs"] = stats.get("guarded_runs", 0) + 1
        if cfg in HARD_ITER_CONFIGS:
            stats["hard_iterative_returned"] = stats.get("hard_iterative_returned", 0) + 1
        bad = check_result(s, L, rho_ex, r, method, solver, loose_tol(kw, solver, fmt))
        if guard and bad:
            guard = [g for g in guard if g != "second-call-differs"]   # covered by `bad` below
        if guard:
            # a steady state of a generator the call has altered is not a fixed
            # point of the one the caller holds
            ctx.violation("steadystate:" + method.split("-")[0],
                          dict(key, symptom=guard[0], fmt=fmt, input=as_l),
                          "steadystate(%s, solver=%s, %s) on %s/%s input: %s"
                          % (method, solver, kw, fmt, as_l, guard),
                          {"system": s, "cfg": [method, solver, kw], "fmt": fmt, "input": as_l,
                           "seed": seed, "symptoms": guard, "guard": True})
        bad = check_result(s, L, rho_ex, r, method, solver, loose_tol(kw, solver, fmt))
        ctx.count_case(("oracle", json.dumps(s, sort_keys=True), method, solver,
                        json.dumps(kw, sort_keys=True), fmt, as_l), nontrivial=True)
        if not bad:
            stats["ok"] += 1
            continue
        M = r.full()
        if method == "eigen" and kw.get("sparse", True) and arpack_missed_null(s, fmt):
            ctx.violation("steadystate:eigen", EIGEN_ARPACK_SIG,
                          "steadystate(method='eigen') (sparse ARPACK route) returns an operator that "
                          "is not a fixed point (max deviation %.1e): eigsh(L^dag L, k=1, which='SA') "
                          "does not return the zero eigenvalue" % np.abs(M - rho_ex).max(),
                          {"system": s, "cfg": [method, solver, kw], "fmt": fmt, "input": as_l,
                           "seed": seed, "symptoms": bad})
        elif method == "svd" and phase_symptom(M, rho_ex):
            sig = {"symptom": "result = (1 + i t) * rho_ss, t != 0",
                   "rho00": "zero" if rho00zero else "nonzero"}
            what = ("steadystate(method='svd') returns (1+i*t)*rho_ss (trace %s, not Hermitian): "
                    "_steadystate_svd flags the null vector isherm=True before tr(), which then "
                    "drops the imaginary part of the trace"
                    % np.round(np.trace(M), 6))
            ctx.violation("steadystate:svd", sig, what,
                          {"system": s, "cfg": [method, solver, kw], "fmt": fmt, "input": as_l,
                           "seed": seed, "symptoms": bad, "trace": [np.trace(M).real, np.trace(M).imag]})
        else:
            ctx.violation("steadystate:" + method.split("-")[0],
                          dict(key, symptom=bad[0], rho00="zero" if rho00zero else "nonzero"),
                          "steadystate(%s, solver=%s, %s) violates: %s" % (method, solver, kw, bad),
                          {"system": s, "cfg": [method, solver, kw], "fmt": fmt, "input": as_l,
                           "seed": seed, "symptoms": bad,
                           "max_dev": float(np.abs(M - rho_ex).max())})
    return True


def matching_max_cycle(s):
    """length of the longest cycle of the row matching SciPy finds for the
    weighted generator of system s (0 when the matching is not perfect).
    Used only to SELECT systems on which use_wbm is a non-trivial permutation."""
    import scipy.sparse as sp
    import scipy.sparse.csgraph as csg
    H, C = sys_arrays(s)
    L = liouvillian_np(H, C)
    N = L.shape[0]
    n = int(round(N ** 0.5))
    w = float(np.mean(np.abs(L[np.abs(L) > 0])))
    Lw = L.copy()
    Lw[0, [k * (n + 1) for k in range(n)]] += w
    m = list(csg.maximum_bipartite_matching(sp.csr_matrix(Lw)))
    if sorted(m) != list(range(N)):
        return 0
    seen, best = set(), 1
    for j in range(N):
        k, ln = j, 0
        while k not in seen:
            seen.add(k)
            k = m[k]
            ln += 1
        best = max(best, ln)
    return best


SPARSE_KINDS = ["sparse_ladder", "sparse_tensor", "sparse_block", "pump_top", "zero_first"]


def gen_sparse_system(rng, big=False):
    kind = rng.choice(SPARSE_KINDS)
    if kind == "sparse_tensor":
        dims = rng.choice([[2, 2], [3, 2], [2, 3]] if big else [[2, 2], [2, 2], [3, 2]])
    else:
        dims = [rng.choice([3, 3, 4] if big else [3, 3, 3, 4])]
    return gen_system(rng, kind, dims)


def targeted_search(ctx, site, what, rng, stats):
    """A correspondence broke at `site` (and `what` names the component that
    differs): run the property's own oracle on systems and options for which
    that component is non-trivial."""
    allc = oracle_configs(False, rng)
    if site == "corr:steadystate_direct":
        cfgs = [c for c in allc if c[0].split("-")[0] in ("direct", "iterative")
                and ("use_wbm" in c[2] or "use_rcm" in c[2] or "weight" in c[2])]
        cfgs += [("direct", None, {}), ("direct", "spsolve", {})]
        chosen, others = [], []
        for _ in range(80):
            s = gen_sparse_system(rng, big=len(chosen) >= 2)
            if exact_rho(s) is None:
                continue
            if matching_max_cycle(s) >= 3:
                chosen.append(s)
            elif len(others) < 2:
                others.append(s)
            if len(chosen) >= 4:
                break
        stats["targeted_systems_with_matching_cycle_ge_3"] = len(chosen)
        for s in chosen + others:
            oracle_system(ctx, s, cfgs, rng, stats, ["csr"])
    elif site in ("corr:steadystate_eigen", "corr:steadystate_svd", "corr:steadystate_power",
                  "corr:steadystate_propagator"):
        m = site.split("_")[-1]
        cfgs = [c for c in allc if c[0].split("-")[0] == m]
        n = 0
        for _ in range(40):
            s = gen_sparse_system(rng) if n % 2 == 0 else gen_system(rng, "generic", [3])
            if oracle_system(ctx, s, cfgs, rng, stats, ["csr", "dense"]):
                n += 1
            if n >= 5:
                break
    elif site == "corr:pseudo_inverse":
        n = 0
        for _ in range(20):
            s = gen_sparse_system(rng) if n % 2 == 0 else gen_system(rng, "generic", [2])
            if exact_rho(s) is not None:
                oracle_pinv(ctx, s, stats, rng)
                n += 1
            if n >= 3:
                break
    elif site == "corr:heom.steady_state":
        oracle_heom(ctx, stats, rng, False)
    elif site == "corr:solve_dispatch":
        # the flag of a Krylov solver is mishandled: stop solvers at their limit
        n = 0
        for _ in range(30):
            s = gen_system(rng, rng.choice(["generic", "sparse_ladder", "rates"]), [3])
            if oracle_system(ctx, s, HARD_ITER_CONFIGS, rng, stats, ["csr", "dia"]):
                n += 1
            if n >= 3:
                break
        oracle_jc(ctx, stats, True)


def oracle_mesolve(ctx, s, stats):
    """long-time limit of mesolve equals the exact stationary state"""
    import qutip as qt
    H, C = sys_arrays(s)
    L = liouvillian_np(H, C)
    rho_ex = exact_rho(s)
    if rho_ex is None:
        return
    ev = np.linalg.eigvals(L)
    gap = sorted(-ev.real)[1]
    if gap < 0.05:
        return
    T = 45.0 / gap
    Hq, Cq = sys_qobjs(s, "csr")
    d = s["dims"]
    n = int(np.prod(d))
    rho0 = qt.Qobj(np.diag([1.0] + [0.0] * (n - 1)), dims=[d, d])
    with warnings.catch_warnings():
        warnings.simplefilter("ignore")
        res = qt.mesolve(Hq, rho0, [0, T / 2, T], Cq,
                         options={"atol": 1e-10, "rtol": 1e-8, "nsteps": 200000})
        rss = qt.steadystate(Hq, Cq)
    dev = np.abs(res.states[-1].full() - rss.full()).max()
    stats["mesolve"] += 1
    ctx.count_case(("mesolve", json.dumps(s, sort_keys=True)))
    if dev > 1e-5:
        ctx.violation("steadystate:mesolve-limit", {"symptom": "differs-from-long-time-mesolve"},
                      "steadystate differs from mesolve at t=%g by %.2e" % (T, dev),
                      {"system": s, "T": T, "dev": float(dev)})


def oracle_pinv(ctx, s, stats, rng):
    import qutip as qt
    H, C = sys_arrays(s)
    L = liouvillian_np(H, C)
    rho_ex = exact_rho(s)
    if rho_ex is None:
        return
    d = s["dims"]
    n = int(np.prod(d))
    N = n * n
    P = np.outer(rho_ex.reshape(-1, order="F"), np.eye(n).reshape(-1, order="F"))
    Q = np.eye(N) - P
    scale = max(1.0, np.abs(L).max())
    # sparse LU with w = 0 is documented to fail on small systems: sparse
    # methods are exercised at w != 0 only
    for kw in [{"w": 0.5}, {"method": "splu", "csc": True, "w": 0.5}, {"method": "pinv"},
               {"method": "solve"}, {"method": "lstsq"}, {"method": "direct"},
               {"method": "spilu", "w": 0.25}, {"method": "direct", "sparse": True, "csc": True, "w": 1.0},
               {"method": "splu", "csc": True, "use_rcm": True, "w": 0.5},
               {"method": "solve", "w": 0.5}, {"method": "pinv", "w": 0.25},
               {"method": "solve", "use_rcm": True, "w": 0.125}]:
        Hq, Cq = sys_qobjs(s, rng.choice(["csr", "dense"]))
        Lq = qt.liouvillian(Hq, Cq)
        give_rho = rng.random() < 0.5
        stats["pinv_runs"] += 1
        key = {"method": kw.get("method", "default"), "opts": sorted(k for k in kw if k != "method")}
        try:
            with warnings.catch_warnings():
                warnings.simplefilter("ignore")
                R = qt.pseudo_inverse(Lq, qt.Qobj(rho_ex, dims=[d, d]) if give_rho else None, **kw)
        except Exception as e:
            sig = dict(key, symptom="raises:" + type(e).__name__)
            if type(e).__name__ == "SparseEfficiencyWarning":
                sig = PINV_SPLU_SIG
            ctx.violation("pseudo_inverse", sig,
                          "pseudo_inverse(L, %s) raised %s: %s" % (kw, type(e).__name__, str(e)[:100]),
                          {"system": s, "kw": kw, "error": str(e)[:300]})
            continue
        Rm = R.full()
        sv = 1j * (kw.get("w") or 0.0)
        A = L + sv * np.eye(N)
        tol = 1e-7 * scale
        bad = []
        if R.dims != Lq.dims:
            bad.append("dims")
        if np.abs(A @ Rm - Q).max() > tol:
            bad.append("(L+iw) R != Q")
        if np.abs(Rm @ A - Q).max() > tol:
            bad.append("R (L+iw) != Q")
        if np.abs(Rm @ P).max() > tol or np.abs(P @ Rm).max() > tol:
            bad.append("R P != 0 or P R != 0")
        x = rng.random()
        X = np.array([[complex(rng.randint(-3, 3), rng.randint(-3, 3)) for _ in range(n)]
                      for _ in range(n)])
        X = X - np.trace(X) / n * np.eye(n)
        xv = X.reshape(-1, order="F")
        if np.abs(A @ (Rm @ xv) - xv).max() > tol * 10:
            bad.append("(L+iw) R x != x on traceless x")
        ctx.count_case(("pinv", json.dumps(s, sort_keys=True), json.dumps(kw, sort_keys=True)))
        if bad:
            ctx.violation("pseudo_inverse", dict(key, symptom=bad[0]),
                          "pseudo_inverse(L, %s) violates %s" % (kw, bad),
                          {"system": s, "kw": kw, "symptoms": bad})
        else:
            stats["pinv_ok"] += 1


def oracle_heom(ctx, stats, rng, quick):
    import qutip as qt
    from qutip.solver.heom import HEOMSolver, DrudeLorentzBath, BosonicBath
    cases = [("dl", 2, 2)] if quick else [("dl", 2, 2), ("dl", 3, 2), ("bos", 2, 3), ("dl2", 2, 2)]
    for kind, n, depth in cases:
        if n == 2:
            Hs = 0.5 * qt.sigmaz() + 0.25 * qt.sigmax() + 0.125 * qt.sigmay()
            Qc = qt.sigmaz() if kind != "bos" else qt.sigmax()
        else:
            Hs = qt.Qobj(np.array([[0, 0.5, 0.25j], [0.5, 1, 0.5], [-0.25j, 0.5, 2]]))
            Qc = qt.Qobj(np.diag([1.0, 0.0, -1.0]))
        if kind == "bos":
            baths = [BosonicBath(Qc, [0.25], [1.0], [0.125], [1.0])]
        elif kind == "dl2":
            baths = [DrudeLorentzBath(Qc, lam=0.05, gamma=0.5, T=1.0, Nk=1),
                     DrudeLorentzBath(qt.sigmax(), lam=0.025, gamma=1.0, T=0.5, Nk=1)]
        else:
            baths = [DrudeLorentzBath(Qc, lam=0.05, gamma=0.5, T=1.0, Nk=2)]
        with warnings.catch_warnings():
            warnings.simplefilter("ignore")
            s = HEOMSolver(Hs, baths if len(baths) > 1 else baths[0], max_depth=depth,
                           options={"atol": 1e-11, "rtol": 1e-9, "nsteps": 100000})
            rho, ados = s.steady_state()
            G = s.rhs(0).to("CSR").data.to_array()
            full = np.asarray(ados._ado_state).reshape(-1)
            M = rho.full()
            bad = []
            if np.abs(G @ full).max() > 1e-9 * max(1.0, np.abs(G).max()):
                bad.append("not-fixed-point-of-hierarchy-generator")
            if abs(np.trace(M) - 1) > 1e-9:
                bad.append("trace")
            if np.abs(M - M.conj().T).max() > 1e-12:
                bad.append("not-hermitian")
            if rho.dims != Hs.dims:
                bad.append("dims")
            if np.linalg.eigvalsh((M + M.conj().T) / 2).min() < -1e-9:
                bad.append("not-psd")
            # trace row of the hierarchy generator vanishes (hypothesis of
            # C18_heom_row_replacement_sound), validated numerically
            t = np.zeros(G.shape[0])
            t[[k * (n + 1) for k in range(n)]] = 1
            if np.abs(t @ G).max() > 1e-12 * max(1.0, np.abs(G).max()):
                bad.append("hierarchy-generator-not-trace-preserving")
            ev = np.linalg.eigvals(G)
            gap = sorted(-ev.real)[1]
            if gap > 0.02:
                T = 40.0 / gap
                res = s.run(qt.Qobj(np.diag([1.0] + [0.0] * (n - 1))), [0, T])
                if np.abs(res.states[-1].full() - M).max() > 1e-5:
                    bad.append("differs-from-long-time-evolution")
        stats["heom"] += 1
        ctx.count_case(("heom", kind, n, depth))
        if bad:
            ctx.violation("heom.steady_state", {"kind": kind, "n": n, "depth": depth, "symptom": bad[0]},
                          "HEOMSolver.steady_state violates %s" % bad, {"symptoms": bad})


# ------------------------------------------------------------ known witnesses
SVD_WITNESS = {"kind": "witness", "dims": [3],
               "H2": [[[0, 0], [0, 0], [0, 0]], [[0, 0], [0, 0], [0, 2]], [[0, 0], [0, -2], [2, 0]]],
               "C2": [[[[0, 0], [0, 0], [0, 0]], [[2, 0], [0, 0], [0, 0]], [[0, 0], [0, 0], [0, 0]]],
                      [[[0, 0], [0, 0], [0, 0]], [[0, 0], [0, 0], [2, 0]], [[0, 0], [0, 0], [0, 0]]]]}


def witness_svd(ctx):
    """regression for the repaired svd normalisation (C18_svd_witness_normalised);
    also ties the Coq literal wL to qutip.liouvillian."""
    import qutip as qt
    s = SVD_WITNESS
    Hq, Cq = sys_qobjs(s, "csr")
    L2 = (2 * qt.liouvillian(Hq, Cq)).full()
    vals = vlib.coq_eval_values("cases_C18_w", HEADER + "From QV Require Import Proofs.C18_exec.\n",
                                ["wL"])
    wL = pmat(vlib.parse_coq_value(vals[0]))
    ok = bool(np.array_equal(wL, L2))
    ctx.add_obligation("witness_wL_equals_2_liouvillian", ok)
    if not ok:
        ctx.violation("corr:svd-witness", "wL-differs", "Coq witness generator differs from "
                      "2*liouvillian(H, c_ops)", {"wL": str(wL.tolist()), "impl": str(L2.tolist())},
                      found_input=True)
    H, C = sys_arrays(s)
    L = liouvillian_np(H, C)
    rho_ex = exact_rho(s)
    with warnings.catch_warnings():
        warnings.simplefilter("ignore")
        r = qt.steadystate(Hq, Cq, method="svd")
    M = r.full()
    bad = check_result(s, L, rho_ex, r, "svd", None)
    if bad:
        sig = {"symptom": "result = (1 + i t) * rho_ss, t != 0", "rho00": "zero"} \
            if phase_symptom(M, rho_ex) else {"symptom": bad[0], "rho00": "zero", "witness": True}
        ctx.violation("steadystate:svd", sig,
                      "steadystate(method='svd') wrong on the 3-level witness: %s" % bad,
                      {"system": s, "cfg": ["svd", None, {}], "fmt": "csr", "input": "H", "seed": 0,
                       "symptoms": bad, "trace": [np.trace(M).real, np.trace(M).imag]})


def witness_power_maxiter(ctx):
    """regression for C18_power_maxiter_accepts_last_iterate: count the solves
    needed, then allow exactly that many."""
    import qutip as qt
    import qutip.core.data as _data
    H = qt.sigmax()
    cs = [qt.sigmam()]
    real = _data.solve
    calls = {"n": 0}

    def counting(*a, **k):
        calls["n"] += 1
        return real(*a, **k)
    with Patch((_data, "solve", counting)), warnings.catch_warnings():
        warnings.simplefilter("ignore")
        qt.steadystate(H, cs, method="power", power_maxiter=50)
    need = calls["n"]
    try:
        with warnings.catch_warnings():
            warnings.simplefilter("ignore")
            r = qt.steadystate(H, cs, method="power", power_maxiter=need)
        ok = True
    except Exception as e:
        ok = False
        msg = str(e)
    if not ok:
        ctx.violation("steadystate:power", {"symptom": "raises although the last allowed solve converged"},
                      "steadystate(method='power', power_maxiter=%d) raises '%s' although %d solve(s) "
                      "reach the tolerance" % (need, msg, need),
                      {"H": "sigmax", "c_ops": ["sigmam"], "solves_needed": need, "power_maxiter": need})


PINV_SPLU_SIG = {"solver": "splu", "symptom": "raises:SparseEfficiencyWarning"}


def witness_pinv_default(ctx):
    import qutip as qt
    a = qt.destroy(3)
    L = qt.liouvillian(a + a.dag(), [a])
    try:
        with warnings.catch_warnings():
            warnings.simplefilter("ignore")
            qt.pseudo_inverse(L, w=0.5)
    except Exception as e:
        sig = {"method": "default", "opts": ["w"], "symptom": "raises:" + type(e).__name__}
        if type(e).__name__ == "SparseEfficiencyWarning":
            sig = PINV_SPLU_SIG
        ctx.violation("pseudo_inverse", sig,
                      "pseudo_inverse(L, w=0.5) with the default method ('splu') raised %s: %s"
                      % (type(e).__name__, str(e)[:100]),
                      {"system": "destroy(3): H = a + a^dag, c_ops=[a]", "w": 0.5,
                       "error": str(e)[:300]})


# ------------------------------------------------------------------------ run
CORR_TO_ORACLE = {"corr:steadystate_direct": ("steadystate:direct", "steadystate:iterative"),
                  "corr:steadystate_eigen": ("steadystate:eigen",),
                  "corr:steadystate_svd": ("steadystate:svd",),
                  "corr:steadystate_power": ("steadystate:power",),
                  "corr:pseudo_inverse": ("pseudo_inverse",),
                  "corr:heom.steady_state": ("heom.steady_state",),
                  "corr:steadystate_propagator": ("steadystate:propagator",),
                  "corr:solve_dispatch": ("steadystate:iterative", "steadystate:direct",
                                          "steadystate:power")}


def run(ctx):
    rng = random.Random(ctx.seed * 104729 + 18)
    quick = ctx.quick
    deferred = []          # correspondence mismatches, reported after the oracle ran
    real_violation = ctx.violation

    def corr_violation(site, signature, what, detail, found_input=True):
        if site in CORR_TO_ORACLE and not str(signature).startswith("raises:"):
            deferred.append((site, signature, what, detail))
            return None
        return real_violation(site, signature, what, detail, found_input)

    def flush_deferred():
        # a correspondence broke: did the property's own oracle find a failing
        # input at the same mechanism?  (unlisted violations only)
        sites = set()
        for pth in ctx.violations:
            try:
                sites.add(json.load(open(pth))["site"])
            except Exception:
                pass
        searched = set()
        for site, signature, what, detail in deferred:
            hit = [x for x in sites if x.startswith(CORR_TO_ORACLE[site])]
            if not hit and site not in searched:
                # nothing found by the general oracle: target the mechanism
                searched.add(site)
                ctx.log("correspondence mismatch at %s without a failing input so far: "
                        "targeted search" % site)
                try:
                    targeted_search(ctx, site, what, random.Random(ctx.seed * 31 + 7), stats)
                except Exception as e:           # the search must not hide the mismatch
                    ctx.log("targeted search failed: %r" % e)
                for pth in ctx.violations:
                    try:
                        sites.add(json.load(open(pth))["site"])
                    except Exception:
                        pass
                hit = [x for x in sites if x.startswith(CORR_TO_ORACLE[site])]
            detail = dict(detail, oracle_violations_at_same_mechanism=hit)
            real_violation(site, signature, what + (
                "; the oracle on real runs fails at %s" % hit if hit else
                "; the oracle on real runs found no input violating the property"),
                detail, found_input=bool(hit))
    ctx.cov["rule"] = (
        "correspondence case = (integer generator matrix, dims, storage format, solver name, "
        "weight, use_rcm/use_wbm with scripted permutations, scripted kernel answer); a case is "
        "non-trivial when the matrix has >= 4 non-zero entries; oracle case = (exact system, "
        "method, solver, options, format, input form); distinct by full content")
    ctx.cov["trusted_base"] += [
        "Section oracles of Props/C18.v: the linear solver returns SOME solution of the system it "
        "is handed (`solves`), eig/svd/inverse iteration return SOME null vector, the inverse in "
        "pseudo_inverse is SOME two-sided inverse of L + s; convergence, rounding, LAPACK/ARPACK/"
        "SuperLU/iterative solvers and preconditioners are outside the theorems [NUM]",
        "hypotheses tp (vec(1)^T L = 0, property C07) and hp (Hermiticity preservation) of the "
        "generator; `null_one_dim` (unique stationary state) for the eigen/svd theorems",
        "translator tools/tx_c18_bookkeeping.py (ast; supported subset = the current statement shapes "
        "of _permute_wbm/_permute_rcm/_reverse_rcm and of the assembly/reordering/post-processing part "
        "of _steadystate_direct; fails closed); the guard `isinstance(L, CSR)` around the reorderings "
        "and the automatic weight are not translated",
        "abstract vector norm (absolutely homogeneous, subadditive, invariant under vec o dag o unvec) "
        "in C18_power_stopping_rule_residual",
        "Model/C18.v is hand-written; tied to steadystate.py / bofin_solvers.py by exact comparison "
        "of kernel arguments and results under scripted kernels (tools/c18.py); the choice "
        "'permute only when the matrix is CSR' is observed (was the fake RCM/WBM called), not modelled",
        "exact reference of the oracle: Gaussian elimination over Q(i) in tools/c18.py; "
        "tolerance comparisons of real runs are validation, not proof obligations",
    ]
    stats = {k: 0 for k in ["runs", "ok", "skipped_not_unique", "iterative_no_convergence",
                            "power_no_convergence", "propagator_no_convergence", "mesolve",
                            "pinv_runs", "pinv_ok", "heom", "systems", "power_exactly_singular",
                            "matching_cycle_ge_3_systems"]}

    def oracle_all(budget_systems, r2):
        kinds = ["sparse_ladder", "generic", "zero_first", "sparse_tensor", "rates", "sparse_block",
                 "ladder", "pump_top", "generic", "sparse_ladder", "zero_first"]
        dimsl = [[2], [3], [3], [2, 2]]
        cfgs = oracle_configs(quick, r2)
        fmts = ["csr", "csr", "dense", "dia"]
        done = 0
        tries = 0
        while done < budget_systems and tries < budget_systems * 6:
            tries += 1
            kind = kinds[(tries - 1) % len(kinds)]
            dims = r2.choice(dimsl)
            if kind in ("zero_first", "sparse_ladder", "sparse_block") and int(np.prod(dims)) < 3:
                dims = [3]
            if kind in ("sparse_ladder", "sparse_block", "pump_top") and len(dims) > 1:
                dims = [r2.choice([3, 4])]
            if kind == "sparse_tensor":
                dims = r2.choice([[2, 2], [3, 2], [2, 3]] if not quick else [[2, 2], [2, 2], [3, 2]])
            s = gen_system(r2, kind, dims)
            if kind == "sparse_ladder":
                # make use_wbm a non-trivial permutation (matching with a cycle >= 3)
                for _ in range(40):
                    if matching_max_cycle(s) >= 3:
                        break
                    s = gen_system(r2, kind, dims)
            # the first systems (one structurally sparse, one generic, one with an empty
            # first level) see every option combination; later ones a sample
            sub = cfgs if (done < 3 or not quick) else r2.sample(cfgs, 10) + [c for c in cfgs if c[0] == "svd"]
            if done < 2 or not quick:
                sub = sub + HARD_ITER_CONFIGS
            if oracle_system(ctx, s, sub, r2, stats, fmts):
                done += 1
                stats["systems"] += 1
                if done <= (2 if quick else 6):
                    oracle_mesolve(ctx, s, stats)
                if done <= (2 if quick else 5):
                    oracle_pinv(ctx, s, stats, r2)

    def search(failed, log):
        # a proof broke: look for an implementation-level counterexample
        oracle_all(4, random.Random(ctx.seed + 99))
        if not ctx.violations and any("C18_gen" in str(f) or "make:" in str(f) for f in failed):
            targeted_search(ctx, "corr:steadystate_direct", "generated bookkeeping term",
                            random.Random(ctx.seed * 31 + 7), stats)

    # (T) regenerate the bookkeeping terms from the current source
    targets, props = ["Props/C18.vo"], ["Props/C18.v"]
    try:
        gen = tx_c18_bookkeeping.generate()
        ctx.add_obligation("translator:tx_c18_bookkeeping reads _permute_wbm/_permute_rcm/"
                           "_reverse_rcm/_steadystate_direct", True)
        ctx.sample({"generated": gen["text"][gen["text"].index("Definition g_permute_wbm"):][:400]})
        targets = ["Gen/C18_bookkeeping.vo", "Props/C18.vo", "Props/C18_gen.vo"]
        props = ["Props/C18.v", "Props/C18_gen.v"]
    except tx_c18_bookkeeping.Unsupported as ex:
        ctx.add_obligation("translator:tx_c18_bookkeeping reads _permute_wbm/_permute_rcm/"
                           "_reverse_rcm/_steadystate_direct", False)
        ctx.cov["obligations"] += len(vlib.theorems_in("Props/C18_gen.v"))
        before = len(ctx.violations)
        search(["translator:C18_gen"], str(ex))
        if len(ctx.violations) == before:
            ctx.violation("translator:steadystate.py", str(ex)[:120],
                          "the bookkeeping of steadystate.py left the translated subset: %s; "
                          "theorems of Props/C18_gen.v are no longer shown" % ex,
                          {"reason": str(ex)}, found_input=False)
    vlib.standard_proof_step(ctx, targets, props, search)

    # ---------------------------------------------------------- correspondence
    nd = 24 if quick else 160
    dcases = []
    cdir = os.path.join(vlib.VERIF, "corpus", "C18")
    if os.path.isdir(cdir):
        for f in sorted(os.listdir(cdir)):
            dcases.append(json.load(open(os.path.join(cdir, f))))
    while len(dcases) < nd:
        dcases.append(gen_direct_case(rng, quick))
    drecs = []
    dist = {"direct_fmt": {}, "direct_solver": {}, "perm": {}, "null_method": {}}
    exprs = []
    for c in dcases:
        try:
            rec = impl_direct(c)
        except Exception as e:
            corr_violation("corr:steadystate_direct", "raises:" + type(e).__name__,
                          "steadystate(direct) with scripted solver raised %s: %s"
                          % (type(e).__name__, str(e)[:200]), {"case": c})
            rec = None
        drecs.append(rec)
        if rec is not None:
            exprs.append(direct_expr(c, rec))
            dist["direct_fmt"][c["fmt"]] = dist["direct_fmt"].get(c["fmt"], 0) + 1
            dist["direct_solver"][str(c["solver"])] = dist["direct_solver"].get(str(c["solver"]), 0) + 1
            pk = "rcm=%s wbm=%s" % (rec["rcm"], rec["wbm"])
            dist["perm"][pk] = dist["perm"].get(pk, 0) + 1
    nn = 18 if quick else 120
    ncases = [gen_null_case(rng, m) for m in ["eigen", "svd", "power"] for _ in range(nn // 3)]
    nrecs = []
    for c in ncases:
        try:
            nrecs.append(impl_null(c))
        except Exception as e:
            corr_violation("corr:steadystate_" + c["method"], "raises:" + type(e).__name__,
                          "steadystate(%s) with scripted kernel raised %s: %s"
                          % (c["method"], type(e).__name__, str(e)[:200]), {"case": c})
            nrecs.append(None)
        dist["null_method"][c["method"]] = dist["null_method"].get(c["method"], 0) + 1
    nexprs = [null_expr(c) for c in ncases]
    # power loop counter
    lexprs = []
    for c, r in zip(ncases, nrecs):
        if c["method"] == "power" and r is not None:
            lexprs.append("power_result %d%%nat (fun j => if j == 0%%nat then %s else (%d%%nat <= j))"
                          % (c["maxiter"], vlib.cbool(r["conv0"]), c["k"]))
    npv = 6 if quick else 40
    pcases = [gen_pinv_case(rng) for _ in range(npv)]
    precs = []
    for c in pcases:
        try:
            precs.append(impl_pinv(c))
        except Exception as e:
            corr_violation("corr:pseudo_inverse", "raises:" + type(e).__name__,
                          "pseudo_inverse with scripted solver raised %s: %s"
                          % (type(e).__name__, str(e)[:200]), {"case": c})
            precs.append(None)
    pexprs = [pinv_expr(c, r) for c, r in zip(pcases, precs)]
    hcases = [{"n": 2, "depth": 1, "seed": rng.randrange(1 << 30)},
              {"n": 2, "depth": 2, "seed": rng.randrange(1 << 30)}]
    if not quick:
        hcases += [{"n": 3, "depth": 1, "seed": rng.randrange(1 << 30)},
                   {"n": 2, "depth": 3, "seed": rng.randrange(1 << 30)}]
    hrecs = []
    hexprs = []
    for c in hcases:
        try:
            r = impl_heom(c)
            hrecs.append(r)
            hexprs.append("gz_heom_L %d%%nat %d%%nat %s" % (c["n"], r["P"], gzmat(r["G"])))
        except Exception as e:
            corr_violation("corr:heom.steady_state", "raises:" + type(e).__name__,
                          "HEOMSolver.steady_state with scripted generator raised %s: %s"
                          % (type(e).__name__, str(e)[:200]), {"case": c})
            hrecs.append(None)
            hexprs.append("gz_heom_L 1%nat 1%nat [::]")
    # propagator loop: scripted expm (a permutation channel) and distance test
    ecases = [gen_expm_case(rng) for _ in range(10 if quick else 80)]
    erecs = []
    for c in ecases:
        try:
            erecs.append(impl_expm(c))
        except Exception as e:
            ctx.violation("corr:steadystate_propagator", "raises:" + type(e).__name__,
                          "steadystate(propagator) with scripted expm raised %s: %s"
                          % (type(e).__name__, str(e)[:200]), {"case": c})
            erecs.append(None)
    try:
        eexprs = []
        for c in ecases:
            eexprs.append("expm_result %d%%nat (fun k => (%d%%nat <= k))" % (c["max_iter"], c["kconv"]))
            eexprs.append("[seq gz_sq_iter %d%%nat %s k | k <- iota 0 %d]" % (
                c["n"] ** 2, gzmat(expm_P(c)), min(c["kconv"], c["max_iter"] - 1) + 1))
        evals = vlib.coq_eval_values("cases_C18_e", HEADER, eexprs, chunk=40)
        for i, (c, rec) in enumerate(zip(ecases, erecs)):
            if rec is None:
                continue
            mres = vlib.parse_coq_value(evals[2 * i])
            Ps = [pmat(m) for m in vlib.parse_coq_value(evals[2 * i + 1])]
            ctx.count_case(("expm", json.dumps(c, sort_keys=True)))
            ctx.cov["traces_validated_against_impl"] += 1
            model_raises = mres is None
            bad = None
            if model_raises != rec["raised"]:
                bad = "model says %s, implementation %s" % (
                    "raise" if model_raises else "return in iteration %s" % mres[1],
                    "raised" if rec["raised"] else "returned")
            elif not model_raises:
                k = mres[1]
                if rec["dist_calls"] != k + 1 or rec["expm_calls"] != 1:
                    bad = "iteration count: %d distance tests for return in iteration %d" % (
                        rec["dist_calls"], k)
                else:
                    n = c["n"]
                    x = np.array([[complex(a, b) for a, b in row] for row in c["rho"]])
                    for j in range(k + 1):
                        y = (Ps[j] @ x.reshape(-1, order="F")).reshape((n, n), order="F")
                        x = (y + y.conj().T) / (2 * np.trace(y))
                    if not np.array_equal(x, rec["out"]):
                        bad = "returned state is not N(P^(2^k) ... N(P rho))"
            if bad:
                corr_violation("corr:steadystate_propagator", "loop",
                               "propagator loop: " + bad, {"case": c})
    except RuntimeError as e:
        ctx.violation("corr:C18:model-eval", "coqc-expm", "model evaluation failed",
                      {"log": str(e)}, found_input=False)
    ndsp = 40 if quick else 300
    dcs = [gen_dispatch_case(rng) for _ in range(ndsp)]
    # the decision table completely: every flag class for every routine
    for name in ("gmres", "lgmres", "bicgstab"):
        for c in (0, 1, 200, -1, -10):
            dcs.append({"kind": "iter", "tag": 9, "rest": [c], "name": name, "fmt": "csr", "N": 3})
    dimpl = [impl_dispatch(c) for c in dcs]
    try:
        dvals = vlib.coq_eval_values("cases_C18_d", HEADER, [dispatch_expr(c) for c in dcs], chunk=400)
        for c, im, mv in zip(dcs, dimpl, dvals):
            mp = vlib.parse_coq_value(mv)
            model = (mp[0], mp[1]) if isinstance(mp, tuple) else mp
            ctx.count_case(("dispatch", json.dumps(c, sort_keys=True)))
            ctx.cov["traces_validated_against_impl"] += 1
            if tuple(model) != tuple(im):
                corr_violation("corr:solve_dispatch", "%s->%s" % (model[0], im[0]),
                               "solve_csr_dense/solve_dia_dense: scripted %s returning %s: the model "
                               "says %s, the implementation %s" % (
                                   c["name"], "(x, %s)" % c["rest"] if c["rest"] is not None else "an array",
                                   list(model), list(im)), {"case": c, "model": list(model), "impl": list(im)})
    except RuntimeError as e:
        ctx.violation("corr:C18:model-eval", "coqc-dispatch", "model evaluation failed",
                      {"log": str(e)}, found_input=False)
    dist["dispatch_kind"] = {}
    for c in dcs:
        dist["dispatch_kind"][c["kind"]] = dist["dispatch_kind"].get(c["kind"], 0) + 1
    try:
        vals = vlib.coq_eval_values("cases_C18", HEADER,
                                    exprs + nexprs + lexprs + pexprs + hexprs, chunk=12)
    except RuntimeError as e:
        ctx.violation("corr:C18:model-eval", "coqc", "model evaluation failed",
                      {"log": str(e)}, found_input=False)
        vals = None
    if vals is not None:
        pos = 0
        # direct
        for c, rec in zip(dcases, drecs):
            if rec is None:
                continue
            v = vlib.parse_coq_value(vals[pos])
            pos += 1
            mL, mb, mpost = pmat(v[0]), np.array([pz(e) for e in v[1]]), pmat(v[2])
            n = int(np.prod(c["dims"]))
            nz = sum(1 for row in c["L"] for e in row if e != [0, 0])
            ctx.count_case(("direct", json.dumps(c, sort_keys=True)), nontrivial=nz >= 4)
            ctx.cov["traces_validated_against_impl"] += 1
            diffs = []
            if not np.array_equal(mL, rec["L"]):
                diffs.append("matrix handed to the solver")
            if not np.array_equal(mb, rec["b"]):
                diffs.append("right-hand side handed to the solver")
            if not np.array_equal(mpost, rec["out2"]):
                diffs.append("post-processing of the solver answer")
            if rec["dims"] != [c["dims"], c["dims"]]:
                diffs.append("dims of the result")
            if rec["solve_calls"] != 1:
                diffs.append("number of solver calls")
            if diffs:
                # does the implementation violate the property on this case?
                # x := the (exact) solution of what the model says the system
                # is; check the implementation's system against it
                sig = diffs[0]
                corr_violation("corr:steadystate_direct", sig,
                              "model and _steadystate_direct disagree on: %s" % diffs,
                              {"case": c, "impl_L": str(rec["L"].tolist()),
                               "impl_b": str(rec["b"].tolist()),
                               "model_L": str(mL.tolist()), "model_b": str(mb.tolist()),
                               "impl_out2": str(rec["out2"].tolist()),
                               "model_out2": str(mpost.tolist()),
                               "permuted": [rec["rcm"], rec["wbm"]]})
        # null-vector methods
        li = 0
        lvals = vals[len(exprs) + len(nexprs): len(exprs) + len(nexprs) + len(lexprs)]
        for c, rec in zip(ncases, nrecs):
            v = vlib.parse_coq_value(vals[pos])
            pos += 1
            if rec is None:
                continue
            ctx.count_case(("null", json.dumps(c, sort_keys=True)))
            ctx.cov["traces_validated_against_impl"] += 1
            if c["method"] == "eigen":
                mcalls, v = list(v[0]), v[1]
                if mcalls != rec.get("eig_calls"):
                    corr_violation("corr:steadystate_eigen", "fallback-decision",
                                   "_steadystate_eigen called the eigensolver with sparse=%s, the "
                                   "model says %s (sparse=%s, eigenvalue test fails=%s)"
                                   % (rec.get("eig_calls"), mcalls, c["sparse"], c["big"]), {"case": c})
            mV, md = pmat(v[0]), pz(v[1])
            if c["method"] == "power":
                mres = vlib.parse_coq_value(lvals[li])
                li += 1
                model_raises = mres is None
                model_it = None if mres is None else mres[1]
                if model_raises != rec["raised"] or (not model_raises and model_it != rec["solves"]):
                    corr_violation("corr:steadystate_power", "loop-counter",
                                  "power loop: model says %s, implementation %s after %d solves"
                                  % ("raise" if model_raises else "return after %s" % model_it,
                                     "raised" if rec["raised"] else "returned", rec["solves"]),
                                  {"case": c})
                if rec["raised"]:
                    continue
            ed = exact_div(mV, md)
            if ed is None:
                continue
            expected, exact = ed
            if not exact:
                continue
            if not np.array_equal(expected, rec["out"]) or rec["dims"] != [c["dims"], c["dims"]]:
                corr_violation("corr:steadystate_" + c["method"], "post-processing",
                              "model and _steadystate_%s disagree on the normalisation of a "
                              "scripted null vector" % c["method"],
                              {"case": c, "impl": str(rec["out"].tolist()),
                               "model_numerator": str(mV.tolist()), "model_divisor": str(md)})
        pos += len(lexprs)
        for c, rec in zip(pcases, precs):
            v = vlib.parse_coq_value(vals[pos])
            pos += 1
            if rec is None:
                continue
            ctx.count_case(("pinv", json.dumps(c, sort_keys=True)))
            ctx.cov["traces_validated_against_impl"] += 1
            mR = pmat(v)
            n = int(np.prod(c["dims"]))
            shift = 1j * (c["w"] if c["w"] else 1e-15)
            Lc = np.array([[complex(a, b) for a, b in row] for row in c["L"]])
            Aexp = Lc + shift * np.eye(n * n)
            if rec.get("rcm"):
                # A' = permute.indices(L + s, perm, perm): A'[perm[i], perm[j]] = (L+s)[i, j]
                pr = list(c["rcm_order"])
                Ap = np.zeros_like(Aexp)
                for i in range(n * n):
                    for j in range(n * n):
                        Ap[pr[i], pr[j]] = Aexp[i, j]
                Aexp = Ap
                Lc = Aexp - shift * np.eye(n * n)
                dist.setdefault("pinv_rcm", 0)
                dist["pinv_rcm"] += 1
            okA = np.array_equal(rec["A"], Aexp)
            if c["w"] is None and c["method"] == "splu":
                # CSR arithmetic tidies part of the 1e-15j regularisation away
                # (auto_tidyup, C01 territory); it is a numerical device [NUM]:
                # only require that the matrix is L up to 2e-15 on the diagonal
                okA = bool(np.abs(rec["A"] - Lc).max() <= 2e-15)
            if not np.array_equal(mR, rec["R"]) or not okA or rec["dims"] != [[c["dims"]] * 2] * 2:
                corr_violation("corr:pseudo_inverse", "projector-assembly",
                              "model and pseudo_inverse disagree (Q, R = Q @ LIQ or the shift)",
                              {"case": c, "impl_R": str(rec["R"].tolist()), "model_R": str(mR.tolist()),
                               "shift_ok": bool(okA)})
        for c, rec in zip(hcases, hrecs):
            v = vlib.parse_coq_value(vals[pos])
            pos += 1
            if rec is None:
                continue
            ctx.count_case(("heom", json.dumps(c, sort_keys=True)))
            ctx.cov["traces_validated_against_impl"] += 1
            mL = pmat(v)
            n = c["n"]
            b_ok = np.array_equal(rec["b"], np.eye(rec["P"])[0])
            sol = rec["sol"]
            R0 = sol[: n * n].reshape((n, n), order="F")
            post_ok = np.array_equal(rec["rho2"], R0 + R0.conj().T)
            if not np.array_equal(mL, rec["L"]) or not b_ok or not post_ok:
                corr_violation("corr:heom.steady_state", "row-replacement",
                              "model and HEOMSolver.steady_state disagree on the modified "
                              "generator / rhs / post-processing",
                              {"case": c, "b_ok": bool(b_ok), "post_ok": bool(post_ok)})
    ctx.cov["input_distribution"] = dist
    if dcases:
        ctx.sample({"direct_case": {k: dcases[-1][k] for k in ("dims", "fmt", "solver", "kw", "method")},
                    "permuted": None if drecs[-1] is None else [drecs[-1]["rcm"], drecs[-1]["wbm"]]})
    ctx.sample({"null_case": {k: ncases[0][k] for k in ("dims", "method", "v")}})

    # ------------------------------------------------------------------ oracle
    witness_svd(ctx)
    witness_power_maxiter(ctx)
    witness_pinv_default(ctx)
    witness_eigen_sparse(ctx)
    oracle_all(5 if quick else 40, rng)
    oracle_heom(ctx, stats, rng, quick)
    oracle_jc(ctx, stats, quick)
    flush_deferred()
    ctx.cov["oracle_stats"] = stats
    ctx.sample({"oracle_stats": dict(stats)})
    ctx.cov["explanation"] = (
        "Theorems (Props/C18.v) hold for every field with conjugation, every dimension, every "
        "weight != 0, all permutations and every answer of the oracles; the executable model they "
        "are stated over is compared exactly with steadystate.py under scripted kernels "
        "(matrix and right-hand side handed to the solver, reversal of the permutation, "
        "Hermitisation, normalisation of null vectors of arbitrary phase, pseudo-inverse projector, "
        "HEOM row replacement, power-loop counter).  Real runs of all methods/solvers/options "
        "against an exact rational stationary state, the mesolve long-time limit, pseudo-inverse "
        "relations and the HEOM fixed point are tolerance checks (validation/exploration): "
        "positivity, convergence of power/propagator/iterative methods and preconditioners are "
        "only explored [NUM].")


def replay(ctx, payload):
    d = payload["detail"]
    site = payload["site"]
    if site.startswith("steadystate:") and "system" in d and "cfg" in d:
        s = d["system"]
        cfg = (d["cfg"][0], d["cfg"][1], d["cfg"][2])
        H, C = sys_arrays(s)
        L = liouvillian_np(H, C)
        rho_ex = exact_rho(s)
        guard = [] if d.get("guard") else None
        try:
            r = run_one(s, cfg, d.get("fmt", "csr"), d.get("input", "H"), d.get("seed", 0), guard)
        except Exception as e:
            ctx.violation(site, payload["signature"], "raises %s" % e, d)
            return
        if guard:
            ctx.violation(site, payload["signature"], "reproduced: %s" % guard, d)
            return
        bad = check_result(s, L, rho_ex, r, cfg[0], cfg[1],
                           loose_tol(cfg[2], cfg[1], d.get("fmt", "csr")))
        if bad:
            ctx.violation(site, payload["signature"], "reproduced: %s" % bad, d)
    elif site == "steadystate:power":
        witness_power_maxiter(ctx)
    elif site == "steadystate:eigen" and "witness" in d:
        witness_eigen_sparse(ctx)
    elif site == "pseudo_inverse" and isinstance(d.get("system"), str):
        witness_pinv_default(ctx)
    elif site == "pseudo_inverse" and isinstance(d.get("system"), dict):
        stats = {"pinv_runs": 0, "pinv_ok": 0}
        oracle_pinv(ctx, d["system"], stats, random.Random(0))
    elif site.startswith("corr:steadystate_direct"):
        c = d["case"]
        rec = impl_direct(c)
        vals = vlib.coq_eval_values("cases_C18_r", HEADER, [direct_expr(c, rec)])
        v = vlib.parse_coq_value(vals[0])
        if not (np.array_equal(pmat(v[0]), rec["L"]) and np.array_equal(pmat(v[2]), rec["out2"])
                and np.array_equal(np.array([pz(e) for e in v[1]]), rec["b"])):
            ctx.violation(site, payload["signature"], "reproduced", d)
    else:
        ctx.log("no replay procedure for site", site)
