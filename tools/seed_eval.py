"""Confirm an independently written change (seeded mutant) and run our check
against it.

usage: seed_eval.py <worktree> <PID> <name> [tests...]

<worktree> is the writer's scratch worktree with the change applied and
OUT/{patch.diff,demo.py|demo_test.py,meta.json}.  Steps:
  1. the patch in OUT/ is what differs from HEAD in the worktree;
  2. the demo fails on the worktree and passes on the unchanged /repo;
  3. the related existing tests still pass on the worktree (stable list);
  4. `VERIF_REPO=<worktree> ./check PID --tier quick` -> caught or missed.
The result is stored in /verif/seeded/<name>/ (patch.diff, demo, meta.json).
"""
import json
import os
import shutil
import subprocess
import sys

VERIF = os.path.dirname(os.path.dirname(os.path.abspath(__file__)))


def sh(cmd, **kw):
    p = subprocess.run(cmd, shell=True, stdout=subprocess.PIPE, stderr=subprocess.STDOUT, **kw)
    return p.returncode, p.stdout.decode("utf8", "replace")


def main():
    for k in ("OMP_NUM_THREADS", "OPENBLAS_NUM_THREADS", "MKL_NUM_THREADS"):
        os.environ[k] = "1"
    wt, pid, name = sys.argv[1:4]
    # qutip keeps compiled-coefficient state under ~/.qutip and
    # test_coefficient.py wipes it at import: never share HOME between runs
    home = "/tmp/seed_home_%s" % name
    os.makedirs(home, exist_ok=True)
    os.environ["HOME"] = home
    tests = sys.argv[4:]
    out = os.path.join(wt, "OUT")
    meta = json.load(open(os.path.join(out, "meta.json")))
    res = {"property": pid, "writer_meta": meta, "worktree_base": sh("git -C %s rev-parse --short HEAD" % wt)[1].strip()}
    # 1. patch
    rc, diff = sh("git -C %s diff -- qutip" % wt)
    patch = open(os.path.join(out, "patch.diff")).read()
    res["patch_matches_worktree"] = diff.strip() == patch.strip()
    if not res["patch_matches_worktree"]:
        patch = diff          # trust what is actually applied
    rc, o = sh("git -C /repo apply --check -", input=patch.encode())
    res["applies_to_repo_head"] = rc == 0
    # 2. demo
    demo = None
    for cand in ("demo.py", "demo_test.py"):
        if os.path.exists(os.path.join(out, cand)):
            demo = cand
    res["demo"] = demo
    if demo:
        runner = "/venv/bin/python -W ignore %s" if demo == "demo.py" else \
                 "/venv/bin/python -m pytest -q -p no:cacheprovider %s"
        env_m = dict(os.environ, PYTHONPATH=wt)
        env_c = dict(os.environ, PYTHONPATH="/repo")
        tmpd = "/tmp/seed_demo_%s" % name
        os.makedirs(tmpd, exist_ok=True)
        shutil.copy(os.path.join(out, demo), tmpd)
        rc_m, o_m = sh("cd %s && timeout 900 " % tmpd + runner % demo, env=env_m)
        rc_c, o_c = sh("cd %s && timeout 900 " % tmpd + runner % demo, env=env_c)
        shutil.rmtree(tmpd, ignore_errors=True)
        res["demo_fails_with_change"] = rc_m != 0
        res["demo_passes_without_change"] = rc_c == 0
        res["demo_output_with_change"] = o_m[-600:]
        if rc_c != 0:
            res["demo_output_without_change"] = o_c[-600:]
    # 3. tests
    if tests:
        xml = "/tmp/seed_%s.xml" % name
        rc, o = sh("cd %s && PYTHONPATH=%s timeout 3000 /venv/bin/python -m pytest -q -p no:cacheprovider "
                   "-n 6 --junitxml=%s %s" % (wt, wt, xml, " ".join(tests)))
        res["tests_cmd"] = "pytest -n 6 " + " ".join(tests)
        res["tests_tail"] = o.strip().split("\n")[-1]
        rc, o = sh("/venv/bin/python %s/tools/baseline_compare.py %s qutip.tests" % (VERIF, xml))
        res["baseline_compare"] = o.strip().split("\n")[:8]
        res["existing_tests_pass"] = rc == 0
        os.remove(xml)
    # 4. our check, on a tree that is /repo's CURRENT HEAD plus the patch (the
    #    writer's worktree may predate later fix commits, whose absence would
    #    be reported as violations of their own)
    head = sh("git -C /repo rev-parse --short HEAD")[1].strip()
    tree = wt
    if head != res["worktree_base"]:
        rt = "/tmp/regress_%s" % name
        sh("git -C /repo worktree remove --force %s; rm -rf %s" % (rt, rt))
        rc, o = sh("%s/tools/mk_seed_wt.sh %s" % (VERIF, rt))
        pf = "/tmp/regress_%s.patch" % name
        open(pf, "w").write(patch if patch.endswith("\n") else patch + "\n")
        rc, o = sh("git -C %s apply %s" % (rt, pf))
        os.remove(pf)
        if rc == 0:
            if ".pyx" in patch or ".pxd" in patch:
                sh("cd %s && /venv/bin/python setup.py build_ext --inplace -j 4" % rt)
            tree = rt
        else:
            sh("git -C /repo worktree remove --force %s; rm -rf %s" % (rt, rt))
    res["check_tree"] = "HEAD %s + patch" % head if tree != wt else "writer's worktree (%s)" % res["worktree_base"]
    env = dict(os.environ, VERIF_REPO=tree)
    rc, o = sh("cd %s && timeout 2400 ./check %s --tier quick" % (VERIF, pid), env=env)
    lines = [l for l in o.split("\n") if l.startswith("VIOLATION") or l.startswith("KNOWN-FINDING")
             or "  ->" in l]
    res["check_cmd"] = "VERIF_REPO=<tree with the change> ./check %s --tier quick" % pid
    res["check_exit"] = rc
    res["check_lines"] = lines[:12]
    res["caught"] = rc == 1 and any(l.startswith("VIOLATION property=%s" % pid) for l in lines)
    res["caught_with_input"] = any(l.startswith("VIOLATION") and "no-failing-input-found" not in l
                                   for l in lines)
    if tree != wt:
        sh("git -C /repo worktree remove --force %s; rm -rf %s; git -C /repo worktree prune" % (tree, tree))
        shutil.rmtree(os.path.join(VERIF, ".evidence_scratch", os.path.basename(tree)), ignore_errors=True)
    # restore generated files that depend on the tree under test
    sh("cd %s && /venv/bin/python lib/gen_all.py" % VERIF)
    d = os.path.join(VERIF, "seeded", name)
    os.makedirs(d, exist_ok=True)
    with open(os.path.join(d, "patch.diff"), "w") as f:
        f.write(patch if patch.endswith("\n") else patch + "\n")
    if demo:
        shutil.copy(os.path.join(out, demo), os.path.join(d, demo))
    out_meta = {
        "property": pid,
        "summary": meta.get("summary"),
        "needs": meta.get("needs"),
        "files": meta.get("files"),
        "origin": "written by an independent sub-agent that saw only the property text and its own worktree",
        "confirmed": {
            "patch_matches_worktree": res["patch_matches_worktree"],
            "applies_to_repo_head_at_collection": res["applies_to_repo_head"],
            "base_commit": res["worktree_base"],
            "demo": demo,
            "demo_fails_with_change": res.get("demo_fails_with_change"),
            "demo_passes_without_change": res.get("demo_passes_without_change"),
            "existing_tests": res.get("tests_cmd"),
            "existing_tests_pass": res.get("existing_tests_pass"),
            "baseline_compare": res.get("baseline_compare"),
        },
        "what_we_ran": res["check_cmd"],
        "check_tree": res["check_tree"],
        "check_exit": res["check_exit"],
        "caught": res["caught"],
        "caught_with_concrete_input": res["caught_with_input"],
        "check_lines": res["check_lines"],
    }
    json.dump(out_meta, open(os.path.join(d, "meta.json"), "w"), indent=1)
    print(json.dumps({k: out_meta[k] for k in ("property", "summary", "caught", "caught_with_concrete_input",
                                                "check_exit")}, indent=1))
    print(json.dumps(out_meta["confirmed"], indent=1))
    for l in res["check_lines"][:6]:
        print(l)


if __name__ == "__main__":
    main()
