"""C19 - the hierarchy (HEOM) solver: limits and bath re-writing.

Proof step:   coq/Props/C19.v (labels, idx/next/prev, block keys, generator
              coefficient algebra over any commutative ring, exponent
              combination, result object).
Tie (K):      the Coq model (coq/Model/C19.v) is evaluated by vm_compute and
              compared exactly with the real implementation on generated
              inputs:
                * HierarchyADOs / state_number_enumerate: dims, labels, idx,
                  next, prev for every label and position,
                * ExponentialBosonicEnvironment.combine with BathExponent
                  objects, CFExponent.coefficient,
                * the list handed by HEOMSolver._rhs/_GatherHEOMRHS.gather to
                  _from_csr_blocks (block keys, order, every block as an exact
                  Gaussian-integer matrix) and the assembled HEOMSolver.rhs(0),
                * csr._from_csr_blocks on random integer CSR blocks (row_index,
                  col_index, data arrays).
Oracle:       the property itself on real HEOMSolver objects with exact
              Gaussian-integer data: generator == independent NumPy reference,
              trace functional of the rho_0 block row, depth 0 / zero coupling
              limits, exponent permutation, splitting into several baths,
              merging equal-rate exponents (intertwiner with multinomial
              weights), environment API == bath API, time-dependent system,
              state packing round trip, final_ado_state.
"""
import copy
import itertools
import json
import os
import random

import numpy as np

import vlib
from vlib import cnat, cbool, clist
import c19_impl as I

HEADER = ("From Coq Require Import List ZArith Bool.\nImport ListNotations.\n"
          "From QV Require Import Model.C19 Model.C19_merge Model.C19_ferm.\n")

TYPES = {"R": "TR", "I": "TI", "RI": "TRI", "+": "TPlus", "-": "TMinus"}
RTYPES = {v: k for k, v in TYPES.items()}


# ----------------------------------------------------------------- Coq terms
def cg(g):
    return "(%d, %d)%%Z" % (g[0], g[1])


def cexp(e):
    return "(mkexp %s %s %s %s %s %s %s)" % (
        TYPES[e["t"]],
        "None" if e["dim"] is None else "(Some %s)" % cnat(e["dim"]),
        cnat(e["q"]), cg(e["ck"]), cg(e["vk"]),
        "None" if e["ck2"] is None else "(Some %s)" % cg(e["ck2"]),
        "None" if e["off"] is None else "(Some (%d)%%Z)" % e["off"])


def unsome(v):
    if v is None or v == "None":
        return None
    assert isinstance(v, tuple) and v[0] == "Some", v
    return v[1]


# ---------------------------------------------------------------- generators
def gi(rng, lo=-2, hi=2):
    return [rng.randint(lo, hi), rng.randint(lo, hi)]


def herm(rng, n):
    M = [[None] * n for _ in range(n)]
    for i in range(n):
        M[i][i] = [rng.randint(-2, 2), 0]
        for j in range(i + 1, n):
            g = gi(rng)
            M[i][j] = g
            M[j][i] = [g[0], -g[1]]
    return M


def anymat(rng, n):
    return [[gi(rng) for _ in range(n)] for _ in range(n)]


def distinct_mats(rng, n, count, make):
    out = []
    while len(out) < count:
        m = make(rng, n)
        if m not in out and any(any(x != [0, 0] for x in r) for r in m):
            out.append(m)
    return out


def bos_exp(rng, nq, dims=(None, None, 2, 3)):
    t = rng.choice(["R", "I", "RI"])
    return {"t": t, "ck": gi(rng), "vk": gi(rng, 0, 3),
            "ck2": gi(rng) if t == "RI" else None, "q": rng.randrange(nq),
            "dim": rng.choice(dims), "off": None}


def ferm_pair(rng, q):
    return [{"t": "+", "ck": gi(rng), "vk": gi(rng, 0, 3), "ck2": None, "q": q,
             "dim": 2, "off": 1},
            {"t": "-", "ck": gi(rng), "vk": gi(rng, 0, 3), "ck2": None, "q": q,
             "dim": 2, "off": -1}]


def gen_spec(rng, kind=None, big=False):
    kind = kind or rng.choice(["bos", "bos", "ferm", "mixed"])
    n = rng.choice([2, 2, 3] if kind == "bos" else [2, 2, 4] if big else [2])
    nq = rng.choice([1, 2])
    if kind == "bos":
        Qs = distinct_mats(rng, n, nq, herm)
        exps = [bos_exp(rng, nq) for _ in range(rng.choice([1, 2, 3]))]
    elif kind == "ferm":
        Qs = distinct_mats(rng, n, nq, anymat)
        exps = []
        for _ in range(rng.choice([1, 2])):
            exps += ferm_pair(rng, rng.randrange(nq))
    else:
        Qs = distinct_mats(rng, n, nq, anymat)
        units = [[bos_exp(rng, nq)] for _ in range(rng.choice([1, 2]))]
        units += [ferm_pair(rng, rng.randrange(nq))]
        rng.shuffle(units)
        exps = [e for u in units for e in u]
    depth = rng.choice([0, 1, 2, 2, 3] + ([4] if big else []))
    odd = kind != "bos" and rng.random() < 0.5
    return {"kind": kind, "n": n, "H": herm(rng, n), "Qs": Qs, "exps": exps,
            "depth": depth, "odd": odd}


# --------------------------------------------------- model block evaluation
def basis_mats(spec):
    N = spec["n"] ** 2
    Qs = [I.mat(q) for q in spec["Qs"]]

    def f(b):
        if b == "BId":
            return np.eye(N, dtype=complex)
        name, k = b
        Q = Qs[spec["exps"][k]["q"]]
        if name == "BPre":
            return I.spre(Q)
        if name == "BPost":
            return I.spost(Q)
        if name == "BPreD":
            return I.spre(Q.conj().T)
        if name == "BPostD":
            return I.spost(Q.conj().T)
        raise ValueError(b)
    return f


def eval_model_blocks(spec, mblocks):
    """[(r, c, [(re, im, basis)])] -> [(r, c, dense matrix)]"""
    f = basis_mats(spec)
    out = []
    N = spec["n"] ** 2
    for r, c, terms in mblocks:
        M = np.zeros((N, N), dtype=complex)
        for re, im, b in terms:
            M = M + complex(re, im) * f(b)
        out.append((r, c, M))
    return out


def blocks_expr(spec):
    return "g_blocks %s %s %s" % (clist(spec["exps"], cexp), cnat(spec["depth"]),
                                  cbool(spec["odd"]))


# ------------------------------------------------------------------ oracles
def sig_of(kind, spec):
    return {"oracle": kind, "bath": spec.get("kind", "?"),
            "odd": bool(spec.get("odd", False))}


def oracle_generator(spec):
    """all checks on one solver construction; returns list of (kind, what)"""
    bad = []
    N = spec["n"] ** 2
    try:
        s, G = I.real_generator(spec)
    except Exception as e:      # noqa
        return [("construct", "HEOMSolver construction raised %s: %s"
                 % (I.canon_err(e), e))]
    labels, R = I.ref_generator(spec)
    if [tuple(l) for l in s.ados.labels] != labels:
        bad.append(("labels", "HierarchyADOs.labels differ from the multi-indices "
                    "within dims/max_depth"))
        return bad
    if G.shape != R.shape or not np.array_equal(G, R):
        d = np.argwhere(G != R)
        i, j = (int(d[0][0]), int(d[0][1])) if len(d) else (-1, -1)
        bad.append(("reference", "rhs(0) differs from the reference generator at "
                    "entry (%d,%d): block (%s -> %s): got %s expected %s" % (
                        i, j, labels[j // N], labels[i // N], G[i, j], R[i, j])))
    if not spec["odd"]:
        t = I.trace_functional(spec["n"], len(labels))
        if np.any(t @ G != 0):
            bad.append(("trace", "even-parity generator does not conserve tr(rho_0)"))
    if spec["depth"] == 0:
        H = I.mat(spec["H"])
        L = -1j * (I.spre(H) - I.spost(H))
        if not np.array_equal(G, L):
            bad.append(("depth0", "depth-0 generator is not the system Liouvillian"))
    return bad


def oracle_zero_coupling(spec):
    sp = copy.deepcopy(spec)
    for e in sp["exps"]:
        e["ck"] = [0, 0]
        if e["ck2"] is not None:
            e["ck2"] = [0, 0]
    s, G = I.real_generator(sp)
    N = sp["n"] ** 2
    H = I.mat(sp["H"])
    L = -1j * (I.spre(H) - I.spost(H))
    bad = []
    if not np.array_equal(G[:N, :N], L):
        bad.append(("zero-coupling", "system block is not L_sys"))
    if np.any(G[N:, :N] != 0):
        bad.append(("zero-coupling", "with vanishing coupling rho_0 still feeds the ADOs"))
    return bad


def oracle_permutation(spec, rng):
    """bosonic exponents may be moved freely (units: single bosonic exponent or
    a fermionic +/- pair; the relative order of fermionic pairs is kept)"""
    exps = spec["exps"]
    units, k = [], 0
    while k < len(exps):
        if exps[k]["t"] in "+-":
            units.append([k, k + 1])
            k += 2
        else:
            units.append([k])
            k += 1
    bos = [u for u in units if len(u) == 1]
    fer = [u for u in units if len(u) == 2]
    slots = ["b"] * len(bos) + ["f"] * len(fer)
    rng.shuffle(slots)
    rng.shuffle(bos)
    bi, fi = iter(bos), iter(fer)
    order = [next(bi) if s == "b" else next(fi) for s in slots]
    pi = [k for u in order for k in u]
    sp2 = copy.deepcopy(spec)
    sp2["exps"] = [copy.deepcopy(exps[j]) for j in pi]
    s1, G1 = I.real_generator(spec)
    s2, G2 = I.real_generator(sp2)
    N = spec["n"] ** 2
    P = I.label_perm_matrix([tuple(l) for l in s1.ados.labels],
                            [tuple(l) for l in s2.ados.labels], pi, N)
    if not np.array_equal(P @ G1, G2 @ P):
        return [("permutation", "re-ordering the exponents by %r does not conjugate "
                 "the generator by the label bijection" % (pi,))], pi
    if not np.array_equal(P[:N, :N], np.eye(N)):
        return [("permutation", "label bijection moves rho_0")], pi
    return [], pi


def oracle_split(spec, rng):
    """the same exponents given as several Bath objects (order preserved), and
    through the environment API"""
    ne = len(spec["exps"])
    cuts = sorted(rng.sample(range(1, ne), min(ne - 1, rng.choice([1, 2])))) if ne > 1 else []
    # never cut through a fermionic pair
    cuts = [c for c in cuts if not (spec["exps"][c - 1]["t"] == "+")]
    parts, a = [], 0
    for c in cuts + [ne]:
        parts.append(list(range(a, c)))
        a = c
    s1, G1 = I.real_generator(spec)
    s2, G2 = I.real_generator(spec, partition=parts)
    if G1.shape != G2.shape or not np.array_equal(G1, G2):
        return [("split", "splitting the bath into %r changes the generator" % (parts,))], parts
    return [], parts


def oracle_env_api(spec):
    """(ExponentialBosonicEnvironment, Q) tuples instead of Bath objects"""
    import qutip
    from qutip.core.environment import (ExponentialBosonicEnvironment, CFExponent)
    from qutip.solver.heom.bofin_solvers import HEOMSolver
    if any(e["t"] in "+-" or e["dim"] is not None for e in spec["exps"]):
        return []
    # consecutive runs of one Q -> one environment each
    runs = []
    for k, e in enumerate(spec["exps"]):
        if runs and runs[-1][0] == e["q"]:
            runs[-1][1].append(e)
        else:
            runs.append((e["q"], [e]))
    baths = []
    for q, es in runs:
        env = ExponentialBosonicEnvironment(
            exponents=[CFExponent(e["t"], I.g2c(e["ck"]), I.g2c(e["vk"]),
                                  None if e["ck2"] is None else I.g2c(e["ck2"]))
                       for e in es], combine=False)
        baths.append((env, qutip.Qobj(I.mat(spec["Qs"][q]))))
    s2 = HEOMSolver(qutip.Qobj(I.mat(spec["H"])), baths, spec["depth"])
    G2 = s2.rhs(0).full()
    s1, G1 = I.real_generator(spec)
    if G1.shape != G2.shape or not np.array_equal(G1, G2):
        return [("env-api", "environment API and bath API give different generators")]
    return []


def merged_groups(exps):
    groups, keys = [], []
    for k, e in enumerate(exps):
        key = (tuple(e["vk"]), e["q"])
        if e["t"] not in "+-" and key in keys:
            groups[keys.index(key)].append(k)
        else:
            keys.append(key if e["t"] not in "+-" else ("f", k))
            groups.append([k])
    return groups


def oracle_merge(spec, rng):
    """duplicate the rate of some exponents, then merge with the real combine;
    T G_unmerged = G_merged T with multinomial weights, T fixes rho_0"""
    import qutip
    from qutip.core.environment import ExponentialBosonicEnvironment
    from qutip.solver.heom.bofin_solvers import HEOMSolver
    from qutip.solver.heom.bofin_baths import Bath
    sp = copy.deepcopy(spec)
    sp["exps"] = [e for e in sp["exps"] if e["t"] not in "+-"]
    if not sp["exps"]:
        return [], None
    sp["odd"] = False
    for e in sp["exps"]:
        e["dim"] = None
    for _ in range(rng.choice([1, 1, 2])):
        e0 = rng.choice(sp["exps"])
        t = rng.choice(["R", "I", "RI"])
        sp["exps"].insert(rng.randrange(len(sp["exps"]) + 1), {
            "t": t, "ck": gi(rng), "vk": list(e0["vk"]),
            "ck2": gi(rng) if t == "RI" else None, "q": e0["q"], "dim": None,
            "off": None})
    sp["depth"] = min(sp["depth"], 3 if len(sp["exps"]) <= 4 else 2)
    s3, G3 = I.real_generator(sp)
    merged = ExponentialBosonicEnvironment.combine(I.make_exponents(sp))
    groups = merged_groups(sp["exps"])
    if len(groups) != len(merged):
        return [("merge", "combine returned %d exponents, %d groups of equal rate "
                 "and coupling operator expected" % (len(merged), len(groups)))], sp
    s4 = HEOMSolver(qutip.Qobj(I.mat(sp["H"])), Bath(merged), sp["depth"])
    G4 = s4.rhs(0).full()
    N = sp["n"] ** 2
    T = I.merge_matrix([tuple(l) for l in s3.ados.labels],
                       [tuple(l) for l in s4.ados.labels], groups, N)
    if not np.array_equal(T @ G3, G4 @ T):
        return [("merge", "merging exponents of equal rate changes the reduced "
                 "dynamics (intertwiner T G = G' T fails)")], sp
    if not np.array_equal(T[:N, :N], np.eye(N)) or np.any(T[:N, N:] != 0):
        return [("merge", "intertwiner does not fix rho_0")], sp
    return [], sp


def oracle_timedep(spec, rng):
    import qutip
    from qutip.solver.heom.bofin_solvers import HEOMSolver
    from qutip.solver.heom.bofin_baths import Bath
    H0 = qutip.Qobj(I.mat(spec["H"]))
    H1m = herm(rng, spec["n"])
    H1 = qutip.Qobj(I.mat(H1m))
    Ht = qutip.QobjEvo([H0, [H1, lambda t: t]])
    s = HEOMSolver(Ht, Bath(I.make_exponents(spec)), spec["depth"],
                   odd_parity=spec["odd"])
    tt = rng.choice([0, 1, 2, 3])
    G = s.rhs(tt).full()
    sp2 = copy.deepcopy(spec)
    sp2["H"] = I.to_gint(I.mat(spec["H"]) + tt * I.mat(H1m))
    _, R = I.ref_generator(sp2)
    if G.shape != R.shape or not np.array_equal(G, R):
        return [("timedep", "rhs(t=%d) of a time-dependent system differs from the "
                 "reference generator of H(t)" % tt)]
    return []


def oracle_packing(spec, rng):
    """_prepare_state / _restore_state / extract are mutually inverse and use
    the vectorisation the generator uses"""
    import qutip
    from qutip.solver.heom.bofin_solvers import HierarchyADOsState
    s, G = I.real_generator(spec)
    n = spec["n"]
    nl = len(s.ados.labels)
    bad = []
    X = np.array([[[complex(rng.randint(-3, 3), rng.randint(-3, 3)) for _ in range(n)]
                   for _ in range(n)] for _ in range(nl)])
    rho = qutip.Qobj(X[0].T.copy())
    st = HierarchyADOsState(rho, s.ados, X)
    v = s._prepare_state(st)
    back = s._restore_state(v)
    if not np.array_equal(back._ado_state, X):
        bad.append(("packing", "restore(prepare(ado_state)) is not the identity"))
    if not np.array_equal(back.rho.full(), rho.full()):
        bad.append(("packing", "restored rho is not extract(0)"))
    for k in range(nl):
        if not np.array_equal(back.extract(k).full(), X[k].T):
            bad.append(("packing", "extract(%d) is not the k-th ADO" % k))
            break
        if not np.array_equal(back.extract(s.ados.labels[k]).full(), X[k].T):
            bad.append(("packing", "extract(label) differs from extract(idx)"))
            break
    v0 = s._prepare_state(rho).to_array().ravel()
    if not (np.array_equal(v0[:n * n], rho.full().ravel("F")) and not np.any(v0[n * n:])):
        bad.append(("packing", "prepare(rho) is not (vec rho, 0, ..., 0)"))
    # the vector layout is the one the generator acts on: block k of the
    # vector is vec_F(extract(k)); d/dt of block 0 from G equals the reference
    vec = v.to_array().ravel()
    labels, R = I.ref_generator(spec)
    ref_vec = np.concatenate([X[k].T.ravel("F") for k in range(nl)])
    if not np.array_equal(vec, ref_vec):
        bad.append(("packing", "prepared vector is not the column-stacked ADO list"))
    return bad


def final_ado_run(opt3):
    """run the real solver over 3 output times; classify what final_ado_state
    hands back: ("ado", k) = the k-th restored ADO state (1-based), ("rho",),
    ("none",), ("no-attr",)"""
    import qutip
    from qutip.solver.heom.bofin_solvers import HEOMSolver, HierarchyADOsState
    from qutip.solver.heom.bofin_baths import BosonicBath
    ss, sf, sa = opt3
    H = qutip.Qobj(np.array([[1, 2], [2, -1]], dtype=complex))
    Q = qutip.Qobj(np.array([[1, 0], [0, -1]], dtype=complex))
    b = BosonicBath(Q, [1], [1], [1], [2], combine=False)
    s = HEOMSolver(H, b, 2, options={"store_states": ss, "store_final_state": sf,
                                     "store_ados": sa, "progress_bar": False})
    seen = []
    orig = s._restore_state

    def spy(state, **kw):
        r = orig(state, **kw)
        seen.append(r)
        return r
    s._restore_state = spy
    rho0 = qutip.Qobj(np.array([[1, 0], [0, 0]], dtype=complex))
    res = s.run(rho0, [0, 0.25, 0.5], e_ops=[Q])
    if not sa:
        return ("no-attr",) if not hasattr(res, "ado_states") else ("attr",), len(seen)
    fas = res.final_ado_state
    if fas is None:
        return ("none",), len(seen)
    if isinstance(fas, HierarchyADOsState):
        ks = [k + 1 for k, x in enumerate(seen) if x is fas
              or np.array_equal(x._ado_state, fas._ado_state)]
        return ("ado", ks[-1] if ks else 0), len(seen)
    return ("rho", type(fas).__name__), len(seen)


def oracle_final_ado_state(opt3):
    """which object final_ado_state returns for (store_states, store_final_state,
    store_ados); exact: types and identity of the stored ADO array"""
    ss, sf, sa = opt3
    cls, nseen = final_ado_run(opt3)
    if not sa:
        return [] if cls == ("no-attr",) else [
            ("final_ado_state", "ado_states present although store_ados is off", "attr")]
    if not (ss or sf):
        return [] if cls == ("none",) else [
            ("final_ado_state", "final_ado_state is not None although nothing is stored",
             cls[0])]
    if cls[0] == "rho":
        return [("final_ado_state",
                 "HEOMResult.final_ado_state returned a %s (the bare system state), not "
                 "the stored HierarchyADOsState: a restart from it drops every ADO"
                 % cls[1], cls[1])]
    if cls != ("ado", nseen) or nseen != 3:
        return [("final_ado_state", "final_ado_state is not the last ADO state of the run",
                 "stale")]
    return []


def oracle_empty_bath(depth):
    """no exponent at all: the hierarchy is the single label () and the
    generator must be L_sys"""
    import qutip
    from qutip.solver.heom.bofin_solvers import HEOMSolver
    from qutip.solver.heom.bofin_baths import Bath
    Hm = [[[1, 0], [2, 1]], [[2, -1], [-1, 0]]]
    H = I.mat(Hm)
    try:
        s = HEOMSolver(qutip.Qobj(H), Bath([]), depth)
        G = s.rhs(0).full()
    except Exception as e:      # noqa
        return [("empty-bath", "HEOMSolver(H, Bath([]), %d) raises %s (%s) instead of "
                 "giving the system Liouvillian" % (depth, I.canon_err(e), e),
                 I.canon_err(e))]
    L = -1j * (I.spre(H) - I.spost(H))
    if G.shape != L.shape or not np.array_equal(G, L):
        return [("empty-bath", "generator of an empty bath is not L_sys", "wrong-generator")]
    return []


# ------------------------------------------------ restart consistency oracle
def restart_systems(rng):
    """small systems with dyadic coefficients: (name, spec-like dict with float
    scale 1/8 applied to the Gaussian-integer data)"""
    fixed = [
        {"name": "spin-boson-R-I", "n": 2, "scale": 8,
         "H": [[[4, 0], [2, 0]], [[2, 0], [-4, 0]]],
         "Qs": [[[[8, 0], [0, 0]], [[0, 0], [-8, 0]]]],
         "exps": [{"t": "R", "ck": [2, 0], "vk": [4, 0], "ck2": None, "q": 0, "dim": None, "off": None},
                  {"t": "R", "ck": [1, 0], "vk": [8, 0], "ck2": None, "q": 0, "dim": None, "off": None},
                  {"t": "I", "ck": [1, -1], "vk": [4, 0], "ck2": None, "q": 0, "dim": None, "off": None}],
         "depth": 2, "odd": False},
        {"name": "fermionic-pair", "n": 2, "scale": 8,
         "H": [[[4, 0], [0, 0]], [[0, 0], [-4, 0]]],
         "Qs": [[[[0, 0], [8, 0]], [[0, 0], [0, 0]]]],
         "exps": [{"t": "+", "ck": [2, 1], "vk": [4, 2], "ck2": None, "q": 0, "dim": 2, "off": 1},
                  {"t": "-", "ck": [2, -1], "vk": [4, -2], "ck2": None, "q": 0, "dim": 2, "off": -1}],
         "depth": 2, "odd": False},
    ]
    sp = gen_spec(rng, kind="bos")
    sp["name"] = "random-bosonic"
    sp["scale"] = 8
    sp["depth"] = min(max(sp["depth"], 1), 2)
    for e in sp["exps"]:
        e["vk"] = [abs(e["vk"][0]) * 2 + 2, e["vk"][1]]      # decaying
    return fixed + [sp]


def restart_solver(sysd, method):
    import qutip
    from qutip.solver.heom.bofin_solvers import HEOMSolver
    from qutip.solver.heom.bofin_baths import Bath, BathExponent
    sc = float(sysd["scale"])
    Qs = [qutip.Qobj(I.mat(q) / sc) for q in sysd["Qs"]]
    exps = [BathExponent(e["t"], e["dim"], Qs[e["q"]], I.g2c(e["ck"]) / sc, I.g2c(e["vk"]) / sc,
                         ck2=None if e["ck2"] is None else I.g2c(e["ck2"]) / sc,
                         sigma_bar_k_offset=e["off"]) for e in sysd["exps"]]
    H = qutip.Qobj(I.mat(sysd["H"]) / sc)
    opts = {"store_ados": True, "store_states": True, "progress_bar": "",
            "method": method}
    if method != "diag":            # diag has no tolerances
        opts.update({"atol": 1e-10, "rtol": 1e-8})
    return HEOMSolver(H, Bath(exps), sysd["depth"], odd_parity=sysd["odd"], options=opts)


RESTART_TOL = 1e-5      # validation threshold, solver tolerances are 1e-10 / 1e-8


def oracle_restart(sysd, method, ntimes=5):
    """restart consistency from EVERY stored auxiliary state.
    exact:      ado_states[k].extract(0) == states[k] bitwise; ado_states[k]
                and states[k] read after the run == deep copies taken by a
                callback e_op when time k was reached
    validation: solver.run(ado_states[k], tlist[k:]).states == full.states[k:]
                within RESTART_TOL, for every k"""
    import qutip
    n = sysd["n"]
    tlist = np.linspace(0, 1.0, ntimes)
    solver = restart_solver(sysd, method)
    rho0 = qutip.Qobj(np.diag([1.0] + [0.0] * (n - 1)).astype(complex))
    snaps = []

    def snap(t, ado_state):
        snaps.append((np.array(ado_state._ado_state, copy=True),
                      np.array(ado_state.rho.full(), copy=True)))
        return 0.0
    full = solver.run(rho0, tlist, e_ops=[snap])
    bad = []
    if len(full.ado_states) != ntimes or len(full.states) != ntimes or len(snaps) != ntimes:
        return [("count", "run over %d times stored %d ADO states / %d states" % (
            ntimes, len(full.ado_states), len(full.states)), {})]
    for k in range(ntimes):
        a = full.ado_states[k]
        if not np.array_equal(a.extract(0).full(), full.states[k].full()):
            bad.append(("extract0", "ado_states[%d].extract(0) differs from states[%d] "
                        "(max abs diff %.3g)" % (k, k, float(np.abs(
                            a.extract(0).full() - full.states[k].full()).max())), {"k": k}))
            break
    for k in range(ntimes):
        if not np.array_equal(full.ado_states[k]._ado_state, snaps[k][0]):
            bad.append(("alias", "ado_states[%d] read after the run differs from the deep "
                        "copy taken when t[%d] was reached (max abs diff %.3g): stored "
                        "auxiliary states are overwritten by later steps" % (
                            k, k, float(np.abs(full.ado_states[k]._ado_state
                                               - snaps[k][0]).max())), {"k": k}))
            break
        if not np.array_equal(full.states[k].full(), snaps[k][1]):
            bad.append(("alias", "states[%d] read after the run differs from the copy "
                        "taken at t[%d]" % (k, k), {"k": k}))
            break
    # validation (tolerance): restart from every stored auxiliary state
    for k in range(ntimes - 1):
        re = solver.run(full.ado_states[k], tlist[k:], e_ops=[lambda t, s: 0.0])
        dev = max(float(np.abs(x.full() - y.full()).max())
                  for x, y in zip(full.states[k:], re.states))
        if not dev <= RESTART_TOL:
            bad.append(("restart", "restart from ado_states[%d] over tlist[%d:] deviates "
                        "from the one-go run by %.3g (> %g)" % (k, k, dev, RESTART_TOL),
                        {"k": k, "deviation": dev}))
            break
    return bad


def run_restart_oracles(ctx, rng):
    from qutip.solver.heom.bofin_solvers import HEOMSolver
    methods = list(HEOMSolver.avail_integrators().keys())
    dist = ctx.cov.setdefault("input_distribution", {}).setdefault("restart", {})
    for sysd in restart_systems(rng):
        for method in methods:
            try:
                bad = oracle_restart(sysd, method)
            except Exception as e:      # noqa
                if method == "diag":
                    # diagonalisation of a defective / non-constant generator may be
                    # refused by the integrator itself: not a restart question
                    ctx.notes.append("restart oracle: method diag skipped on %s (%s)"
                                     % (sysd["name"], I.canon_err(e)))
                    continue
                bad = [("exception", "restart oracle raised %s: %s" % (I.canon_err(e), e), {})]
            dist[method] = dist.get(method, 0) + 1
            ctx.count_case(("restart", sysd["name"], method, json.dumps(sysd["exps"])))
            for check, what, extra in bad:
                ctx.violation("heom:restart", {"check": check, "method": method},
                              "[method=%s, system=%s] %s" % (method, sysd["name"], what),
                              dict({"kind": "restart", "system": sysd, "method": method,
                                    "labelled": "validation (tolerance)" if check == "restart"
                                    else "exact"}, **extra))


# ------------------------------------------------------- labels correspondence
def labels_impl(edims, depth):
    from qutip.solver.heom.bofin_solvers import HierarchyADOs
    from qutip.solver.heom.bofin_baths import BathExponent
    exps = [BathExponent("R", d, None, 1.0, 1.0) for d in edims]
    try:
        a = HierarchyADOs(exps, depth)
    except Exception as e:      # noqa
        return ("error", I.canon_err(e))
    probes = []
    for l in a.labels:
        try:
            ix = a.idx(l)
        except KeyError:
            ix = None
        row = []
        for k in range(len(a.dims)):
            nx = a.next(l, k)
            pv = a.prev(l, k)
            row.append((None if nx is None else list(nx), None if pv is None else list(pv)))
        probes.append((ix, row))
    return ("ok", list(a.dims), [list(l) for l in a.labels], probes)


def labels_oracle(edims, depth, r):
    """property on the implementation, independent of the model"""
    if r[0] != "ok":
        return "HierarchyADOs(%r, %d) raised %s" % (edims, depth, r[1])
    _, dims, labels, probes = r
    want_dims = [d if d else depth + 1 for d in edims]
    if dims != want_dims:
        return "dims %r != %r" % (dims, want_dims)
    ref = [list(x) for x in I.ref_labels(dims, depth)]
    if labels != ref:
        return "labels are not the multi-indices within dims %r and depth %d" % (dims, depth)
    inref = {tuple(x): i for i, x in enumerate(ref)}
    for i, (l, (ix, row)) in enumerate(zip(labels, probes)):
        if ix != i:
            return "idx(labels[%d]) = %r" % (i, ix)
        for k, (nx, pv) in enumerate(row):
            up = l[:k] + [l[k] + 1] + l[k + 1:]
            dn = l[:k] + [l[k] - 1] + l[k + 1:]
            if (nx is None) != (tuple(up) not in inref) or (nx is not None and nx != up):
                return "next(%r, %d) = %r" % (l, k, nx)
            if (pv is None) != (l[k] == 0) or (pv is not None and pv != dn):
                return "prev(%r, %d) = %r" % (l, k, pv)
    return None


def sne_impl(dims, exc):
    from qutip.core.states import state_number_enumerate
    try:
        return ("ok", [list(s) for s in state_number_enumerate(dims, exc)])
    except Exception as e:      # noqa
        return ("error", I.canon_err(e))


# ------------------------------------------------------ combine correspondence
def combine_impl(spec_exps, Qs):
    from qutip.core.environment import ExponentialBosonicEnvironment
    sp = {"Qs": Qs, "exps": spec_exps}
    exps = I.make_exponents(sp)
    coefs = [I.to_gint(np.array([e.coefficient]))[0] for e in exps]
    out = ExponentialBosonicEnvironment.combine(exps)
    res = []
    import qutip
    Qobjs = [I.mat(q) for q in Qs]
    for e in out:
        q = [i for i, m in enumerate(Qobjs) if np.array_equal(m, e.Q.full())]
        res.append({"t": e.type.name, "dim": e.dim, "q": q[0],
                    "ck": I.to_gint(np.array([e.ck]))[0],
                    "vk": I.to_gint(np.array([e.vk]))[0],
                    "ck2": None if e.ck2 is None else I.to_gint(np.array([e.ck2]))[0],
                    "off": e.sigma_bar_k_offset})
    return coefs, res


def coq_exp_to_dict(v):
    # v = ('Build_bexp', t, dim, q, ck, vk, ck2, off) printed as record
    raise NotImplementedError


def formal_sum(exps):
    d = {}
    for e in exps:
        c = complex(*e["ck"])
        if e["t"] == "I":
            c = 1j * c
        if e["t"] == "RI":
            c = c + 1j * complex(*e["ck2"])
        key = (tuple(e["vk"]), e["q"], e["t"] in "+-")
        d[key] = d.get(key, 0) + c
    return {k: v for k, v in d.items() if v != 0}


# -------------------------------------------------- _from_csr_blocks corresp.
def gen_csr(rng, bs, density):
    ri, ci, dat = [0], [], []
    for r in range(bs):
        cols = [c for c in range(bs) if rng.random() < density]
        for c in cols:
            ci.append(c)
            dat.append(gi(rng, -3, 3))
        ri.append(len(ci))
    return {"ri": ri, "ci": ci, "dat": dat}


def gen_blocks_case(rng):
    bs = rng.choice([1, 2, 3])
    nb = rng.choice([1, 2, 3, 4])
    keys = [(r, c) for r in range(nb) for c in range(nb)]
    rng.shuffle(keys)
    keys = sorted(keys[:rng.randint(0, len(keys))])
    mode = rng.choice(["sorted"] * 6 + ["unsorted", "dup"])
    if mode == "unsorted" and len(keys) >= 2:
        i = rng.randrange(len(keys) - 1)
        keys[i], keys[i + 1] = keys[i + 1], keys[i]
    if mode == "dup" and keys:
        keys.insert(rng.randrange(len(keys)), rng.choice(keys))
    ops = []
    for (r, c) in keys:
        dens = rng.choice([0.0, 0.3, 0.6, 1.0])
        ops.append({"r": r, "c": c, "op": gen_csr(rng, bs, dens)})
    return {"bs": bs, "nb": nb, "ops": ops}


def csr_impl(case):
    from qutip.core.data import csr as _csr
    from qutip.core.data import CSR, base
    bs, nb = case["bs"], case["nb"]
    ops = []
    for o in case["ops"]:
        op = o["op"]
        if op["ri"][-1] == 0:
            ops.append(_csr.zeros(bs, bs))
        else:
            ops.append(CSR((np.array([complex(*x) for x in op["dat"]], dtype=complex),
                            np.array(op["ci"], dtype=base.idxint_dtype),
                            np.array(op["ri"], dtype=base.idxint_dtype)),
                           shape=(bs, bs)))
    rows = np.array([o["r"] for o in case["ops"]], dtype=base.idxint_dtype)
    cols = np.array([o["c"] for o in case["ops"]], dtype=base.idxint_dtype)
    arr = np.empty(len(ops), dtype=object)
    for i, o in enumerate(ops):
        arr[i] = o
    try:
        out = _csr._from_csr_blocks(rows, cols, arr, nb, bs)
    except ValueError:
        return ("error", "ValueError")
    sp = out.as_scipy()
    return ("ok", [int(x) for x in sp.indptr], [int(x) for x in sp.indices],
            I.to_gint(np.array(sp.data)) if len(sp.data) else [], out.to_array())


def csr_expr(case):
    def op(o):
        return "(%s, %s, {| ri := %s; ci_ := %s; dat := %s |})" % (
            cnat(o["r"]), cnat(o["c"]), clist(o["op"]["ri"], cnat),
            clist(o["op"]["ci"], cnat), clist(o["op"]["dat"], cg))
    return ("match from_csr_blocks G %s %s %s with Some m => Some (ri G m, ci_ G m, dat G m) "
            "| None => None end" % (clist(case["ops"], op), cnat(case["nb"]), cnat(case["bs"])))


def csr_dense_ref(case):
    bs, nb = case["bs"], case["nb"]
    M = np.zeros((bs * nb, bs * nb), dtype=complex)
    for o in case["ops"]:
        op = o["op"]
        for r in range(bs):
            for j in range(op["ri"][r], op["ri"][r + 1]):
                M[o["r"] * bs + r, o["c"] * bs + op["ci"][j]] += complex(*op["dat"][j])
    return M


# ----------------------------------------------------------------------- run
def report(ctx, kind, what, spec, extra=None, signature=None):
    site = "heom:" + kind
    sig = signature if signature is not None else sig_of(kind, spec or {})
    detail = {"kind": kind, "spec": spec}
    if extra:
        detail.update(extra)
    ctx.violation(site, sig, what, detail)


def guarded(ctx, name, spec, fn, *args):
    """run one oracle; an exception escaping from qutip is itself reported"""
    try:
        return fn(*args)
    except Exception as e:      # noqa
        ctx.violation("heom:" + name, {"oracle": name, "exception": I.canon_err(e)},
                      "oracle %s: implementation raised %s: %s" % (name, I.canon_err(e), e),
                      {"kind": name, "spec": spec})
        return None


def run_oracles(ctx, rng, nspec, big, count=True):
    dist = ctx.cov.setdefault("input_distribution", {}).setdefault("oracle_specs", {})
    for it in range(nspec):
        spec = gen_spec(rng, big=big)
        dist[spec["kind"]] = dist.get(spec["kind"], 0) + 1
        for kind, what in guarded(ctx, "reference", spec, oracle_generator, spec) or []:
            report(ctx, kind, what, spec)
        for kind, what in guarded(ctx, "zero-coupling", spec, oracle_zero_coupling, spec) or []:
            report(ctx, kind, what, spec)
        r = guarded(ctx, "permutation", spec, oracle_permutation, spec, rng)
        if r:
            for kind, what in r[0]:
                report(ctx, kind, what, spec, {"pi": r[1]})
        r = guarded(ctx, "split", spec, oracle_split, spec, rng)
        if r:
            for kind, what in r[0]:
                report(ctx, kind, what, spec, {"partition": r[1]})
        for kind, what in guarded(ctx, "env-api", spec, oracle_env_api, spec) or []:
            report(ctx, kind, what, spec)
        r = guarded(ctx, "merge", spec, oracle_merge, spec, rng)
        if r:
            for kind, what in r[0]:
                report(ctx, kind, what, r[1])
        if it % 3 == 0:
            for kind, what in guarded(ctx, "timedep", spec, oracle_timedep, spec, rng) or []:
                report(ctx, kind, what, spec)
            for kind, what in guarded(ctx, "packing", spec, oracle_packing, spec, rng) or []:
                report(ctx, kind, what, spec)
        if count:
            ctx.count_case(("oracle", json.dumps(spec, sort_keys=True)),
                           nontrivial=spec["depth"] >= 1)


def run_fixed_oracles(ctx):
    combos = list(itertools.product([True, False, None], [True, False], [True, False]))
    for opt3 in combos:
        r = guarded(ctx, "final_ado_state", {"options": list(opt3)},
                    oracle_final_ado_state, opt3)
        for kind, what, got in r or []:
            ctx.violation("HEOMResult.final_ado_state",
                          {"got": got, "states_stored": opt3[0] is True,
                           "final_state_stored": bool(opt3[1])}, what,
                          {"kind": "final_ado_state", "options": list(opt3)})
        ctx.count_case(("final_ado_state", opt3))
    # correspondence of the result-object model (store_ados on): the model is
    # run on the ADO states 1, 2, 3 (three output times)
    sub = [c for c in combos if c[2]]
    exprs = ["final_ado_state nat nat (h_run nat nat (fun a => a) {| o_store_states := %s; "
             "o_store_final := %s; o_store_ados := true |} [1; 2; 3])"
             % (cbool(c[0] is True), cbool(bool(c[1]))) for c in sub]
    vals = vlib.coq_eval_values("cases_C19_result", HEADER, exprs)
    for c, v in zip(sub, vals):
        m = vlib.parse_coq_value(v)
        head = m if isinstance(m, str) else m[0]
        model = ("none",) if head == "FNone" else (
            ("ado", m[-1]) if head == "FAdo" else ("rho",))
        r = guarded(ctx, "final_ado_state", {"options": list(c)}, final_ado_run, c)
        impl = None if r is None else (r[0] if r[0][0] != "rho" else ("rho",))
        ctx.cov["traces_validated_against_impl"] += 1
        if impl is not None and impl != model:
            bad = oracle_final_ado_state(c)
            ctx.violation("corr:HEOMResult.final_ado_state",
                          {"options": [c[0], c[1], c[2]], "impl-violates": bool(bad)},
                          "result-object model and implementation disagree: model %r, "
                          "implementation %r" % (model, impl),
                          {"kind": "final_ado_state", "options": list(c)},
                          found_input=bool(bad))
    for depth in (0, 2):
        for kind, what, got in oracle_empty_bath(depth):
            ctx.violation("heom:empty-bath", {"got": got}, what,
                          {"kind": "empty-bath", "depth": depth})
        ctx.count_case(("empty-bath", depth), nontrivial=False)


def corr_labels(ctx, rng, ncases):
    cases = []
    for _ in range(ncases):
        ne = rng.choice([1, 1, 2, 2, 3, 3, 4])
        edims = [rng.choice([None, None, 1, 2, 2, 3, 4, 0]) for _ in range(ne)]
        depth = rng.choice([0, 1, 2, 3, 4])
        cases.append(("ados", edims, depth))
    for _ in range(ncases // 2):
        ne = rng.choice([1, 2, 3, 4])
        dims = [rng.choice([1, 2, 3, 4, 5]) for _ in range(ne)]
        cases.append(("sne", dims, rng.choice([0, 1, 2, 3, 5, 7])))
    # edge / malformed stream: empty dims (valid since fix 1d30075), dims containing 0
    cases.append(("sne", [], 2))
    cases.append(("ados", [], 1))
    for _ in range(6):
        ne = rng.choice([1, 2, 3])
        dims = [rng.choice([0, 1, 2, 3]) for _ in range(ne)]
        cases.append(("sne", dims, rng.choice([0, 1, 2, 3])))
    exprs = []
    for kind, d, depth in cases:
        if kind == "ados":
            exprs.append("ados_observe %s %s" % (clist(
                d, lambda x: "None" if x is None else "(Some %s)" % cnat(x)), cnat(depth)))
        else:
            exprs.append("sne %s %s" % (clist(d, cnat), cnat(depth)))
    vals = vlib.coq_eval_values("cases_C19_labels", HEADER, exprs, chunk=120)
    dist = ctx.cov.setdefault("input_distribution", {}).setdefault("labels", {})
    for (kind, d, depth), v in zip(cases, vals):
        m = vlib.parse_coq_value(v)
        if kind == "ados":
            r = labels_impl(d, depth)
            mm = unsome(m)
            if mm is None:
                model = ("error",)
            else:
                mdims, mlabels, mprobes = mm
                model = ("ok", list(mdims), [list(x) for x in mlabels],
                         [(unsome(ix), [(unsome(a), unsome(b)) for a, b in row])
                          for ix, row in mprobes])
            impl = r if r[0] == "ok" else ("error",)
            wrong = labels_oracle(d, depth, r)
            nl = len(r[2]) if r[0] == "ok" else 0
        else:
            r = sne_impl(d, depth)
            mm = unsome(m)
            model = ("error",) if mm is None else ("ok", [list(x) for x in mm])
            impl = r if r[0] == "ok" else ("error",)
            wrong = None
            if all(x >= 1 for x in d):
                ref = [list(x) for x in I.ref_labels(d, depth)]
                if r[0] != "ok" or r[1] != ref:
                    wrong = "state_number_enumerate(%r, %d) is not the list of " \
                            "multi-indices within dims and excitations" % (d, depth)
            nl = len(r[1]) if r[0] == "ok" else 0
        ctx.count_case((kind, d, depth), nontrivial=nl >= 2)
        ctx.cov["traces_validated_against_impl"] += 1
        key = "%s:%d-exponents" % (kind, len(d))
        dist[key] = dist.get(key, 0) + 1
        if wrong:
            ctx.violation("heom:labels", {"oracle": "labels", "api": kind}, wrong,
                          {"kind": "labels", "case": [kind, d, depth], "impl": impl})
        if model != impl:
            ctx.violation("corr:labels", {"api": kind, "impl-violates": bool(wrong)},
                          "model and implementation disagree on %s(%r, %d)" % (kind, d, depth),
                          {"kind": "labels", "case": [kind, d, depth], "impl": impl,
                           "model": model}, found_input=bool(wrong))
    ctx.sample({"labels_case": cases[0], "model_value": vals[0][:300]})


def corr_combine(ctx, rng, ncases):
    cases = []
    for _ in range(ncases):
        nq = rng.choice([1, 2])
        Qs = distinct_mats(rng, 2, nq, herm)
        vks = [gi(rng, 0, 3) for _ in range(rng.choice([1, 2, 3]))]
        exps = []
        for _ in range(rng.choice([0, 1, 2, 3, 4, 5, 6])):
            if rng.random() < 0.12:
                exps += ferm_pair(rng, rng.randrange(nq))
                continue
            e = bos_exp(rng, nq, dims=(None, None, None, 2))
            e["vk"] = list(rng.choice(vks))
            e["ck"] = gi(rng, -4, 4)
            exps.append(e)
        cases.append((Qs, exps))
    exprs = []
    for Qs, exps in cases:
        exprs.append("(map g_coefficient %s, map (fun e => (e_type G e, e_dim G e, e_q G e, "
                     "e_ck G e, e_vk G e, e_ck2 G e, e_off G e)) (g_combine %s))"
                     % (clist(exps, cexp), clist(exps, cexp)))
    vals = vlib.coq_eval_values("cases_C19_combine", HEADER, exprs, chunk=150)
    dist = ctx.cov.setdefault("input_distribution", {}).setdefault("combine", {})
    for (Qs, exps), v in zip(cases, vals):
        mcoefs, mout = vlib.parse_coq_value(v)
        model = []
        for t, dim, q, ck, vk, ck2, off in mout:
            model.append({"t": RTYPES[t], "dim": unsome(dim), "q": q, "ck": list(ck),
                          "vk": list(vk), "ck2": None if unsome(ck2) is None else list(unsome(ck2)),
                          "off": unsome(off)})
        mcoefs = [list(c) for c in mcoefs]
        coefs, out = combine_impl(exps, Qs)
        merged = len(exps) - len(out)
        ctx.count_case(("combine", json.dumps(exps)), nontrivial=merged >= 1)
        ctx.cov["traces_validated_against_impl"] += 1
        dist["merged-%d" % merged] = dist.get("merged-%d" % merged, 0) + 1
        wrong = None
        if formal_sum(out) != formal_sum(exps):
            wrong = "combine changes the correlation function (formal exponential sum)"
        else:
            keys = [(tuple(e["vk"]), e["q"]) for e in out if e["t"] not in "+-"]
            if len(set(keys)) != len(keys):
                wrong = "combine leaves two exponents with the same rate and coupling operator"
        if wrong:
            ctx.violation("heom:combine", {"oracle": "combine"}, wrong,
                          {"kind": "combine", "Qs": Qs, "exps": exps, "impl": out})
        if model != out or mcoefs != coefs:
            ctx.violation("corr:combine", {"impl-violates": bool(wrong)},
                          "model and implementation of combine/coefficient disagree",
                          {"kind": "combine", "Qs": Qs, "exps": exps, "impl": out,
                           "model": model, "impl_coefs": coefs, "model_coefs": mcoefs},
                          found_input=bool(wrong))
    ctx.sample({"combine_case": cases[-1][1], "model_value": vals[-1][:300]})


def corr_blocks(ctx, rng, ncases, big):
    specs = [gen_spec(rng, big=big) for _ in range(ncases)]
    vals = vlib.coq_eval_values("cases_C19_blocks", HEADER, [blocks_expr(s) for s in specs],
                                chunk=25)
    dist = ctx.cov.setdefault("input_distribution", {}).setdefault("blocks", {})
    for spec, v in zip(specs, vals):
        m = unsome(vlib.parse_coq_value(v))
        N = spec["n"] ** 2
        try:
            s, rec = I.real_blocks(spec)
        except Exception as e:      # noqa
            rec = None
            err = I.canon_err(e)
        dist[spec["kind"]] = dist.get(spec["kind"], 0) + 1
        ctx.cov["traces_validated_against_impl"] += 1
        if m is None or rec is None:
            ctx.count_case(("blocks", json.dumps(spec)), nontrivial=False)
            if (m is None) != (rec is None):
                ctx.violation("corr:blocks", {"bath": spec["kind"], "what": "error"},
                              "model and implementation disagree on failure",
                              {"kind": "blocks", "spec": spec})
            continue
        mb = [(r, c, terms) for (r, c, terms) in m]
        mb = [(r, c, [(t[0], t[1], t[2]) for t in terms]) for r, c, terms in mb]
        ev = eval_model_blocks(spec, mb)
        ctx.count_case(("blocks", json.dumps(spec)), nontrivial=len(ev) >= 3)
        diff = None
        if [(r, c) for r, c, _ in ev] != list(zip(rec["rows"], rec["cols"])):
            diff = "block keys/order differ"
        else:
            for (r, c, M), op in zip(ev, rec["ops"]):
                if not np.array_equal(M, op):
                    diff = "block (%d,%d) differs" % (r, c)
                    break
        if diff is None:
            # assembled generator = placed model blocks + kron(1, L_sys)
            H = I.mat(spec["H"])
            L = -1j * (I.spre(H) - I.spost(H))
            nl = rec["n_blocks"]
            Gm = np.kron(np.eye(nl), L)
            for r, c, M in ev:
                Gm[r * N:(r + 1) * N, c * N:(c + 1) * N] += M
            if not np.array_equal(Gm, s.rhs(0).full()):
                diff = "assembled rhs(0) differs from placed model blocks + kron(1, L_sys)"
        if diff:
            bad = oracle_generator(spec)
            ctx.violation("corr:blocks", {"bath": spec["kind"], "odd": spec["odd"],
                                          "impl-violates": bool(bad)},
                          "model and implementation of the HEOM block list disagree: " + diff
                          + ("; implementation violates: " + bad[0][1] if bad else ""),
                          {"kind": "blocks", "spec": spec}, found_input=bool(bad))
    ctx.sample({"blocks_spec": specs[-1], "model_value": vals[-1][:400]})


# ------------------------------------------- merge intertwiner correspondence
def gen_merge_spec(rng, big):
    fer = rng.random() < 0.45
    n = 2 if fer else rng.choice([2, 2, 3])
    nq = rng.choice([1, 2])
    Qs = distinct_mats(rng, n, nq, anymat if fer else herm)
    e1 = bos_exp(rng, nq, dims=(None,))
    e2 = bos_exp(rng, nq, dims=(None,))
    e2["vk"], e2["q"] = list(e1["vk"]), e1["q"]
    if fer:
        units = [ferm_pair(rng, rng.randrange(nq))]
        if rng.random() < 0.5:
            units.append([bos_exp(rng, nq)])
        rng.shuffle(units)
        rest = [e for u in units for e in u]
    else:
        rest = [bos_exp(rng, nq) for _ in range(rng.choice([0, 1, 1, 2]))]
    depth = rng.choice([1, 2, 2, 3] if len(rest) < 2 or big else [1, 2])
    return {"kind": "mixed" if fer else "bos", "n": n, "H": herm(rng, n), "Qs": Qs,
            "exps": [e1, e2] + rest, "depth": depth, "odd": fer and rng.random() < 0.5}


def corr_merge(ctx, rng, ncases, big):
    """ties Model/C19_merge.v: (a) col_tags/g_col_entries = the block column of the
    real rhs(0); (b) combine2 = the real BathExponent._combine; (c) the label map and
    weights evaluated in Coq intertwine the two REAL generators exactly"""
    import qutip
    from qutip.solver.heom.bofin_solvers import HEOMSolver
    from qutip.solver.heom.bofin_baths import Bath
    specs = [gen_merge_spec(rng, big) for _ in range(ncases)]
    exprs, picks = [], []
    for sp in specs:
        labels = I.ref_labels(I.ref_dims(sp), sp["depth"])
        pk = [list(rng.choice(labels)) for _ in range(2)]
        picks.append(pk)
        ex = clist(sp["exps"], cexp)
        exprs.append(
            "(match sne (heom_dims G %s %s) %s with Some ls => map (fun n => (n, merge_label n, "
            "merge_weight n)) ls | None => [] end, map (g_col_entries %s %s %s) %s, "
            "(fun e => (e_type G e, e_ck G e, e_vk G e, e_ck2 G e, e_dim G e)) "
            "(combine2 G g0 gadd %s %s))" % (
                ex, cnat(sp["depth"]), cnat(sp["depth"]), ex, cnat(sp["depth"]), cbool(sp["odd"]),
                clist(pk, lambda l: clist(l, cnat)), cexp(sp["exps"][0]), cexp(sp["exps"][1])))
    vals = vlib.coq_eval_values("cases_C19_merge", HEADER, exprs, chunk=20)
    dist = ctx.cov.setdefault("input_distribution", {}).setdefault("merge", {})
    for sp, pk, v in zip(specs, picks, vals):
        tmap, cols, comb = vlib.parse_coq_value(v)
        N = sp["n"] ** 2
        ctx.count_case(("merge", json.dumps(sp)), nontrivial=sp["depth"] >= 2)
        ctx.cov["traces_validated_against_impl"] += 1
        key = "%s-%d-exponents-depth-%d%s" % (sp["kind"], len(sp["exps"]), sp["depth"],
                                              "-odd" if sp["odd"] else "")
        dist[key] = dist.get(key, 0) + 1
        diff = None
        try:
            sA, GA = I.real_generator(sp)
            objs = I.make_exponents(sp)
            if not objs[0]._can_combine(objs[1], 1e-5, 1e-7):
                diff = "real _can_combine refuses a pair of equal rate and coupling operator"
            e12 = objs[0]._combine(objs[1])
            sB = HEOMSolver(qutip.Qobj(I.mat(sp["H"])), Bath([e12] + objs[2:]), sp["depth"],
                            odd_parity=sp["odd"])
            GB = sB.rhs(0).full()
        except Exception as e:      # noqa
            ctx.violation("corr:merge", {"what": "exception", "error": I.canon_err(e)},
                          "merge correspondence: implementation raised %s" % e,
                          {"kind": "merge", "spec": sp})
            continue
        # (b) combine2
        t, ck, vk, ck2, dim = comb
        real12 = (e12.type.name, I.to_gint(np.array([e12.ck]))[0], I.to_gint(np.array([e12.vk]))[0],
                  None if e12.ck2 is None else I.to_gint(np.array([e12.ck2]))[0], e12.dim)
        model12 = (RTYPES[t], list(ck), list(vk),
                   None if unsome(ck2) is None else list(unsome(ck2)), unsome(dim))
        if diff is None and real12 != model12:
            diff = "combine2 %r differs from BathExponent._combine %r" % (model12, real12)
        # (a) block column of the real generator
        labA = [tuple(l) for l in sA.ados.labels]
        posA = {l: i for i, l in enumerate(labA)}
        f = basis_mats(sp)
        H = I.mat(sp["H"])
        L = -1j * (I.spre(H) - I.spost(H))
        for npick, entries in zip(pk, cols):
            if diff:
                break
            c = posA[tuple(npick)]
            want = {}
            for row, terms in entries:
                M = sum((complex(tm[0], tm[1]) * f(tm[2]) for tm in terms),
                        np.zeros((N, N), dtype=complex))
                want[tuple(row)] = want.get(tuple(row), 0) + M
            for l, i in posA.items():
                blk = GA[i * N:(i + 1) * N, c * N:(c + 1) * N] - (L if i == c else 0)
                w = want.get(l, np.zeros((N, N)))
                if not np.array_equal(blk, w):
                    diff = "block column %r of rhs(0): row %r differs from col_tags model" % (
                        npick, list(l))
                    break
        # (c) intertwiner with the Coq-evaluated map
        if diff is None:
            labB = [tuple(l) for l in sB.ados.labels]
            posB = {l: i for i, l in enumerate(labB)}
            T = np.zeros((N * len(labB), N * len(labA)))
            ok = len(tmap) == len(labA)
            for n, m, w in tmap:
                if tuple(m) not in posB or tuple(n) not in posA:
                    ok = False
                    break
                i, j = posB[tuple(m)], posA[tuple(n)]
                T[i * N:(i + 1) * N, j * N:(j + 1) * N] = w * np.eye(N)
            if not ok:
                diff = "merge_label leaves the merged hierarchy"
            elif not np.array_equal(T @ GA, GB @ T):
                diff = "T G_A != G_B T for the real generators (T from the Coq model)"
            elif not np.array_equal(T[:N, :N], np.eye(N)) or np.any(T[:N, N:] != 0):
                diff = "T does not fix rho_0"
        if diff:
            bad = oracle_generator(sp)
            ctx.violation("corr:merge", {"impl-violates": bool(bad), "what": diff.split(":")[0][:40]},
                          "merge/intertwiner model and implementation disagree: " + diff,
                          {"kind": "merge", "spec": sp}, found_input=True)
    ctx.sample({"merge_spec": specs[-1], "model_value": vals[-1][:300]})


def corr_perm(ctx, rng, ncases, big):
    """ties `permute` (Model/C19.v): the label map n |-> n o pi evaluated in Coq
    conjugates the REAL generators of the original and the re-ordered bosonic exponent
    list exactly, and heom_dims of the re-ordered list is the real solver's dims"""
    specs, pis, exprs = [], [], []
    for _ in range(ncases):
        sp = gen_spec(rng, kind="bos", big=big)
        ne = len(sp["exps"])
        pi = list(range(ne))
        rng.shuffle(pi)
        specs.append(sp)
        pis.append(pi)
        ex = clist(sp["exps"], cexp)
        exprs.append(
            "(match sne (heom_dims G %s %s) %s with Some ls => map (fun n => (n, permute 0 %s n)) ls "
            "| None => [] end, heom_dims G (permute (dflt G g0) %s %s) %s)" % (
                ex, cnat(sp["depth"]), cnat(sp["depth"]), clist(pi, cnat),
                clist(pi, cnat), ex, cnat(sp["depth"])))
    vals = vlib.coq_eval_values("cases_C19_perm", HEADER, exprs, chunk=20)
    for sp, pi, v in zip(specs, pis, vals):
        pairs, mdims = vlib.parse_coq_value(v)
        N = sp["n"] ** 2
        ctx.count_case(("perm", json.dumps(sp), pi), nontrivial=len(pi) >= 2 and sp["depth"] >= 1)
        ctx.cov["traces_validated_against_impl"] += 1
        sp2 = copy.deepcopy(sp)
        sp2["exps"] = [copy.deepcopy(sp["exps"][j]) for j in pi]
        try:
            s1, G1 = I.real_generator(sp)
            s2, G2 = I.real_generator(sp2)
        except Exception as e:      # noqa
            ctx.violation("corr:perm", {"what": "exception", "error": I.canon_err(e)},
                          "permutation correspondence: implementation raised %s" % e,
                          {"kind": "perm", "spec": sp, "pi": pi})
            continue
        diff = None
        if list(mdims) != list(s2.ados.dims):
            diff = "dims of the re-ordered list: model %r, implementation %r" % (
                list(mdims), list(s2.ados.dims))
        else:
            pos1 = {tuple(l): i for i, l in enumerate(s1.ados.labels)}
            pos2 = {tuple(l): i for i, l in enumerate(s2.ados.labels)}
            P = np.zeros((N * len(pos2), N * len(pos1)))
            ok = len(pairs) == len(pos1)
            for n, m in pairs:
                if tuple(n) not in pos1 or tuple(m) not in pos2:
                    ok = False
                    break
                P[pos2[tuple(m)] * N:(pos2[tuple(m)] + 1) * N,
                  pos1[tuple(n)] * N:(pos1[tuple(n)] + 1) * N] = np.eye(N)
            if not ok:
                diff = "permuted labels leave the re-ordered hierarchy"
            elif not np.array_equal(P @ G1, G2 @ P):
                diff = "P G != G_pi P for the real generators (P from the Coq model)"
        if diff:
            ctx.violation("corr:perm", {"what": diff.split(":")[0][:40]},
                          "permutation model and implementation disagree: " + diff,
                          {"kind": "perm", "spec": sp, "pi": pi}, found_input=True)


def corr_ferm_swap(ctx, rng, ncases, big):
    """ties Model/C19_ferm.v: the exponent list with positions k, k+1 exchanged and the
    partner offsets re-computed IN COQ is handed to the real HEOMSolver; the signed label
    map (n -> n o tau, sign s(n)) evaluated in Coq must conjugate the real generator of the
    original list into the real generator of the re-ordered list, exactly"""
    specs, ks, exprs = [], [], []
    for _ in range(ncases):
        sp = gen_spec(rng, kind=rng.choice(["ferm", "ferm", "mixed"]), big=big)
        if sp["depth"] == 0:
            sp["depth"] = 2
        ne = len(sp["exps"])
        k = rng.randrange(ne - 1)
        specs.append(sp)
        ks.append(k)
        ex = clist(sp["exps"], cexp)
        exprs.append(
            "(map (fun e => (e_type G e, e_dim G e, e_q G e, e_ck G e, e_vk G e, e_ck2 G e, "
            "e_off G e)) (swap_exps (dflt G g0) %s %s), match sne (heom_dims G %s %s) %s with "
            "Some ls => map (fun n => (n, permute 0 (swap_pi %s %s) n, swap_s_even %s %s n)) ls "
            "| None => [] end)" % (cnat(k), ex, ex, cnat(sp["depth"]), cnat(sp["depth"]),
                                   cnat(k), cnat(ne), ex, cnat(k)))
    vals = vlib.coq_eval_values("cases_C19_ferm", HEADER, exprs, chunk=20)
    dist = ctx.cov.setdefault("input_distribution", {}).setdefault("fermionic_swap", {})
    for sp, k, v in zip(specs, ks, vals):
        mexps, triples = vlib.parse_coq_value(v)
        N = sp["n"] ** 2
        ctx.count_case(("ferm-swap", json.dumps(sp), k), nontrivial=True)
        ctx.cov["traces_validated_against_impl"] += 1
        key = "%s-%s" % (sp["kind"], "odd" if sp["odd"] else "even")
        dist[key] = dist.get(key, 0) + 1
        sp2 = copy.deepcopy(sp)
        sp2["exps"] = []
        for t, dim, q, ck, vk, ck2, off in mexps:
            sp2["exps"].append({"t": RTYPES[t], "dim": unsome(dim), "q": q, "ck": list(ck),
                                "vk": list(vk),
                                "ck2": None if unsome(ck2) is None else list(unsome(ck2)),
                                "off": unsome(off)})
        diff = None
        try:
            s1, G1 = I.real_generator(sp)
            s2, G2 = I.real_generator(sp2)
        except Exception as e:      # noqa
            ctx.violation("corr:ferm-swap", {"what": "exception", "error": I.canon_err(e)},
                          "fermionic swap correspondence: implementation raised %s" % e,
                          {"kind": "ferm-swap", "spec": sp, "k": k})
            continue
        pos1 = {tuple(l): i for i, l in enumerate(s1.ados.labels)}
        pos2 = {tuple(l): i for i, l in enumerate(s2.ados.labels)}
        M = np.zeros((N * len(pos2), N * len(pos1)))
        ok = len(triples) == len(pos1) == len(pos2)
        for n, m, even in triples:
            if not ok or tuple(n) not in pos1 or tuple(m) not in pos2:
                ok = False
                break
            M[pos2[tuple(m)] * N:(pos2[tuple(m)] + 1) * N,
              pos1[tuple(n)] * N:(pos1[tuple(n)] + 1) * N] = (1 if even else -1) * np.eye(N)
        if not ok:
            diff = "re-ordered labels leave the re-ordered hierarchy"
        elif not np.array_equal(M @ G1, G2 @ M):
            diff = "(P S) G != G' (P S) for the real generators (exponents, P and S from the Coq model)"
        elif not np.array_equal(M[:N, :N], np.eye(N)):
            diff = "P S does not fix rho_0"
        if diff:
            bad = oracle_generator(sp) + oracle_generator(sp2)
            ctx.violation("corr:ferm-swap", {"bath": sp["kind"], "odd": sp["odd"],
                                             "impl-violates": bool(bad)},
                          "fermionic swap model and implementation disagree: " + diff
                          + ("; implementation violates: " + bad[0][1] if bad else ""),
                          {"kind": "ferm-swap", "spec": sp, "spec_swapped": sp2, "k": k},
                          found_input=True)
    ctx.sample({"ferm_swap_spec": specs[-1], "k": ks[-1], "model_value": vals[-1][:300]})


def corr_csr(ctx, rng, ncases):
    cases = [gen_blocks_case(rng) for _ in range(ncases)]
    vals = vlib.coq_eval_values("cases_C19_csr", HEADER, [csr_expr(c) for c in cases],
                                chunk=150)
    dist = ctx.cov.setdefault("input_distribution", {}).setdefault("from_csr_blocks", {})
    for case, v in zip(cases, vals):
        m = unsome(vlib.parse_coq_value(v))
        r = csr_impl(case)
        ctx.count_case(("csr", json.dumps(case)), nontrivial=len(case["ops"]) >= 2)
        ctx.cov["traces_validated_against_impl"] += 1
        key = "ok" if r[0] == "ok" else "error"
        dist[key] = dist.get(key, 0) + 1
        model = ("error",) if m is None else (
            "ok", list(m[0]), list(m[1]), [list(x) for x in m[2]])
        impl = ("error",) if r[0] != "ok" else r[:4]
        wrong = None
        if r[0] == "ok" and not np.array_equal(r[4], csr_dense_ref(case)):
            wrong = "_from_csr_blocks output is not the block matrix of its inputs"
        if wrong:
            ctx.violation("heom:from_csr_blocks", {"oracle": "dense-blocks"}, wrong,
                          {"kind": "csr", "case": case})
        if tuple(model) != tuple(impl):
            ctx.violation("corr:from_csr_blocks", {"impl-violates": bool(wrong)},
                          "model and implementation of _from_csr_blocks disagree",
                          {"kind": "csr", "case": case, "impl": list(impl), "model": list(model)},
                          found_input=bool(wrong))
    # the right-hand side of theorem C19_from_csr_blocks_placement (block_row_entries,
    # Proofs/C19_csr.v) evaluated in Coq against the rows of the REAL output
    sub = [(c, r) for c, r in ((c, csr_impl(c)) for c in cases[:40 if len(cases) < 400 else 100])
           if r[0] == "ok" and c["nb"] * c["bs"] > 0]
    if sub:
        hdr2 = HEADER + "From QV Require Import Proofs.C19_csr.\n"
        exprs2, picks = [], []
        for c, r in sub:
            R, rr = rng.randrange(c["nb"]), rng.randrange(c["bs"])
            picks.append((R, rr))

            def op(o):
                return "(%s, %s, {| ri := %s; ci_ := %s; dat := %s |})" % (
                    cnat(o["r"]), cnat(o["c"]), clist(o["op"]["ri"], cnat),
                    clist(o["op"]["ci"], cnat), clist(o["op"]["dat"], cg))
            exprs2.append("flat_map (fun b => block_row_entries G %s b %s) (filter (fun b => "
                          "Nat.eqb (brow G b) %s) %s)" % (cnat(c["bs"]), cnat(rr), cnat(R),
                                                          "(%s : list (nat * nat * csr G))"
                                                          % clist(c["ops"], op)))
        vals2 = vlib.coq_eval_values("cases_C19_csrspec", hdr2, exprs2, chunk=100)
        for (c, r), (R, rr), v in zip(sub, picks, vals2):
            spec = [(e[0], list(e[1])) for e in vlib.parse_coq_value(v)]
            i = R * c["bs"] + rr
            lo, hi = r[1][i], r[1][i + 1]
            impl = [(r[2][j], list(r[3][j])) for j in range(lo, hi)]
            ctx.cov["traces_validated_against_impl"] += 1
            ctx.count_case(("csr-spec", json.dumps(c), R, rr), nontrivial=bool(impl))
            if spec != impl:
                ctx.violation("corr:from_csr_blocks-spec", {"what": "row-entries"},
                              "row %d of the real _from_csr_blocks output differs from the "
                              "right-hand side of C19_from_csr_blocks_placement" % i,
                              {"kind": "csr", "case": c, "R": R, "r": rr, "impl": impl,
                               "spec": spec}, found_input=True)
    ctx.sample({"csr_case": cases[-1]})


def run(ctx):
    rng = random.Random(ctx.seed * 104729 + 19)
    ctx.cov["rule"] = (
        "correspondence cases: (a) HierarchyADOs / state_number_enumerate on a list of "
        "per-exponent dims and a depth, every label probed with idx/next/prev at every "
        "position; (b) a list of exponents for combine/coefficient; (c) a solver spec "
        "(Gaussian-integer H, coupling operators, exponent list bosonic/fermionic/mixed, "
        "depth, parity): block list handed to _from_csr_blocks and assembled rhs(0); "
        "(d) a list of integer CSR blocks for _from_csr_blocks.  A case is non-trivial when "
        "it has >= 2 labels / merges at least one exponent / has >= 3 blocks / >= 2 blocks; "
        "distinct by full input.  Oracle cases: solver specs checked against the property "
        "itself (reference generator, trace, limits, permutation, split, merge, env API, "
        "time dependence, packing, final_ado_state); restart oracle: 3 small dyadic "
        "systems x every registered integration method, 5 output times, exact "
        "extract(0)/snapshot equality for every k and (validation, tolerance 1e-5) restart "
        "from every ado_states[k].")
    ctx.cov["trusted_base"] += [
        "Model/C19.v is hand-written; tied to states.py / bofin_solvers.py / "
        "environment.py / bofin_baths.py / csr.pyx by the exact correspondence run below",
        "np.isclose on small Gaussian-integer rates and _isequal on coupling operators "
        "behave as equality (model: ceqb, e_q)",
        "spre/spost/liouvillian/kron (C07) and the ODE integration of the generator "
        "(C10) are outside this property's model: the theorems are about the generator "
        "and its bookkeeping; 'system state at every time' follows from generator "
        "equality/intertwining only through linear ODE uniqueness",
        "tools/c19_impl.py: independent NumPy reference generator written from the "
        "published HEOM equations (oracle, not part of a proof)"]

    def search(failed, log):
        r2 = random.Random(ctx.seed + 101)
        run_oracles(ctx, r2, 40, big=False, count=False)

    vlib.standard_proof_step(ctx, ["Props/C19.vo", "Props/C19_trace.vo", "Props/C19_merge.vo",
                                   "Props/C19_ferm.vo", "Props/C19_csr.vo"],
                             ["Props/C19.v", "Props/C19_trace.v", "Props/C19_merge.v",
                              "Props/C19_ferm.v", "Props/C19_csr.v"], search)

    q = ctx.quick
    try:
        corr_labels(ctx, rng, 120 if q else 1500)
        corr_combine(ctx, rng, 100 if q else 1500)
        corr_blocks(ctx, rng, 40 if q else 500, big=not q)
        corr_csr(ctx, rng, 150 if q else 2500)
        corr_merge(ctx, rng, 12 if q else 60, big=not q)
        corr_perm(ctx, rng, 8 if q else 60, big=not q)
        corr_ferm_swap(ctx, rng, 10 if q else 70, big=not q)
    except RuntimeError as e:
        ctx.violation("corr:C19:model-eval", "coqc", "model evaluation failed",
                      {"log": str(e)[-3000:]}, found_input=False)
    run_fixed_oracles(ctx)
    run_restart_oracles(ctx, rng)
    run_oracles(ctx, rng, 36 if q else 450, big=not q)
    ctx.cov["explanation"] = (
        "Theorems in Props/C19.v hold for every dims/depth/exponent list/ring; the model "
        "they are about is compared exactly (==, Gaussian integers) with the real "
        "HierarchyADOs, combine, HEOMSolver block list, rhs(0) and _from_csr_blocks on the "
        "generated cases counted here; the property itself is checked on real HEOMSolver "
        "generators against an independent reference and its algebraic invariances.")


# -------------------------------------------------------------------- replay
def replay(ctx, payload):
    d = payload["detail"]
    kind = d.get("kind")
    rng = random.Random(payload.get("seed", 0))
    site, sig = payload["site"], payload["signature"]
    bad = []
    if kind == "final_ado_state":
        bad = [(k, w) for k, w, _ in oracle_final_ado_state(tuple(d["options"]))]
    elif kind == "ferm-swap":
        bad = oracle_generator(d["spec"]) + oracle_generator(d["spec_swapped"])
    elif kind == "perm":
        bad = oracle_generator(d["spec"])
        for _ in range(8):
            bad += oracle_permutation(d["spec"], rng)[0]
    elif kind == "merge":
        bad = oracle_generator(d["spec"])
        r = oracle_merge(d["spec"], rng)
        bad += r[0]
    elif kind == "restart":
        bad = [(k, w) for k, w, _ in oracle_restart(d["system"], d["method"])]
    elif kind == "empty-bath":
        bad = [(k, w) for k, w, _ in oracle_empty_bath(d["depth"])]
    elif kind == "labels":
        k, dd, depth = d["case"]
        if k == "ados":
            w = labels_oracle(dd, depth, labels_impl(dd, depth))
        else:
            r = sne_impl(dd, depth)
            w = None if (r[0] == "ok" and r[1] == [list(x) for x in I.ref_labels(dd, depth)]) \
                else "state_number_enumerate differs from the reference"
        bad = [("labels", w)] if w else []
    elif kind == "combine":
        _, out = combine_impl(d["exps"], d["Qs"])
        if formal_sum(out) != formal_sum(d["exps"]):
            bad = [("combine", "combine changes the correlation function")]
    elif kind == "csr":
        r = csr_impl(d["case"])
        if r[0] == "ok" and not np.array_equal(r[4], csr_dense_ref(d["case"])):
            bad = [("csr", "_from_csr_blocks output is not the block matrix")]
    elif d.get("spec"):
        spec = d["spec"]
        bad = oracle_generator(spec) + oracle_zero_coupling(spec)
        for f in (oracle_permutation, oracle_split, oracle_merge):
            for _ in range(5):
                bad += f(spec, rng)[0]
        bad += oracle_env_api(spec) + oracle_timedep(spec, rng) + oracle_packing(spec, rng)
    for k, w in bad[:1]:
        ctx.violation(site, sig, w, d)
