"""C17 - diffusive stochastic trajectories are determined by their noise record.

Tie (K): the real qutip.solver.sode._noise.Wiener / PreSetWiener,
StochasticTrajResult and the explicit integrators are driven with integer
noise streams (a numpy Generator subclass whose `normal` hands out scripted
integers), dyadic times and dyadic factors, so every float operation is exact;
the Coq models (coq/Model/C17.v, coq/Model/C17_sde.v) are evaluated on the
same inputs by vm_compute and compared exactly.

Oracle: the property itself on real solvers - run / run_from_experiment round
trips for every scheme x homodyne/heterodyne x SME/SSE (bitwise equality),
measurement = <M> + factor dW/dt, wiener_process = cumsum(dW), Wiener(t)
independent of the look-up history, trace and Hermiticity of every stored
state; partition consistency (one go == chained pieces, bitwise, every scheme);
labelled numerical check of the strong order on refined Brownian paths.
"""
import json
import re
import os
import random
import warnings
from fractions import Fraction

import numpy as np

import vlib
from vlib import cz, cnat, cbool, clist

HEADER = ("From Coq Require Import List ZArith Bool QArith.\nImport ListNotations.\n"
          "From QV Require Import Model.C17.\nClose Scope Q_scope.\nOpen Scope nat_scope.\n")

SITE_CALL = "sode/_noise.py:Wiener.__call__"
SITE_ROUCHON = "sode/rouchon.py:RouchonSODE.set_state"
SITE_SETSTATE = "sode/sode.py:SIntegrator.set_state"
SITE_SKIP = "sode/sode.py:_Explicit_Simple_Integrator.integrate"


# --------------------------------------------------------------- fake generator
class FakeGen(np.random.Generator):
    """A numpy Generator whose normal() hands out scripted values in C order."""

    def __init__(self, vals, unit=1.0):
        super().__init__(np.random.PCG64(0))
        self.vals = list(vals)
        self.unit = unit
        self.k = 0
        self.calls = []

    def normal(self, loc=0.0, scale=1.0, size=None):
        n = int(np.prod(size))
        if self.k + n > len(self.vals):
            raise RuntimeError("scripted stream exhausted")
        out = np.array(self.vals[self.k:self.k + n], dtype=float).reshape(size)
        self.k += n
        self.calls.append((float(scale), tuple(int(x) for x in size)))
        return out * self.unit


def ints(a):
    """Exact integer nested list of a float array (raises if not integral)."""
    a = np.asarray(a)
    r = np.rint(a)
    if not np.array_equal(r, a):
        raise ValueError("non integral value")
    return r.astype(int).tolist()


def frac(x):
    f = Fraction(float(x))
    return [f.numerator, f.denominator]


def fracs(a):
    a = np.asarray(a, dtype=float)
    if a.ndim == 0:
        return frac(a)
    return [fracs(x) for x in a]


def cq(num, den=1):
    f = Fraction(num, den)
    return "(%s # %d)%%Q" % (("(%d)" % f.numerator) if f.numerator < 0 else str(f.numerator),
                             f.denominator)


def cpos(n):
    return "%d%%positive" % n


# ---------------------------------------------------------- K1: Wiener histories
def gen_wiener_case(rng):
    rows = rng.choice([1, 1, 1, 2])
    ops = rng.choice([1, 1, 2, 3])
    t0 = rng.choice([0.0, 0.0, 0.5, -1.25, 3.0])
    dt = rng.choice([1.0, 0.5, 0.125, 0.0625])
    nq = rng.choice([1, 2, 3, 4, 6, 9])
    qs = []
    maxidx = 0
    for _ in range(nq):
        den = rng.choice([1, 1, 1, 2, 4, 8])
        m = rng.randrange(0, 7 * den + 1)
        if rng.random() < 0.6:
            m = (m // den) * den            # on the grid
        idx = py_round_ratio(m, den)
        if rng.random() < 0.5:
            N = rng.choice([0, 1, 1, 2, 3, 5])
            qs.append(["dW", m, den, N])
            maxidx = max(maxidx, idx + N)
        else:
            qs.append(["W", m, den])
            maxidx = max(maxidx, idx + 1)
    nvals = (maxidx + 1) * rows * ops
    vals = [rng.randrange(-9, 10) for _ in range(nvals)]
    return {"rows": rows, "ops": ops, "t0": t0, "dt": dt, "qs": qs, "vals": vals}


def py_round_ratio(m, den):
    return round(Fraction(m, den))        # Fraction.__round__ is half-to-even


def run_wiener_impl(case):
    from qutip.solver.sode._noise import Wiener
    g = FakeGen(case["vals"])
    w = Wiener(case["t0"], case["dt"], g, (case["rows"], case["ops"]))
    ans = []
    for q in case["qs"]:
        t = case["t0"] + q[1] * case["dt"] / q[2]
        if q[0] == "dW":
            ans.append(["AdW", ints(np.array(w.dW(t, q[3])))])
        else:
            ans.append(["AW", ints(np.array(w(t)))])
    return {"answers": ans, "len": int(w.noise.shape[0]),
            "noise": ints(w.noise), "drawn": g.k}


def coq_queries(qs):
    def f(q):
        if q[0] == "dW":
            return "QdW %s %s %s" % (cnat(q[1]), cpos(q[2]), cnat(q[3]))
        return "QW %s %s" % (cnat(q[1]), cpos(q[2]))
    return clist(qs, f)


def coq_wiener_expr(case):
    return "w_observe (stream %s) %s %s %s" % (
        clist(case["vals"], cz), cnat(case["rows"]), cnat(case["ops"]),
        coq_queries(case["qs"]))


def canon_answers_coq(v):
    out = []
    for a in v:
        if isinstance(a, tuple):
            out.append([a[0], _lists(a[1])])
        else:
            out.append([a])
    return out


def _lists(x):
    if isinstance(x, (list, tuple)):
        return [_lists(y) for y in x]
    return x


def wiener_oracle(case, r):
    """The property on one Wiener object: increments are the stream segment;
    W(t) is the running sum of the row-0 increments before t, whatever was
    asked before.  Returns list of (kind, message)."""
    rows, ops = case["rows"], case["ops"]
    vals = case["vals"]

    def slab(k):
        return [[vals[k * rows * ops + a * ops + i] for i in range(ops)] for a in range(rows)]
    bad = []
    for q, a in zip(case["qs"], r["answers"]):
        idx = py_round_ratio(q[1], q[2])
        if q[0] == "dW":
            want = [slab(k) for k in range(idx, idx + q[3])]
            if a[1] != want:
                bad.append(("dW", "dW(t,N) is not the stream segment [%d,%d)" % (idx, idx + q[3])))
        else:
            want = [sum(slab(k)[0][i] for k in range(idx)) for i in range(ops)]
            if a[1] != want:
                bad.append(("W", "W(t) at step %d is %r, running sum of the increments is %r"
                            % (idx, a[1], want)))
    return bad


# ------------------------------------------------------------ K2: PreSetWiener
def gen_preset_case(rng):
    het = rng.random() < 0.5
    meas = rng.random() < 0.4
    nops = rng.choice([1, 1, 2, 3])
    n = 2 * nops if het else nops
    T = rng.choice([1, 2, 3, 5])
    t0 = rng.choice([0.0, 1.0, -0.5])
    dt = rng.choice([1.0, 0.5, 0.25, 0.125])
    kind = "ok"
    shape = (nops, 2, T) if het else (n, T)
    u = rng.random()
    if u < 0.10:
        kind = "wrong-mode"
        shape = (n, T) if het else (max(1, n // 2), 2, T)
    elif u < 0.18:
        kind = "wrong-T"
        shape = shape[:-1] + (T + rng.choice([-1, 1]),)
    elif u < 0.25:
        kind = "wrong-n"
        shape = (shape[0] + 1,) + shape[1:]
    if 0 in shape:
        shape = tuple(max(1, s) for s in shape)
        kind = "ok" if shape == ((nops, 2, T) if het else (n, T)) else kind
    noise = np.array([rng.randrange(-9, 10) for _ in range(int(np.prod(shape)))],
                     dtype=float).reshape(shape)
    reqs = []
    for _ in range(rng.choice([1, 2, 4])):
        k = rng.randrange(0, T + 2)
        N = rng.choice([0, 1, 1, 2, 3])
        reqs.append([k, N])
    return {"het": het, "meas": meas, "n": n, "T": T, "t0": t0, "dt": dt,
            "kind": kind, "noise": noise.astype(int).tolist(), "reqs": reqs}


def run_preset_impl(case):
    from qutip.solver.sode._noise import PreSetWiener
    noise = np.array(case["noise"], dtype=float)
    tlist = case["t0"] + case["dt"] * np.arange(case["T"] + 1)
    snap = noise.tobytes()
    try:
        p = PreSetWiener(noise, tlist, case["n"], case["het"], case["meas"])
    except ValueError as e:
        return {"init": None, "err": str(e)[:60]}
    out = {"init": fracs(p.noise), "answers": [],
           "input_modified": noise.tobytes() != snap}
    for k, N in case["reqs"]:
        try:
            out["answers"].append(fracs(np.array(p.dW(case["t0"] + k * case["dt"], N))))
        except ValueError:
            out["answers"].append(None)
    return out


def coq_noise_arg(arr, f=cz):
    a = np.array(arr)
    if a.ndim == 3:
        return "(Hetero %s)" % clist(a.tolist(), lambda p: clist(p, lambda r: clist(r, f)))
    return "(Homo %s)" % clist(a.tolist(), lambda r: clist(r, f))


def coq_preset_expr(case):
    return "p_observe %s %s %s %s %s %s" % (
        coq_noise_arg(case["noise"]), cnat(case["T"]), cnat(case["n"]),
        cbool(case["het"]), cbool(case["meas"]),
        clist(case["reqs"], lambda r: "(%s, %s)" % (cnat(r[0]), cnat(r[1]))))


def scale_like_impl(x, sdt, ssq, dt):
    a = np.array(x, dtype=float)
    if sdt:
        a = a * dt
    if ssq:
        a = a / 2**0.5
    return fracs(a)


def canon_preset_coq(v, dt):
    """Model value -> same shape as run_preset_impl (the two float scalings
    recorded as flags by the model are applied here with the same float
    operations as PreSetWiener.__init__)."""
    if v is None:
        return {"init": None}
    assert v[0] == "Some"
    noise, sdt, ssq, answers = v[1]
    out = {"init": scale_like_impl(_lists(noise), sdt, ssq, dt), "answers": []}
    for a in answers:
        if a is None:
            out["answers"].append(None)
        else:
            x = _lists(a[1])
            out["answers"].append(scale_like_impl(x, sdt, ssq, dt) if x else [])
    return out


# ---------------------------------------------- K3: StochasticTrajResult reporting
def gen_result_case(rng):
    het = rng.random() < 0.5
    nops = rng.choice([1, 1, 2])
    n = 2 * nops if het else nops
    T = rng.choice([1, 2, 3, 4])
    store = rng.choice(["start", "middle", "end"])
    t0 = Fraction(rng.choice([0, 1, -2]), 1)
    dts = [rng.choice([Fraction(1, 4), Fraction(1, 2), Fraction(1), Fraction(2)]) for _ in range(T)]
    times = [t0]
    for d in dts:
        times.append(times[-1] + d)
    noise = [[rng.randrange(-9, 10) for _ in range(n)] for _ in range(T)]
    mexp = [[Fraction(rng.randrange(-16, 17), 4) for _ in range(T + 1)] for _ in range(n)]
    factors = [Fraction(rng.choice([1, 1, 2, 3, -1]), rng.choice([1, 2, 4])) for _ in range(n)]
    return {"het": het, "n": n, "T": T, "store": store,
            "times": [[t.numerator, t.denominator] for t in times],
            "noise": noise,
            "mexp": [[[e.numerator, e.denominator] for e in row] for row in mexp],
            "factors": [[f.numerator, f.denominator] for f in factors]}


def run_result_impl(case):
    import qutip
    from qutip.solver.stochastic import StochasticTrajResult
    times = [float(Fraction(*t)) for t in case["times"]]
    mexp = [[float(Fraction(*e)) for e in row] for row in case["mexp"]]
    idx_of = {t: k for k, t in enumerate(times)}
    m_ops = [(lambda t, s, i=i: mexp[i][idx_of[t]]) for i in range(case["n"])]
    opts = {"store_states": False, "store_final_state": False,
            "normalize_output": False, "store_measurement": case["store"]}
    res = StochasticTrajResult(
        [], opts, m_ops=m_ops,
        dw_factor=np.array([float(Fraction(*f)) for f in case["factors"]]),
        heterodyne=case["het"])
    st = qutip.basis(2, 0)
    res.add(times[0], st)
    for k in range(case["T"]):
        res.add(times[k + 1], st, np.array(case["noise"][k], dtype=float))
    return {"dW": ints(res.dW), "W": ints(res.wiener_process),
            "meas": fracs(res.measurement)}


def coq_result_exprs(case):
    nl = clist(case["noise"], lambda v: clist(v, cz))
    nlq = clist(case["noise"], lambda v: clist(v, lambda x: cq(x)))
    st = {"start": "StStart", "middle": "StMiddle", "end": "StEnd"}[case["store"]]
    me = clist(case["mexp"], lambda r: clist(r, lambda e: cq(*e)))
    fs = clist(case["factors"], lambda e: cq(*e))
    ts = clist(case["times"], lambda e: cq(*e))
    return ["res_dW %s %s %s" % (nl, cnat(case["n"]), cbool(case["het"])),
            "res_wiener %s %s %s" % (nl, cnat(case["n"]), cbool(case["het"])),
            "na_print (res_measurement %s %s %s %s %s %s)" % (
                st, me, fs, nlq, ts, cbool(case["het"]))]


def canon_na(v, pairs=False):
    """('Some', ('Homo'|'Hetero', nested)) -> nested lists; for measurement
    the leaves are (num, den) pairs."""
    if v is None:
        return None
    body = v[1]
    x = _lists(body[1]) if isinstance(body, tuple) else []
    return x


def result_oracle(case, r):
    """Independent formulas for dW / wiener_process / measurement."""
    n, T, het = case["n"], case["T"], case["het"]
    noise = case["noise"]
    times = [Fraction(*t) for t in case["times"]]
    mexp = [[Fraction(*e) for e in row] for row in case["mexp"]]
    fs = [Fraction(*f) for f in case["factors"]]
    dW = [[noise[k][i] for k in range(T)] for i in range(n)]
    W = [[sum(noise[j][i] for j in range(k)) for k in range(T + 1)] for i in range(n)]
    M = []
    for i in range(n):
        row = []
        for k in range(T):
            e = {"start": mexp[i][k], "end": mexp[i][k + 1],
                 "middle": (mexp[i][k] + mexp[i][k + 1]) / 2}[case["store"]]
            v = e + fs[i] * noise[k][i] / (times[k + 1] - times[k])
            row.append([v.numerator, v.denominator])
        M.append(row)

    def shp(x):
        return [x[2 * i:2 * i + 2] for i in range(n // 2)] if het else x
    bad = []
    if r["dW"] != shp(dW):
        bad.append(("dW", "result.dW is not the transposed list of recorded increments"))
    if r["W"] != shp(W):
        bad.append(("wiener_process", "result.wiener_process is not 0 followed by the running sum of dW"))
    if r["meas"] != shp(M):
        bad.append(("measurement", "result.measurement is not <M> + dW_factor*dW/dt (%s)" % case["store"]))
    return bad


# -------------------------------------- K4: integrator bookkeeping on real solvers
EXPLICIT_1 = ["euler", "platen", "milstein", "pred_corr"]
EXPLICIT_2 = ["taylor1.5", "explicit1.5"]


def small_system(rng, nops, dim=2):
    import qutip

    def rnd_c():
        a = np.array([[complex(rng.randrange(-2, 3), rng.randrange(-2, 3))
                       for _ in range(dim)] for _ in range(dim)])
        return a
    h = rnd_c()
    H = qutip.Qobj((h + h.conj().T) / 2)
    cs = [qutip.Qobj(rnd_c() / 2) for _ in range(nops)]
    return H, cs


def gen_run_case(rng):
    method = rng.choice(EXPLICIT_1 + EXPLICIT_2 + ["rouchon"])
    het = rng.random() < 0.4
    nops = rng.choice([1, 1, 2])
    den = rng.choice([1, 1, 2, 4, 8])
    ntl = rng.choice([1, 2, 3, 4])
    targets = []
    cur = 0
    for _ in range(ntl):
        u = rng.random()
        if u < 0.6:
            cur += den * rng.choice([1, 1, 2, 3])
        elif u < 0.9:
            cur += rng.randrange(max(1, den // 2), 3 * den + 1)
        else:
            cur += rng.randrange(0, den + 1)          # may be skipped
        targets.append(cur)
    return {"method": method, "het": het, "nops": nops, "den": den,
            "targets": targets, "dt": rng.choice([0.0625, 0.03125]),
            "sysseed": rng.randrange(1 << 30), "open": rng.random() < 0.7 or
            method not in ("euler", "platen", "explicit1.5", "rouchon")}


def run_run_impl(case):
    import qutip
    r2 = random.Random(case["sysseed"])
    H, cs = small_system(r2, case["nops"])
    rows = 2 if case["method"] in EXPLICIT_2 else 1
    n = case["nops"] * (2 if case["het"] else 1)
    maxsteps = (case["targets"][-1] // case["den"]) + 2 if case["targets"] else 2
    vals = [r2.randrange(-9, 10) for _ in range((maxsteps + 1) * rows * n)]
    unit = 2.0 ** -7
    g = FakeGen(vals, unit)
    cls = qutip.SMESolver if case["open"] else qutip.SSESolver
    opts = {"method": case["method"], "dt": case["dt"], "store_measurement": "start",
            "progress_bar": "", "store_states": False, "keep_runs_results": True}
    s = cls(H, cs, heterodyne=case["het"], options=opts)
    psi = qutip.basis(2, 0)
    tlist = [0.0] + [m * case["dt"] / case["den"] for m in case["targets"]]
    out = {"vals": vals, "rows": rows, "n": n}
    with warnings.catch_warnings():
        warnings.simplefilter("ignore")
        try:
            state0 = s._prepare_state(psi if not case["open"] else qutip.ket2dm(psi))
            res = s._initialize_run_one_traj(g, state0, tlist, None)
            noise = []
            err = None
            try:
                for t, st, nz in s._integrator.run(tlist):
                    noise.append(np.array(nz) / unit)
            except ValueError as e:
                err = str(e)[:50]
        except Exception as e:          # pragma: no cover
            out["crash"] = repr(e)[:200]
            return out
    out["noise"] = [ints(x) for x in noise]
    out["err"] = err
    out["drawn"] = g.k
    out["calls"] = g.calls[:3]
    return out


def coq_run_expr(case, r):
    return "run_observe (stream %s) %s %s %s %s" % (
        clist(r["vals"], cz), cnat(r["rows"]), cnat(r["n"]), cpos(case["den"]),
        clist(case["targets"], cnat))


# ----------------------------------------------------- solver-level round trips
ALL_SME = ["euler", "platen", "milstein", "pred_corr", "rouchon",
           "taylor1.5", "explicit1.5", "milstein_imp", "taylor1.5_imp"]
ALL_SSE = ["euler", "platen", "rouchon", "explicit1.5"]
MEAS_OK = ["euler", "platen", "milstein", "pred_corr"]


def states_equal(a, b):
    return len(a) == len(b) and all(np.array_equal(x.full(), y.full()) for x, y in zip(a, b))


def max_diff(a, b):
    return max(float(np.abs(x.full() - y.full()).max()) for x, y in zip(a, b))


SITE_RFE = "stochastic.py:StochasticSolver.run_from_experiment"


def as_form(arr, form):
    """The record in the container the caller might use."""
    a = np.array(arr, dtype=float)
    if form == "C":
        return np.ascontiguousarray(a)
    if form == "F":
        return np.asfortranarray(a)
    return a.tolist()


def snapshot(x):
    return x.tobytes() if isinstance(x, np.ndarray) else json.dumps(x)


def roundtrip_case(ctx, rng, open_, method, het, exact, nops=None, form=None, store=None):
    """run -> record -> run_from_experiment (fresh solvers).  Returns a list of
    (site, signature, message, detail)."""
    import qutip
    nops = nops or rng.choice([1, 1, 2, 3])
    form = form or rng.choice(["C", "F", "list"])
    sysseed = rng.randrange(1 << 30)
    r2 = random.Random(sysseed)
    H, cs = small_system(r2, nops)
    store = store or rng.choice(["start", "start", "middle", "end"])
    dt = rng.choice([0.0625, 0.03125])
    T = 2 if exact else rng.choice([3, 5, 8])
    tlist = [k * dt for k in range(T + 1)]
    cls = qutip.SMESolver if open_ else qutip.SSESolver
    opts = {"method": method, "dt": dt, "store_measurement": store, "progress_bar": "",
            "store_states": True, "keep_runs_results": True}
    psi = qutip.basis(2, 0) if rng.random() < 0.5 else (qutip.basis(2, 0) + qutip.basis(2, 1)).unit()
    if exact:
        psi = qutip.basis(2, rng.randrange(2))
    rho0 = qutip.ket2dm(psi) if open_ else psi
    rows = 2 if method in ("taylor1.5", "explicit1.5", "taylor1.5_imp") else 1
    n = nops * (2 if het else 1)
    key = {"open": open_, "method": method, "het": het, "nops": nops, "sysseed": sysseed,
           "store": store, "dt": dt, "T": T, "exact": exact, "record_form": form}
    found = []

    def solver():
        return cls(H, cs, heterodyne=het, options=opts)

    def seed():
        if exact:
            vals = [random.Random(sysseed + 1).randrange(-3, 4) for _ in range(1)]
            rr = random.Random(sysseed + 1)
            vals = [rr.randrange(-3, 4) for _ in range((T + 1) * rows * n)]
            return FakeGen(vals, 2.0 ** -3)
        return np.random.SeedSequence(sysseed)

    with warnings.catch_warnings():
        warnings.simplefilter("ignore")
        r1 = solver().run(rho0, tlist, ntraj=1, seeds=[seed()]).trajectories[0]
        r1b = solver().run(rho0, tlist, ntraj=1, seeds=[seed()]).trajectories[0]
    key["dW"] = fracs(r1.dW) if exact else None
    ctx.count_case(("roundtrip", json.dumps(key, sort_keys=True, default=str)), nontrivial=True)
    if not (states_equal(r1.states, r1b.states) and np.array_equal(r1.dW, r1b.dW)):
        found.append(("stochastic.py:StochasticSolver.run", "same-noise-different-trajectory",
                      "two fresh solvers given the same seed/noise disagree", key))
    # ---- reported quantities
    dW = np.array(r1.dW)
    flat = dW.reshape(n, T)
    W = np.array(r1.wiener_process).reshape(n, T + 1)
    want = np.zeros((n, T + 1))
    for k in range(T):
        want[:, k + 1] = want[:, k] + flat[:, k]
    if not np.array_equal(W, want):
        found.append(("stochastic.py:StochasticTrajResult.wiener_process", "not-running-sum",
                      "wiener_process is not 0 followed by the running sum of dW", key))
    # measurement = <M> + f dW/dt with <M> taken at the stated end of the step
    m_ops = []
    for c in cs:
        cm = c.full()
        if het:
            m_ops += [cm + cm.conj().T, -1j * (cm - cm.conj().T)]
        else:
            m_ops.append(cm + cm.conj().T)
    f = 2**0.5 if het else 1.0

    def ex(M, st):
        a = st.full()
        if a.shape[1] == 1:
            return float(np.real(a.conj().T @ M @ a)[0, 0])
        return float(np.real(np.trace(M @ a)))
    meas = np.array(r1.measurement).reshape(n, T)
    worst = 0.0
    for i in range(n):
        es = [ex(m_ops[i], st) for st in r1.states]
        for k in range(T):
            e = {"start": es[k], "end": es[k + 1], "middle": 0.5 * (es[k] + es[k + 1])}[store]
            worst = max(worst, abs(meas[i, k] - (e + f * flat[i, k] / dt)))
    # float validation: relative to the size of the quantities involved
    state_scale = max(float(np.abs(st.full()).max()) for st in r1.states)
    diverged = state_scale > 1e3
    if diverged:
        ctx.cov["diverged_roundtrips"] = ctx.cov.get("diverged_roundtrips", 0) + 1
    if worst > 1e-9 * max(1.0, float(np.abs(meas).max())) and not diverged:
        found.append(("stochastic.py:StochasticTrajResult.measurement", "formula",
                      "measurement differs from <M> + dW_factor*dW/dt by %.3g" % worst, key))
    # trace / Hermiticity of every stored state (validation, tolerance)
    for st in r1.states:
        a = st.full()
        if open_:
            scale = float(np.abs(a).max())
            if scale > 1e3:
                # the trajectory has diverged (step too coarse for this scheme
                # on this system): b(rho) = C rho - tr(C rho) rho then cancels
                # catastrophically in floating point and trace / Hermiticity
                # are lost to rounding, not to the scheme [NUM]; counted, not
                # judged (the bitwise replay checks below still apply)
                break
            if abs(np.trace(a) - 1) > 1e-9 or np.abs(a - a.conj().T).max() > 1e-9:
                found.append(("sode:%s" % method, "trace-or-hermiticity",
                              "state with trace %r / non-Hermitian part %.3g"
                              % (complex(np.trace(a)), float(np.abs(a - a.conj().T).max())), key))
                break
    # ---- replays from the recorded increments and from the measurement
    # record.  The record is handed over in the container `form` (C-contiguous
    # float64 array, Fortran-ordered array or nested list); it must come back
    # unchanged, replaying twice from the same object (same solver) and once
    # more on a fresh solver must give bitwise the same trajectory, and the
    # replay must report the record it was given.
    def replay_from(record, measurement):
        what = "measurement" if measurement else "dW"
        ref = np.array(record, dtype=float)
        rec = as_form(ref, form)
        snap = snapshot(rec)
        s_a = solver()
        try:
            ra = s_a.run_from_experiment(rho0, tlist, rec, measurement=measurement)
        except AttributeError as e:
            if form != "list":
                raise
            found.append((SITE_RFE, "list-record-raises-AttributeError",
                          "run_from_experiment does not accept the record as a (nested) list "
                          "although `noise` is documented as array_like: %s" % e,
                          dict(key, what=what)))
            rec = as_form(ref, "C")
            snap = snapshot(rec)
            ra = s_a.run_from_experiment(rho0, tlist, rec, measurement=measurement)
        detail = dict(key, what=what, record=ref.tolist())
        if snapshot(rec) != snap:
            found.append((SITE_RFE, "record-modified",
                          "run_from_experiment(measurement=%s) modified the %s record it was "
                          "given (%s, %d sc_ops, %s)" % (measurement, what, form, nops,
                                                         "heterodyne" if het else "homodyne"),
                          dict(detail, record_after=np.array(rec, dtype=float).tolist())))
        rb = s_a.run_from_experiment(rho0, tlist, rec, measurement=measurement)
        rc = solver().run_from_experiment(rho0, tlist, rec, measurement=measurement)
        if not (states_equal(ra.states, rb.states) and states_equal(ra.states, rc.states)):
            found.append((SITE_RFE, "second-replay-differs",
                          "replaying again from the same %s record object gives another "
                          "trajectory (2nd: %.3g, fresh solver: %.3g)"
                          % (what, max_diff(ra.states, rb.states), max_diff(ra.states, rc.states)),
                          detail))
        got = np.array(ra.measurement if measurement else ra.dW, dtype=float)
        scale = max(1.0, float(np.abs(ref).max()))
        dev = float(np.abs(got - ref).max()) if got.shape == ref.shape else float("inf")
        if (dev > 1e-9 * scale) if measurement else (dev != 0.0):
            found.append((SITE_RFE, "replayed-record-differs",
                          "the replay reports a %s record that differs from the one it was "
                          "given by %.3g" % (what, dev), detail))
        return ra

    with warnings.catch_warnings():
        warnings.simplefilter("ignore")
        try:
            r2_ = replay_from(r1.dW, False)
            if not states_equal(r1.states, r2_.states):
                found.append((SITE_RFE, "replay-dW-differs",
                              "replay from the recorded increments differs (max %.3g)"
                              % max_diff(r1.states, r2_.states), key))
        except TypeError as e:
            found.append((SITE_SETSTATE, "TypeError", method, dict(key, error=str(e))))
        except NotImplementedError:
            ctx.cov.setdefault("replay_not_supported", []).append(method)
        # ---- replay from the measurement record ("start" convention only)
        if store == "start":
            try:
                r3 = replay_from(r1.measurement, True)
                d = max_diff(r1.states, r3.states)
                # float replay through (m*dt)/sqrt2 - <M>*dt: validation with a
                # tolerance; the exact version of this check is the scheme-step
                # correspondence with measurement input (c17_sde)
                # (not judged on trajectories that diverge: the conversion
                # m*dt - <M>*dt cancels and the error is amplified without bound)
                tol = 1e-9 * max(1.0, state_scale)
                if d > tol and not diverged:
                    site = SITE_ROUCHON if method == "rouchon" else SITE_RFE
                    sig = "measurement-input-used-as-increments" if method == "rouchon" \
                        else "replay-measurement-differs"
                    found.append((site, sig,
                                  "replay from the measurement record differs from the recorded "
                                  "trajectory by %.3g (method %s)" % (d, method), key))
            except NotImplementedError:
                ctx.cov.setdefault("measurement_replay_refused", set()).add(method)
            except TypeError as e:
                found.append((SITE_SETSTATE, "TypeError", method, dict(key, error=str(e))))
    return found


def skipped_step_case(ctx):
    """A tlist interval shorter than dt/2 is skipped; the reported increment
    must have one entry per stochastic operator."""
    import qutip
    H, cs = small_system(random.Random(5), 2)
    s = qutip.SMESolver(H, cs, heterodyne=False,
                        options={"method": "euler", "dt": 0.125, "store_measurement": "start",
                                 "progress_bar": "", "keep_runs_results": True})
    with warnings.catch_warnings():
        warnings.simplefilter("ignore")
        try:
            r = s.run(qutip.fock_dm(2, 0), [0, 0.125, 0.15625, 0.25], ntraj=1,
                      seeds=[1]).trajectories[0]
        except Exception as e:
            ctx.violation(SITE_SKIP, "raises:" + type(e).__name__,
                          "run over a tlist with a short interval raises %r" % (e,),
                          {"tlist": [0, 0.125, 0.15625, 0.25], "method": "euler",
                           "noise_shapes": None})
            return
    shapes = [tuple(x.shape) for x in r.noise]
    ctx.count_case(("skipped-step", shapes))
    try:
        ok = np.array(r.dW).shape == (2, 3)
    except ValueError:
        ok = False
    if not ok:
        ctx.violation(SITE_SKIP, "skipped-step-noise-shape",
                      "a skipped interval reports zeros(N_dw) instead of one zero per "
                      "stochastic operator; result.dW raises for 2 sc_ops",
                      {"noise_shapes": shapes, "tlist": [0, 0.125, 0.15625, 0.25],
                       "method": "euler", "n_sc_ops": 2})



# ------------------------------------- exploration: one common limit [NUM]
CONV_LIMIT = {("sme", "euler"): 0.025, ("sse", "euler"): 0.008}
CONV_ADVERTISED = {"euler": 0.5, "platen": 1.0, "milstein": 1.0, "pred_corr": 0.5,
                   "rouchon": 1.0}


def convergence_exploration(ctx):
    """EXPLORATION, not a proof obligation: the same Brownian path (drawn at
    dt = 2**-11, coarsened by summation) is replayed through every scheme that
    supports replay at dt = 2**-6 .. 2**-9; the distance to a fine reference
    (entry-wise median of Platen, Milstein and Rouchon at 2**-11) must be small at 2**-9 and must have decreased, for the
    density-matrix and the wave-function equation alike (pure initial state).
    The observed strong orders are recorded in the evidence; they are too
    noisy on a few paths to be a pass/fail criterion."""
    import qutip
    H = 0.5 * qutip.sigmax() + 0.3 * qutip.sigmaz()
    c = 0.8 * qutip.sigmam() + 0.2 * qutip.sigmaz()
    psi = (qutip.basis(2, 0) + 1j * qutip.basis(2, 1)).unit()
    T, kf = 0.25, 11
    nf = int(T * 2 ** kf)
    P = 8 if ctx.quick else 32
    gen = np.random.default_rng(1000 + ctx.seed)
    levels = [6, 7, 8, 9]
    errs = {}

    def run(cls, method, k, state, fine):
        n = int(T * 2 ** k)
        dW = fine.reshape(n, -1).sum(axis=1)[None, :]
        s = cls(H, [c], heterodyne=False,
                options={"method": method, "dt": 2.0 ** -k, "progress_bar": "",
                         "store_final_state": True})
        r = s.run_from_experiment(state, [i * 2.0 ** -k for i in range(n + 1)], dW)
        return r.final_state.full()

    with warnings.catch_warnings():
        warnings.simplefilter("ignore")
        for p in range(P):
            fine = gen.normal(0, np.sqrt(2.0 ** -kf), size=nf)
            # reference: entry-wise median of three fine runs, so that one
            # wrong scheme does not drag the reference with it
            refs = np.array([run(qutip.SMESolver, m, kf, qutip.ket2dm(psi), fine)
                             for m in ("platen", "milstein", "rouchon")])
            ref = np.median(refs.real, axis=0) + 1j * np.median(refs.imag, axis=0)
            for cls, name, ms in ((qutip.SMESolver, "sme", ["euler", "platen", "milstein",
                                                            "pred_corr", "rouchon"]),
                                  (qutip.SSESolver, "sse", ["euler", "platen", "rouchon"])):
                for m in ms:
                    for k in levels:
                        a = run(cls, m, k, qutip.ket2dm(psi) if name == "sme" else psi, fine)
                        if a.shape[1] == 1:
                            a = a @ a.conj().T / np.vdot(a, a).real
                        errs.setdefault((name, m, k), []).append(float(np.abs(a - ref).max()))
                        ctx.count_case(("conv", ctx.seed, p, name, m, k))
    table = {}
    for (name, m, k), v in errs.items():
        table.setdefault("%s/%s" % (name, m), {})[k] = float(np.mean(v))
    report = {}
    for key, e in table.items():
        name, m = key.split("/")
        order = float(np.log2(e[6] / e[8]) / 2)
        report[key] = {"mean_err": {str(k): "%.3g" % e[k] for k in levels},
                       "observed_order_6_to_8": round(order, 2),
                       "advertised_order": CONV_ADVERTISED[m]}
        lim = CONV_LIMIT.get((name, m), 0.002)
        if not (e[9] <= lim and e[9] <= 0.85 * e[6]):
            ctx.violation("sode:%s:%s" % (name, m), "no-common-limit",
                          "on one Brownian path refined from dt=2^-6 to 2^-9 the scheme does "
                          "not approach the common limit: mean distance to the fine reference "
                          "%s (limit %.3g at 2^-9)" % (report[key]["mean_err"], lim),
                          {"kind": "convergence", "scheme": key, "paths": P,
                           "mean_err": report[key]["mean_err"], "seed": ctx.seed})
    ctx.cov["exploration_common_limit"] = report


# ------------------- partition consistency: no state carried across steps
TWO_ROW = ("taylor1.5", "explicit1.5", "taylor1.5_imp")


def partition_case(open_, method, het, tdep, nsc, pseed):
    """One trajectory over 12 integration steps (6 output intervals of 2
    steps) on a scripted noise stream, computed
      A  by solver.run in one go,
      B  by start() + step() in one go,
      C  in two chained pieces of 6 steps on ONE solver object (start() again
         from the reached state, the generator continuing the stream),
      D  in three chained pieces of 4 steps, a fresh solver for every piece.
    A trajectory is a function of (state, increments) only, so all four must
    be bitwise equal; anything a stepper / system object caches across steps
    (or across set_state) shows up as a difference.  The drift changes along
    the trajectory (driven, damped oscillator; optionally an explicitly
    time-dependent drive)."""
    import qutip
    N = 3
    a = qutip.destroy(N)
    rr = random.Random(pseed)
    g = rr.choice([0.5, 1.0, 1.5])
    H0 = qutip.num(N) + g * (a + a.dag())
    kap = rr.choice([0.5, 0.7, 1.0])
    if tdep:
        # H, the monitored and the unmonitored operators all depend on time
        H = qutip.QobjEvo([H0, [a + a.dag(), lambda t: 0.5 + t]])
        sc = [qutip.QobjEvo([kap * a, lambda t: 1 + 2 * t])]
        cops = [qutip.QobjEvo([0.5 * a, lambda t: 1 + 4 * t])] if open_ else []
    else:
        H = H0
        sc = [kap * a]
        cops = [0.5 * a] if open_ else []
    if nsc == 2:
        sc.append(0.3 * qutip.num(N))
    dt, per, nint = 2.0 ** -6, 2, 6
    tl = [k * per * dt for k in range(nint + 1)]
    cls = qutip.SMESolver if open_ else qutip.SSESolver
    opts = {"method": method, "dt": dt, "progress_bar": "", "store_states": True,
            "keep_runs_results": True}
    rows = 2 if method in TWO_ROW else 1
    n = nsc * (2 if het else 1)
    vals = [rr.randrange(-12, 13) for _ in range((nint * per + 2) * rows * n)]
    unit = 2.0 ** -6

    def mk():
        return FakeGen(vals, unit)
    kw = {"c_ops": cops} if open_ else {}

    def solver():
        return cls(H, sc, heterodyne=het, options=opts, **kw)
    psi = qutip.basis(N, 2)
    st0 = qutip.ket2dm(psi) if open_ else psi

    def chained(cuts, same):
        gen = mk()
        out = [st0]
        s = solver()
        state, prev = st0, 0
        for cut in cuts + [nint]:
            if not same:
                s = solver()
            s.start(state, tl[prev], seed=[gen])
            for t in tl[prev + 1:cut + 1]:
                state = s.step(t)
                out.append(state)
            prev = cut
        return out

    with warnings.catch_warnings():
        warnings.simplefilter("ignore")
        A = solver().run(st0, tl, ntraj=1, seeds=[mk()]).trajectories[0].states
        runs = {"start+step in one go": chained([], True),
                "two chained pieces (cut after 6 steps), same solver": chained([3], True),
                "three chained pieces (cuts after 4 and 8 steps), fresh solvers": chained([2, 4], False)}
    # ---- output grids of other coarseness over the same dt and the same
    # noise stream: every step (12 intervals), every 3rd, every 4th, one
    # interval of 12 steps; states at common times must be bitwise equal to
    # those of run A (output every 2nd step).  Also with the monitored
    # operator reading the Wiener process (feedback), where restarts are not
    # comparable but output grids are.
    def grid_run(per_, feedback):
        cls_ = cls
        sc_ = list(sc)
        if feedback:
            sc_[0] = qutip.QobjEvo([kap * a, lambda t, W: 1 + 2 * t + 0.25 * W(t)[0]],
                                   args={"W": cls_.WienerFeedback()})
        s_ = cls_(H, sc_, heterodyne=het, options=opts, **kw)
        tl_ = [k * per_ * dt for k in range(nint * per // per_ + 1)]
        return s_.run(st0, tl_, ntraj=1, seeds=[mk()]).trajectories[0].states

    grid_bad = []
    with warnings.catch_warnings():
        warnings.simplefilter("ignore")
        for feedback in (False, True):
            base = A if not feedback else grid_run(2, True)
            for per_ in (1, 3, 4, 12):
                X = grid_run(per_, feedback)
                total = nint * per
                for k_, st_ in enumerate(X):
                    step_ = k_ * per_
                    if step_ % 2 == 0:
                        d_ = float(np.abs(st_.full() - base[step_ // 2].full()).max())
                        if d_ != 0.0:
                            grid_bad.append(("output every %d steps%s" % (
                                per_, " with Wiener feedback" if feedback else ""), d_, step_))
                            break
    desc = {"open": open_, "method": method, "het": het, "time_dependent_H": tdep,
            "n_sc_ops": nsc, "pseed": pseed, "H": "num(3) + %g (a + a^dag)%s" % (
                g, " + (0.5 + t)(a + a^dag)" if tdep else ""),
            "sc_ops": "%g a%s%s" % (kap, " (1 + 2t)" if tdep else "",
                                    ", 0.3 num" if nsc == 2 else ""),
            "c_ops": ("0.5 a" + (" (1 + 4t)" if tdep else "")) if open_ else "none",
            "state0": "fock 2", "dt": dt, "tlist": tl, "stream": vals, "stream_unit": unit}
    bad = []
    for name, X in runs.items():
        d = [float(np.abs(x.full() - y.full()).max()) for x, y in zip(A, X)]
        if len(A) != len(X) or any(v != 0.0 for v in d):
            k = next(i for i, v in enumerate(d) if v != 0.0)
            bad.append((name, max(d), k))
    bad += grid_bad
    return desc, bad


def partition_consistency(ctx, rng, dist):
    combos = [(True, m) for m in ALL_SME] + [(False, m) for m in ALL_SSE]
    reps = 1 if ctx.quick else 4
    dd = dist.setdefault("partition", {})
    for rep in range(reps):
        for open_, method in combos:
            for het in (False, True):
                for tdep in (False, True):
                    nsc = 1 if (rep + het + tdep) % 2 == 0 else 2
                    pseed = rng.randrange(1 << 30)
                    tag = "%s/%s" % ("sme" if open_ else "sse", method)
                    dd[tag] = dd.get(tag, 0) + 1
                    try:
                        desc, bad = partition_case(open_, method, het, tdep, nsc, pseed)
                    except Exception as e:
                        ctx.violation("sode:partition:" + tag, "raises:" + type(e).__name__,
                                      "chained evolution raised %r" % (e,),
                                      {"kind": "partition", "open": open_, "method": method,
                                       "het": het, "tdep": tdep, "nsc": nsc, "pseed": pseed})
                        continue
                    ctx.count_case(("partition", json.dumps(desc, sort_keys=True, default=str)))
                    if bad:
                        name, mx, k = bad[0]
                        ctx.violation(
                            "sode:partition:" + tag, "one-go-vs-chained-differs",
                            "the same noise stream gives different %s trajectories: run() with "
                            "output every 2 steps vs %s differ by %.3g (first at index %d) - "
                            "the trajectory depends on how it is cut into integrate() calls"
                            % (method, name, mx, k),
                            {"kind": "partition", "case": desc, "tdep": tdep, "nsc": nsc,
                             "differences": [(n_, m_, k_) for n_, m_, k_ in bad]})


# ------------------------- strong order on a refined Brownian path [NUM]
ORDER_ADV = {"euler": 0.5, "platen": 1.0, "milstein": 1.0, "pred_corr": 0.5, "rouchon": 1.0,
             "taylor1.5": 1.5, "explicit1.5": 1.5, "milstein_imp": 1.0, "taylor1.5_imp": 1.5}
ORDER_MARGIN = 0.5
PEER_FACTOR = 4.0


def _coarse_noise(w, z, h, M):
    """(dW, dW') pairs on steps M*h from fine increments w and fine integrals
    z = int W ds, with the convention dz = 0.5 (dW + dW'/sqrt 3) dt of the
    order-1.5 steppers."""
    n, k = w.shape
    w = w.reshape(n // M, M, k)
    z = z.reshape(n // M, M, k)
    before = np.cumsum(w, axis=1) - w
    dW = w.sum(axis=1)
    dZ = (z + h * before).sum(axis=1)
    dt = M * h
    out = np.empty((n // M, 2, k))
    out[:, 0, :] = dW
    out[:, 1, :] = np.sqrt(3) * (2 * dZ / dt - dW)
    return out


def strong_order_check(ctx):
    """LABELLED NUMERICAL CHECK (not a proof obligation, [NUM]): one Brownian
    path (increments and the matching iterated integrals, drawn at h = T/2^11)
    is coarsened to 2^3 .. 2^7 steps and fed to every scheme (all nine SME
    schemes, four SSE schemes) through a Wiener object holding that noise; the
    mean (over paths) distance at T to a fine order-1.5 reference is fitted
    against dt.  Required: observed order >= advertised - 0.5.  (Measured on
    the unchanged tree, 16 paths, 5 seeds: worst observed - advertised =
    -0.27; with 6 paths -0.43, which is why the margin is not the 0.35 one
    would like and why small order losses are left to the other oracles.)
    The SSE runs use a pure state and no unmonitored channel and are compared
    with the density-matrix reference: same limit for both equations."""
    import qutip
    from qutip.solver.sode._noise import Wiener
    N = 3
    a = qutip.destroy(N)
    H = qutip.num(N) + a + a.dag()
    sc = [0.7 * a]
    T, nf = 0.5, 2 ** 11
    h = T / nf
    levels = [2 ** k for k in (3, 4, 5, 6, 7)]
    P = 16 if ctx.quick else 40
    gen = np.random.default_rng(7000 + ctx.seed)
    psi = qutip.basis(N, 2)

    def run_path(cls, method, cops, state, noise, dt):
        kw = {"c_ops": cops} if cls is qutip.SMESolver else {}
        s = cls(H, sc, heterodyne=False, options={"method": method, "dt": dt,
                                                   "progress_bar": ""}, **kw)
        nz = noise if method in TWO_ROW else noise[:, :1, :]
        w = Wiener(0., dt, None, nz.shape[1:])
        w.noise = np.ascontiguousarray(nz)
        s._integrator.set_state(0., s._prepare_state(state), w)
        st = s._restore_state(s._integrator.integrate(T)[1], copy=True).full()
        if st.shape[1] == 1:
            st = st @ st.conj().T / np.vdot(st, st).real
        return st

    errs = {}
    with warnings.catch_warnings():
        warnings.simplefilter("ignore")
        for p in range(P):
            w = gen.normal(0, np.sqrt(h), size=(nf, 1))
            u = gen.normal(0, np.sqrt(h), size=(nf, 1))
            z = 0.5 * h * (w + u / np.sqrt(3))
            for name, cls, cops, ms in (
                    ("sme", qutip.SMESolver, [0.5 * a], ALL_SME),
                    ("sse", qutip.SSESolver, [], ALL_SSE)):
                fine = _coarse_noise(w, z, h, 1)
                refs = [run_path(qutip.SMESolver, m, cops, qutip.ket2dm(psi), fine, h)
                        for m in ("taylor1.5_imp", "explicit1.5")]
                ref = refs[0]
                if np.abs(refs[0] - refs[1]).max() > 1e-3:
                    # the two fine references disagree: a third one decides
                    # (one broken scheme must not spoil the reference)
                    r3 = run_path(qutip.SMESolver, "taylor1.5", cops, qutip.ket2dm(psi), fine, h)
                    if np.abs(r3 - refs[1]).max() < np.abs(r3 - refs[0]).max():
                        ref = refs[1]
                for m in ms:
                    for i, n in enumerate(levels):
                        out = run_path(cls, m, cops, qutip.ket2dm(psi) if name == "sme" else psi,
                                       _coarse_noise(w, z, h, nf // n), T / n)
                        errs.setdefault((name, m), np.zeros(len(levels)))[i] += \
                            np.linalg.norm(out - ref) / P
                        ctx.count_case(("order", ctx.seed, p, name, m, n))
    dts = T / np.array(levels)
    report = {}
    for (name, m), e in errs.items():
        order = float(np.polyfit(np.log(dts), np.log(e), 1)[0])
        key = "%s/%s" % (name, m)
        report[key] = {"mean_err": ["%.2e" % x for x in e], "observed_order": round(order, 2),
                       "advertised_order": ORDER_ADV[m]}
        if not order >= ORDER_ADV[m] - ORDER_MARGIN:
            ctx.violation("sode:order:" + key, "strong-order-below-advertised",
                          "%s on one Brownian path refined from %d to %d steps: observed strong "
                          "order %.2f, advertised %.1f (mean errors %s)"
                          % (key, levels[0], levels[-1], order, ORDER_ADV[m],
                             report[key]["mean_err"]),
                          {"kind": "order", "scheme": key, "paths": P, "seed": ctx.seed,
                           "levels": levels, "mean_err": report[key]["mean_err"],
                           "observed_order": order})
    # peer comparison: schemes advertised with the same order (groups of at
    # least three) must reach comparable accuracy at the finest level; one that
    # is PEER_FACTOR times worse than the median of its group has lost order
    # even if its fitted slope is still inside the margin above.  (Unchanged
    # tree, 10 seeds x 16 paths: worst ratio to the group median 1.72.)
    peers = {}
    for (name, m), e in errs.items():
        peers.setdefault((name, ORDER_ADV[m]), []).append((m, float(e[-1])))
    for (name, adv), lst in peers.items():
        if len(lst) < 3:
            continue
        med = float(np.median([x for _, x in lst]))
        for m, x in lst:
            key = "%s/%s" % (name, m)
            report[key]["finest_err_over_group_median"] = round(x / med, 2)
            if x > PEER_FACTOR * med:
                ctx.violation("sode:order:" + key, "less-accurate-than-same-order-schemes",
                              "%s at %d steps is %.1f times less accurate than the median of the "
                              "schemes advertised with the same strong order %.1f (%s)"
                              % (key, levels[-1], x / med, adv,
                                 {mm: "%.2e" % xx for mm, xx in lst}),
                              {"kind": "order", "scheme": key, "paths": P, "seed": ctx.seed,
                               "group": {mm: xx for mm, xx in lst}})
    ctx.cov["numerical_check_strong_order"] = {
        "rule": "observed order >= advertised - %.2f; finest-level error <= %g x median of the "
                "schemes with the same advertised order; %d paths" % (ORDER_MARGIN, PEER_FACTOR, P),
        "schemes": report}


# ------------------- histories on ONE solver object vs fresh solvers
def _h_drive(t, w):
    return w * np.cos(2 * t)


def _h_kap(t, k):
    return k * (1 + 0.5 * t)


def _h_fb(t, k, W):
    return k + 0.25 * W(t)[0]


SITE_PRESET_CALL = "sode/_noise.py:PreSetWiener.__call__"


def history_case(open_, method, het, feedback, hseed):
    """The noise record determines the trajectory - also on a solver object
    with a past.  One solver `hist` (built with args A0) goes through a
    sequence of actions; every result is compared, bitwise, with a FRESH
    solver constructed directly with the arguments / step size in force and
    fed the same record:
      1 run_from_experiment (warm-up, args A0)
      2 run_from_experiment(args=A1)                      [same tlist]
      3 run_from_experiment(args=A2) on a tlist of twice the spacing
      4 run(ntraj=2, args=A1) with scripted generators (trajectories in sequence)
      5 start(); step(); step(args=A2)
    H, the monitored and the unmonitored operator depend on args; with
    `feedback` the monitored operator also reads the Wiener process.  For
    Rouchon the operators derived in _make_operators (M, c + c^dag, c_i c_j)
    are compared with those of the fresh solver as well.
    Returns (description, list of (site, signature, message))."""
    import qutip
    N = 3
    a = qutip.destroy(N)
    cls = qutip.SMESolver if open_ else qutip.SSESolver
    rr = random.Random(hseed)
    dt = 2.0 ** -6
    rows = 2 if method in TWO_ROW else 1
    n = 2 if het else 1
    A0 = {"w": 0.5, "k": 0.75}
    A1 = {"w": rr.choice([3.0, -2.0, 1.5]), "k": 0.75}
    A2 = {"w": rr.choice([-1.0, 2.5]), "k": rr.choice([1.25, 0.5])}

    def build(args, dt_):
        H = qutip.QobjEvo([qutip.num(N), [a + a.dag(), _h_drive]], args={"w": args["w"]})
        if feedback:
            sc = [qutip.QobjEvo([a, _h_fb], args={"k": args["k"], "W": cls.WienerFeedback()})]
        else:
            sc = [qutip.QobjEvo([a, _h_kap], args={"k": args["k"]})]
        kw = {"c_ops": [qutip.QobjEvo([0.5 * a, _h_kap], args={"k": args["k"]})]} if open_ else {}
        return cls(H, sc, heterodyne=het,
                   options={"method": method, "dt": dt_, "progress_bar": "", "store_states": True,
                            "store_measurement": "start", "keep_runs_results": True}, **kw)

    st0 = qutip.fock_dm(N, 1) if open_ else qutip.basis(N, 1)
    tl1 = [k * dt for k in range(5)]
    tl2 = [k * 2 * dt for k in range(5)]

    def rec(T):
        x = np.array([[rr.randrange(-8, 9) * 2.0 ** -6 for _ in range(T)] for _ in range(n)])
        return x.reshape((n // 2, 2, T)) if het else x

    def same(X, Y):
        return len(X) == len(Y) and all(np.array_equal(x.full(), y.full()) for x, y in zip(X, Y))

    def diff(X, Y):
        return max(float(np.abs(x.full() - y.full()).max()) for x, y in zip(X, Y))

    desc = {"open": open_, "method": method, "het": het, "feedback": feedback, "hseed": hseed,
            "A0": A0, "A1": A1, "A2": A2, "dt": dt,
            "system": "H = num(3) + w cos(2t)(a+a^dag); sc_op = %s a; c_op = 0.5 k(1+t/2) a"
                      % ("(k + W(t)[0]/4)" if feedback else "k(1+t/2)")}
    found = []
    site = "sode:history:%s/%s" % ("sme" if open_ else "sse", method)

    def derived_ops(solver):
        integ = solver._integrator
        if not hasattr(integ, "scc"):
            return None
        ts = (0.0, 3 * dt)
        out = [integ.M(t).full() for t in ts]
        out += [op(t).full() for op in integ.cpcds for t in ts]
        out += [op(t).full() for row in integ.scc for op in row for t in ts]
        return out

    def judge(step, r_states, f_states, hist=None, fresh=None):
        if not same(r_states, f_states):
            found.append((site, "history-changes-trajectory",
                          "%s: a solver with a past and a fresh solver built with the same "
                          "arguments give different trajectories for the same noise record "
                          "(max %.3g)" % (step, diff(r_states, f_states)), step))
        if hist is not None and not feedback:
            d1, d2 = derived_ops(hist), derived_ops(fresh)
            if d1 is not None and not all(np.array_equal(x, y) for x, y in zip(d1, d2)):
                found.append((site, "derived-operators-stale",
                              "%s: the operators derived by the integrator (M, c + c^dag, "
                              "c_i c_j) differ from those of a fresh solver with the current "
                              "arguments" % step, step))

    with warnings.catch_warnings():
        warnings.simplefilter("ignore")
        hist = build(A0, dt)
        if method not in TWO_ROW:
            try:
                hist.run_from_experiment(st0, tl1, rec(4))
                d2 = rec(4)
                r = hist.run_from_experiment(st0, tl1, d2, args=A1)
                fresh = build(A1, dt)
                f = fresh.run_from_experiment(st0, tl1, d2)
                judge("run_from_experiment(args=A1) after a run with A0", r.states, f.states,
                      hist, fresh)
                d3 = rec(4)
                r = hist.run_from_experiment(st0, tl2, d3, args=A2)
                fresh = build(A2, 2 * dt)
                f = fresh.run_from_experiment(st0, tl2, d3)
                judge("run_from_experiment(args=A2) on a tlist of twice the spacing",
                      r.states, f.states, hist, fresh)
            except ValueError as e:
                if feedback and "broadcast" in str(e):
                    found.append((SITE_PRESET_CALL, "last_W-has-record-length",
                                  "WienerFeedback under run_from_experiment: PreSetWiener.last_W "
                                  "has len(tlist)-1 entries instead of one per stochastic "
                                  "operator: %s" % e, "run_from_experiment with feedback"))
                else:
                    raise
        vals = [rr.randrange(-8, 9) for _ in range(40 * rows * n)]
        unit = 2.0 ** -6
        hist.options["dt"] = dt
        r = hist.run(st0, tl1, ntraj=2, args=A1,
                     seeds=[FakeGen(vals, unit), FakeGen(vals[7:], unit)])
        fresh = build(A1, dt)
        f1 = fresh.run(st0, tl1, ntraj=1, seeds=[FakeGen(vals, unit)]).trajectories[0]
        f2 = build(A1, dt).run(st0, tl1, ntraj=1, seeds=[FakeGen(vals[7:], unit)]).trajectories[0]
        judge("run(ntraj=2, args=A1), first trajectory", r.trajectories[0].states, f1.states)
        judge("run(ntraj=2, args=A1), second trajectory", r.trajectories[1].states, f2.states,
              hist, fresh)
        # step interface, arguments changed between two steps
        g = FakeGen(vals, unit)
        hist.start(st0, 0., seed=[g])
        s1 = hist.step(4 * dt)
        s2 = hist.step(8 * dt, args=A2)
        g2 = FakeGen(vals, unit)
        fa = build(A1, dt)
        fa.start(st0, 0., seed=[g2])
        t1 = fa.step(4 * dt)
        if feedback:
            # the Wiener process seen by the feedback must continue: the
            # reference changes the arguments on the (otherwise fresh) solver
            t2 = fa.step(8 * dt, args=A2)
        else:
            fb_ = build(A2, dt)
            fb_.start(t1, 4 * dt, seed=[g2])
            t2 = fb_.step(8 * dt)
        judge("start(); step(); step(args=A2)", [s1, s2], [t1, t2])
    desc["stream"] = vals[:16]
    return desc, found


def history_oracle(ctx, rng, dist):
    combos = [(True, m) for m in ALL_SME] + [(False, m) for m in ALL_SSE]
    reps = 1 if ctx.quick else 3
    dd = dist.setdefault("history", {})
    for rep in range(reps):
        for open_, method in combos:
            for het in (False, True):
                for feedback in (False, True):
                    hseed = rng.randrange(1 << 30)
                    tag = "%s/%s" % ("sme" if open_ else "sse", method)
                    dd[tag] = dd.get(tag, 0) + 1
                    try:
                        desc, found = history_case(open_, method, het, feedback, hseed)
                    except Exception as e:
                        ctx.violation("sode:history:" + tag, "raises:" + type(e).__name__,
                                      "history on one solver object raised %r" % (e,),
                                      {"kind": "history", "open": open_, "method": method,
                                       "het": het, "feedback": feedback, "hseed": hseed})
                        continue
                    ctx.count_case(("history", json.dumps(desc, sort_keys=True, default=str)))
                    for site, sig, msg, step in found:
                        ctx.violation(site, sig, msg, {"kind": "history", "case": desc,
                                                       "step": step})


# ---------------------- which time every internal step is evaluated at
def step_time_case(open_, method, den, targets, dt):
    """Drive one real integrator over the output times targets*dt/den with a
    Hamiltonian whose coefficient records every time it is evaluated at;
    return, per integrate() call, the sorted set of step indices
    floor((t - t0)/dt) seen (the index pos+N of the end point, which the
    implicit schemes and Explicit15 with one operator also evaluate, is
    dropped)."""
    import qutip
    N = 2
    log = []

    def rec(t):
        log.append(float(t))
        return 1.0
    H = qutip.QobjEvo([qutip.sigmaz(), [qutip.sigmax(), rec]])
    sc = [0.5 * qutip.sigmam()]
    cls = qutip.SMESolver if open_ else qutip.SSESolver
    s = cls(H, sc, heterodyne=False, options={"method": method, "dt": dt, "progress_bar": ""})
    st0 = qutip.fock_dm(N, 0) if open_ else qutip.basis(N, 0)
    seen = []
    err = None
    with warnings.catch_warnings():
        warnings.simplefilter("ignore")
        s.start(st0, 0., seed=[FakeGen([1, -1, 2, 0, -2, 1] * 200, 2.0 ** -6)])
        del log[:]
        pos_before = 0.0
        for m in targets:
            try:
                s.step(m * dt / den)
            except ValueError as e:
                err = str(e)[:40]
                break
            idx = sorted(set(int(np.floor(t / dt)) for t in log))
            seen.append(idx)
            del log[:]
    return seen, err


def step_time_correspondence(ctx, rng, dist):
    combos = [(True, m) for m in ALL_SME] + [(False, m) for m in ALL_SSE]
    reps = 1 if ctx.quick else 6
    cases = []
    for rep in range(reps):
        for open_, method in combos:
            den = rng.choice([1, 2, 4])
            targets, cur = [], 0
            for _ in range(rng.choice([2, 3, 4])):
                cur += rng.choice([den, 2 * den, 3 * den, 5 * den, den + den // 2, 4 * den])
                targets.append(cur)
            cases.append((open_, method, den, targets, rng.choice([0.0625, 0.03125])))
    exprs = ["(int_plan %s 0 %s, times_observe %s %s)" % (
        cpos(c[2]), clist(c[3], cnat), cpos(c[2]), clist(c[3], cnat)) for c in cases]
    try:
        vals = vlib.coq_eval_values("cases_C17_times", HEADER, exprs, chunk=200)
    except RuntimeError as e:
        ctx.violation("corr:C17:times-model-eval", "coqc", "step-time model evaluation failed",
                      {"log": str(e)}, found_input=False)
        return
    dd = dist.setdefault("step_times", {})
    for (open_, method, den, targets, dt), v in zip(cases, vals):
        tag = "%s/%s" % ("sme" if open_ else "sse", method)
        dd[tag] = dd.get(tag, 0) + 1
        plan, mtimes = vlib.parse_coq_value(v)
        plan = [list(p_) if isinstance(p_, tuple) else [p_] for p_ in plan]
        mtimes = _lists(mtimes)
        try:
            seen, err = step_time_case(open_, method, den, targets, dt)
        except Exception as e:
            ctx.violation("sode:step-times:" + tag, "raises:" + type(e).__name__,
                          "stepping over the output grid raised %r" % (e,),
                          {"kind": "steptimes", "open": open_, "method": method, "den": den,
                           "targets": targets, "dt": dt})
            continue
        # model: one entry per PStep item (skipped intervals evaluate nothing new)
        want, it, pos = [], iter(mtimes), 0
        for p_ in plan:
            if p_[0] == "PStep":
                want.append(next(it))
                pos += p_[1]
            elif p_[0] == "PSkip":
                want.append([])
        got = []
        pos = 0
        for p_, idx in zip(plan, seen):
            n_ = p_[1] if p_[0] == "PStep" else 0
            got.append([k for k in idx if k != pos + n_] if n_ else [])
            pos += n_
        ctx.count_case(("steptimes", open_, method, den, tuple(targets), dt))
        ctx.cov["traces_validated_against_impl"] += 1
        if got != want or bool(err) != any(p_[0] == "PErr" for p_ in plan):
            ctx.violation("corr:sode:step-times:" + tag, "internal-step-times-differ",
                          "the times at which %s evaluates the Hamiltonian during integrate() "
                          "are not t0 + k dt for the consecutive internal steps k: per "
                          "integrate() call, step indices seen %r, expected %r"
                          % (method, got, want),
                          {"kind": "steptimes", "open": open_, "method": method, "den": den,
                           "targets": targets, "dt": dt, "seen": seen, "model": want})

# ----------------------------------------------------------------------- run
def report_wiener_call(ctx, case, r, model_agrees):
    """Classify a failure of W(t): the known defect is the one the faithful
    model reproduces (inclusive upper bound re-adding noise[idx_last])."""
    bad = [b for b in wiener_oracle(case, r) if b[0] == "W"]
    if not bad:
        return
    sig = "double-counts-noise-idx-last" if model_agrees else "other-than-modelled"
    ctx.violation(SITE_CALL, sig, bad[0][1],
                  {"case": case, "impl": r["answers"], "kind": "wiener"})


def run(ctx):
    rng = random.Random(ctx.seed * 7919 + 17)
    ctx.cov["rule"] = (
        "K1: (shape, t0, dt, integer stream, history of dW/__call__ queries at on- and "
        "off-grid times) on the real Wiener; K2: PreSetWiener construction (valid and "
        "malformed shapes, homodyne/heterodyne, measurement flag) + in/out-of-range "
        "requests; K3: StochasticTrajResult driven with scripted integer noise, dyadic "
        "<M>, factors and times; K4: real solvers stepped over generated tlists with a "
        "scripted generator (recorded increments vs model); round trips: scheme x "
        "detection x equation on random 2-level systems.  Non-trivial: at least two "
        "queries / one accepted request / T>=2 / at least one step; distinct by full case.")
    ctx.cov["trusted_base"] += [
        "FakeGen (tools/c17.py): numpy Generator subclass handing out scripted integers; "
        "stands for the normal variates (their distribution is outside the property)",
        "Model/C17.v, Model/C17_sde.v are hand-written; tied to _noise.py, stochastic.py, "
        "sode.py, _sode.pyx, ssystem.pyx by the exact correspondences run below",
        "exactness of float arithmetic on the generated dyadic inputs (checked: every "
        "compared value is converted to an exact fraction)",
        "strong convergence order and the common limit of the schemes are not proved "
        "[NUM]",
        "mathcomp.algebra_tactics `ring` (reflexive, used in Proofs/C17_sse_norm.v); it "
        "brings the Int63 / PrimFloat kernel primitives into coqchk's context summary - "
        "no theorem depends on them (Print Assumptions closed)",
        "tools/tx_c17_o15.py (translator of Taylor15.step / Taylor15_imp.step: its "
        "supported subset is the modelled part; dz and the final linear solve are outside)"]

    def search(failed, log):
        r2 = random.Random(ctx.seed + 1)
        for _ in range(400):
            case = gen_wiener_case(r2)
            r = run_wiener_impl(case)
            bad = [b for b in wiener_oracle(case, r) if b[0] == "dW"]
            if bad:
                ctx.violation("sode/_noise.py:Wiener.dW", bad[0][0], bad[0][1],
                              {"case": case, "impl": r["answers"], "kind": "wiener",
                               "failed_theorems": failed})
                return
        for _ in range(200):
            case = gen_result_case(r2)
            r = run_result_impl(case)
            bad = result_oracle(case, r)
            if bad:
                ctx.violation("stochastic.py:StochasticTrajResult." + bad[0][0], bad[0][0],
                              bad[0][1], {"case": case, "impl": r, "kind": "result",
                                          "failed_theorems": failed})
                return

    props = ["Props/C17.v"]
    targets = ["Props/C17.vo"]
    # translator: the order-1.5 update statements are re-read from the source
    tx_ok = True
    try:
        import tx_c17_o15
        tx_c17_o15.generate()
    except Exception as e:
        tx_ok = False
        ctx.violation("tx:sode/_sode.pyx:Taylor15.step", "outside-supported-subset",
                      "Taylor15.step / Taylor15_imp.step is no longer a sum of "
                      "iadd_dense(out, system.<term>(i, j, k), <coefficient in dt, dw, dz>) "
                      "statements in the i / j>i / k>j loop skeleton: %s; the theorem that the "
                      "order-1.5 step is determined by its increments is not shown for this "
                      "source" % (e,), {"error": repr(e)[:300], "kind": "translator"},
                      found_input=False)
    ctx.add_obligation("tx_c17_o15: Taylor15.step and Taylor15_imp.step within the translated "
                       "subset", tx_ok)
    for extra in ("C17_sde", "C17_sys") + (("C17_o15",) if tx_ok else ()):
        if os.path.exists(os.path.join(vlib.COQ, "Props", extra + ".v")):
            props.append("Props/%s.v" % extra)
            targets.append("Props/%s.vo" % extra)
    proofs_ok = vlib.standard_proof_step(ctx, targets, props, search)
    if proofs_ok and not ctx.quick:
        # independent re-check of the compiled proofs and of their dependencies
        mods = ["QV." + p_[:-2].replace("/", ".") for p_ in props]
        rc, out = vlib.sh(["timeout", "900", "coqchk", "-silent", "-o", "-Q", ".", "QV"] + mods,
                          timeout=930, cwd=vlib.COQ)
        # coqchk lists, for the whole loaded context, the kernel primitives of
        # Int63 / PrimFloat (pulled in by mathcomp.algebra_tactics' `ring`,
        # used in Proofs/C17_sse_norm.v) under "Axioms"; they are primitives of
        # the kernel, not assumptions (Print Assumptions of every theorem is
        # closed).  Anything else listed there fails the obligation.
        m_ax = re.search(r"\* Axioms:(.*?)\n\s*\n\* Constants", out, flags=re.S)
        listed = [x.strip() for x in (m_ax.group(1) if m_ax else "?").split("\n") if x.strip()]
        prim = ("Coq.Numbers.Cyclic.Int63.PrimInt63.", "Coq.Floats.PrimFloat.")
        other = [x for x in listed if x != "<none>" and not x.startswith(prim)]
        ok = rc == 0 and m_ax is not None and not other
        if ok and listed != ["<none>"]:
            ctx.notes.append("coqchk context lists %d Int63/PrimFloat kernel primitives "
                             "(from mathcomp.algebra_tactics), no other axiom" % len(listed))
        ctx.add_obligation("coqchk " + " ".join(mods), ok)
        ctx.cov["checker_cmd"] += "; coqchk -o -Q . QV " + " ".join(mods)
        if not ok:
            ctx.violation("proof:coqchk", "coqchk", "coqchk rejects the compiled proofs or "
                          "reports assumptions", {"log": out[-3000:]}, found_input=False)

    nw = 150 if ctx.quick else 3000
    npre = 120 if ctx.quick else 2400
    nres = 100 if ctx.quick else 2000
    nrun = 40 if ctx.quick else 600
    dist = {"wiener_shapes": {}, "preset_kind": {}, "result_store": {}, "run_method": {},
            "roundtrip": {}}

    # ---------------- corpus + generated cases
    wcases, pcases, rcases, ucases = [], [], [], []
    cdir = os.path.join(vlib.VERIF, "corpus", "C17")
    if os.path.isdir(cdir):
        for fn in sorted(os.listdir(cdir)):
            c = json.load(open(os.path.join(cdir, fn)))
            {"wiener": wcases, "preset": pcases, "result": rcases, "run": ucases}[c["kind"]].append(c["case"])
    while len(wcases) < nw:
        wcases.append(gen_wiener_case(rng))
    while len(pcases) < npre:
        pcases.append(gen_preset_case(rng))
    while len(rcases) < nres:
        rcases.append(gen_result_case(rng))
    while len(ucases) < nrun:
        ucases.append(gen_run_case(rng))

    def safe(fn, cases, kind, site):
        """Run the implementation on every case; a case on which it raises is
        reported (with the input) and dropped from the comparison."""
        keep, out = [], []
        for c in cases:
            try:
                r = fn(c)
            except Exception as e:
                ctx.violation(site, "raises:" + type(e).__name__,
                              "implementation raises %r on a valid input" % (e,),
                              {"case": c, "kind": kind, "error": repr(e)[:300]})
                continue
            keep.append(c)
            out.append(r)
        return keep, out

    wcases, wimpl = safe(run_wiener_impl, wcases, "wiener", "sode/_noise.py:Wiener")
    pcases, pimpl = safe(run_preset_impl, pcases, "preset", "sode/_noise.py:PreSetWiener")
    rcases, rimpl = safe(run_result_impl, rcases, "result", "stochastic.py:StochasticTrajResult")
    ucases, uimpl = safe(run_run_impl, ucases, "run", "sode/sode.py:integrate")
    ctx.log("implementation runs done: %d wiener, %d preset, %d result, %d solver runs"
            % (len(wimpl), len(pimpl), len(rimpl), len(uimpl)))

    exprs = [coq_wiener_expr(c) for c in wcases]
    exprs += [coq_preset_expr(c) for c in pcases]
    for c in rcases:
        exprs += coq_result_exprs(c)
    uok = [k for k, r in enumerate(uimpl) if "crash" not in r]
    exprs += [coq_run_expr(ucases[k], uimpl[k]) for k in uok]
    try:
        vals = vlib.coq_eval_values("cases_C17", HEADER, exprs, chunk=150)
    except RuntimeError as e:
        ctx.violation("corr:C17:model-eval", "coqc", "model evaluation failed",
                      {"log": str(e)}, found_input=False)
        return
    pos = 0
    # ---- K1
    for case, r in zip(wcases, wimpl):
        v = vlib.parse_coq_value(vals[pos])
        pos += 1
        mans, mlen = v
        model = (canon_answers_coq(mans), mlen)
        agrees = model == (r["answers"], r["len"])
        key = "%dx%d" % (case["rows"], case["ops"])
        dist["wiener_shapes"][key] = dist["wiener_shapes"].get(key, 0) + 1
        ctx.count_case(("wiener", json.dumps(case, sort_keys=True)),
                       nontrivial=len(case["qs"]) >= 2)
        ctx.cov["traces_validated_against_impl"] += 1
        bad = wiener_oracle(case, r)
        if r["drawn"] != r["len"] * case["rows"] * case["ops"]:
            bad.append(("dW", "generator consumption %d is not len*rows*ops" % r["drawn"]))
        if not agrees:
            ctx.violation("corr:sode/_noise.py:Wiener",
                          bad[0][0] if bad else "model-differs",
                          "Wiener model and implementation disagree on a query history"
                          + ("; implementation violates: " + bad[0][1] if bad else ""),
                          {"case": case, "impl": r["answers"], "model": model[0],
                           "kind": "wiener"}, found_input=bool(bad))
        for b in bad:
            if b[0] == "dW":
                ctx.violation("sode/_noise.py:Wiener.dW", "not-stream-segment", b[1],
                              {"case": case, "impl": r["answers"], "kind": "wiener"})
        report_wiener_call(ctx, case, r, agrees)
    if wcases:
        ctx.sample({"wiener_case": wcases[-1], "impl_answers": wimpl[-1]["answers"]})
    # ---- K2
    for case, r in zip(pcases, pimpl):
        v = vlib.parse_coq_value(vals[pos])
        pos += 1
        model = canon_preset_coq(v, case["dt"])
        im = {"init": r["init"]}
        if r["init"] is not None:
            im["answers"] = r["answers"]
        dist["preset_kind"][case["kind"]] = dist["preset_kind"].get(case["kind"], 0) + 1
        ctx.count_case(("preset", json.dumps(case, sort_keys=True)),
                       nontrivial=r["init"] is not None and any(a for a in r["answers"]))
        ctx.cov["traces_validated_against_impl"] += 1
        # oracle: an accepted record returns its own entries, scaled as documented
        bad = preset_oracle(case, r)
        if model != im:
            ctx.violation("corr:sode/_noise.py:PreSetWiener",
                          bad[0] if bad else "model-differs",
                          "PreSetWiener model and implementation disagree"
                          + ("; implementation violates: " + bad[0] if bad else ""),
                          {"case": case, "impl": im, "model": model, "kind": "preset"},
                          found_input=bool(bad))
        elif bad:
            ctx.violation("sode/_noise.py:PreSetWiener", bad[0], bad[0],
                          {"case": case, "impl": im, "kind": "preset"})
    if pcases:
        ctx.sample({"preset_case": pcases[-1], "impl": pimpl[-1]})
    # ---- K3
    for case, r in zip(rcases, rimpl):
        mdW = canon_na(vlib.parse_coq_value(vals[pos]))
        mW = canon_na(vlib.parse_coq_value(vals[pos + 1]))
        mM = canon_na(vlib.parse_coq_value(vals[pos + 2]))
        pos += 3
        model = {"dW": mdW, "W": mW, "meas": mM}
        dist["result_store"][case["store"]] = dist["result_store"].get(case["store"], 0) + 1
        ctx.count_case(("result", json.dumps(case, sort_keys=True)), nontrivial=case["T"] >= 2)
        ctx.cov["traces_validated_against_impl"] += 1
        bad = result_oracle(case, r)
        if model != r:
            ctx.violation("corr:stochastic.py:StochasticTrajResult",
                          bad[0][0] if bad else "model-differs",
                          "StochasticTrajResult model and implementation disagree"
                          + ("; implementation violates: " + bad[0][1] if bad else ""),
                          {"case": case, "impl": r, "model": model, "kind": "result"},
                          found_input=bool(bad))
        elif bad:
            ctx.violation("stochastic.py:StochasticTrajResult." + bad[0][0], bad[0][0],
                          bad[0][1], {"case": case, "impl": r, "kind": "result"})
    if rcases:
        ctx.sample({"result_case": rcases[-1], "impl": rimpl[-1]})
    # ---- K4
    for k in uok:
        case, r = ucases[k], uimpl[k]
        v = vlib.parse_coq_value(vals[pos])
        pos += 1
        plan, mnoise = v
        plan = [list(p) if isinstance(p, tuple) else [p] for p in plan]
        mnoise = _lists(mnoise)
        dist["run_method"][case["method"]] = dist["run_method"].get(case["method"], 0) + 1
        # interleave: skipped intervals report one zero per stochastic operator
        want = []
        it = iter(mnoise)
        err = None
        nsteps = 0
        for p in plan:
            if p[0] == "PStep":
                want.append(next(it))
                nsteps += p[1]
            elif p[0] == "PSkip":
                want.append([0] * r["n"])
            else:
                err = True
        ctx.count_case(("run", json.dumps(case, sort_keys=True)), nontrivial=nsteps >= 1)
        ctx.cov["traces_validated_against_impl"] += 1
        ok = (r["noise"] == want and bool(r["err"]) == bool(err)
              and r["drawn"] == nsteps * r["rows"] * r["n"])
        if not ok:
            ctx.violation("corr:sode/sode.py:integrate", "model-differs",
                          "recorded increments of a real run differ from the model "
                          "(which steps were taken / which stream entries were summed)",
                          {"case": case, "impl": {k2: r[k2] for k2 in ("noise", "err", "drawn")},
                           "model": {"plan": plan, "noise": want}, "kind": "run"})
    for k, r in enumerate(uimpl):
        if "crash" in r:
            ctx.violation("sode/sode.py:set_state", "crash", "solver set-up failed: " + r["crash"],
                          {"case": ucases[k], "kind": "run"})
    if uok:
        ctx.sample({"run_case": ucases[uok[-1]], "impl_noise": uimpl[uok[-1]]["noise"]})

    # ---------------- scheme step correspondence (Model/C17_sde.v)
    if os.path.exists(os.path.join(vlib.COQ, "Model", "C17_sde.v")):
        import c17_sde
        c17_sde.correspondence(ctx, rng, dist)
        if os.path.exists(os.path.join(vlib.COQ, "Model", "C17_sys.v")):
            c17_sde.correspondence_sys(ctx, rng, dist)
            c17_sde.correspondence_cache(ctx, rng, dist)

    # ---------------- round trips on real solvers (the property itself)
    combos = [(True, m) for m in ALL_SME] + [(False, m) for m in ALL_SSE]
    reps = 1 if ctx.quick else 6
    type_errors = {}
    for rep in range(reps):
        for open_, method in combos:
            for het in (False, True):
                exact = (rep % 2 == 1)
                tag = "%s/%s/%s" % ("sme" if open_ else "sse", method, "het" if het else "hom")
                found = []
                # one monitored operator with a C-contiguous record and the
                # "start" convention (so that the measurement replay runs),
                # then 2 operators / Fortran order, then 3 operators / lists
                for nops_, form_, store_ in ((1, "C", "start"), (2, "F", None), (3, "list", None)):
                    dist["roundtrip"][tag] = dist["roundtrip"].get(tag, 0) + 1
                    try:
                        found += roundtrip_case(ctx, rng, open_, method, het, exact,
                                                nops=nops_, form=form_, store=store_)
                    except Exception as e:
                        found.append(("roundtrip:%s" % method, "crash:" + type(e).__name__,
                                      "round trip crashed: %r" % (e,), {"tag": tag}))
                for site, sig, msg, detail in found:
                    if site == SITE_SETSTATE and sig == "TypeError":
                        type_errors.setdefault(msg, detail)
                        continue
                    ctx.violation(site, sig, msg, dict(detail, kind="roundtrip"))
    if type_errors:
        # one report for the whole set of schemes that cannot replay at all:
        # a scheme joining or leaving the set changes the signature
        ms = sorted(type_errors)
        ctx.violation(SITE_SETSTATE, "replay-raises-TypeError:" + ",".join(ms),
                      "run_from_experiment raises TypeError (unexpected keyword "
                      "'measurement_noise') for the schemes %s" % ms,
                      {"methods": ms, "example": type_errors[ms[0]], "kind": "typeerror"})
    skipped_step_case(ctx)
    partition_consistency(ctx, rng, dist)
    step_time_correspondence(ctx, rng, dist)
    history_oracle(ctx, rng, dist)
    try:
        strong_order_check(ctx)
    except Exception as e:
        ctx.violation("sode:order", "raises:" + type(e).__name__,
                      "strong-order check raised %r" % (e,), {"kind": "order"})
    try:
        convergence_exploration(ctx)
    except Exception as e:
        ctx.violation("sode:convergence", "raises:" + type(e).__name__,
                      "convergence exploration raised %r" % (e,), {"kind": "convergence"})
    for k in ("replay_not_supported", "measurement_replay_refused"):
        if k in ctx.cov:
            ctx.cov[k] = sorted(set(ctx.cov[k]))
    ctx.cov["input_distribution"] = dist
    ctx.cov["explanation"] = (
        "Theorems (Props/C17.v, Props/C17_sde.v) hold for every generator stream, query "
        "history, record size and storage layout of the models; the models are tied to the "
        "code by exact equality of answers on generated cases (K1-K4 and the scheme steps). "
        "Round trips, trace/Hermiticity and the measurement formula on real float "
        "trajectories are validation with the stated tolerances (bitwise for replays from "
        "increments); convergence order and the common limit are not covered [NUM].")


def preset_oracle(case, r):
    """Independent statement of what PreSetWiener must hold."""
    noise = np.array(case["noise"], dtype=float)
    T, n, het = case["T"], case["n"], case["het"]
    good_shape = noise.shape == ((n // 2, 2, T) if het else (n, T))
    bad = []
    if r["init"] is None:
        if good_shape:
            bad.append("well-shaped record refused")
        return bad
    if not good_shape:
        return ["mis-shaped record accepted"]
    if r.get("input_modified"):
        return ["the record array handed to PreSetWiener was modified in place"]
    flat = noise.reshape(n, T)
    for k in range(T):
        for i in range(n):
            x = flat[i, k]
            if case["meas"]:
                x = x * case["dt"]
                if het:
                    x = x / 2**0.5
            if r["init"][k][0][i] != frac(x):
                return ["stored increment differs from the record (scaling or layout)"]
    for (k, N), a in zip(case["reqs"], r["answers"]):
        if k + N > T:
            if a is not None:
                bad.append("request beyond the record answered")
        elif a is None:
            bad.append("request inside the record refused")
        elif a != r["init"][k:k + N]:
            bad.append("request returns other entries than stored")
    return bad


def replay(ctx, payload):
    d = payload["detail"]
    kind = d.get("kind")
    if str(payload.get("signature", "")).startswith("raises:") and kind in (
            "wiener", "preset", "result", "run"):
        fn = {"wiener": run_wiener_impl, "preset": run_preset_impl,
              "result": run_result_impl, "run": run_run_impl}[kind]
        try:
            fn(d["case"])
        except Exception as e:
            ctx.violation(payload["site"], "raises:" + type(e).__name__,
                          "implementation raises %r" % (e,), {"case": d["case"], "kind": kind})
        return
    if kind == "wiener":
        r = run_wiener_impl(d["case"])
        bad = wiener_oracle(d["case"], r)
        if bad:
            ctx.violation(payload["site"], payload["signature"], bad[0][1],
                          {"case": d["case"], "impl": r["answers"], "kind": kind})
    elif kind == "preset":
        r = run_preset_impl(d["case"])
        bad = preset_oracle(d["case"], r)
        if bad:
            ctx.violation(payload["site"], payload["signature"], bad[0],
                          {"case": d["case"], "impl": r, "kind": kind})
    elif kind == "result":
        r = run_result_impl(d["case"])
        bad = result_oracle(d["case"], r)
        if bad:
            ctx.violation(payload["site"], payload["signature"], bad[0][1],
                          {"case": d["case"], "impl": r, "kind": kind})
    elif kind == "roundtrip":
        rng = random.Random(0)
        for rep in range(40):
            found = roundtrip_case(ctx, rng, d.get("open", True), d.get("method", "euler"),
                                   d.get("het", False), bool(d.get("exact")),
                                   nops=d.get("nops"), form=d.get("record_form"),
                                   store=d.get("store"))
            hit = [f for f in found if f[0] == payload["site"] and f[1] == payload["signature"]]
            if hit:
                ctx.violation(hit[0][0], hit[0][1], hit[0][2], dict(hit[0][3], kind=kind))
                return
    elif kind == "typeerror":
        import qutip
        H, cs = small_system(random.Random(3), 1)
        ms = []
        for m in ALL_SME:
            s_ = qutip.SMESolver(H, cs, heterodyne=False,
                                 options={"method": m, "dt": 0.125, "progress_bar": ""})
            try:
                s_.run_from_experiment(qutip.fock_dm(2, 0), [0, 0.125, 0.25],
                                       np.array([[0.25, -0.125]]))
            except TypeError:
                ms.append(m)
            except Exception:
                pass
        if ms:
            ctx.violation(payload["site"], "replay-raises-TypeError:" + ",".join(sorted(ms)),
                          "run_from_experiment raises TypeError for %s" % sorted(ms),
                          {"methods": sorted(ms), "kind": kind})
    elif kind == "cache":
        import c17_sde

        def lit(x):
            return np.array(eval(x, {"__builtins__": {}}), dtype=complex)
        case = {"H": lit(d["H"]), "c": lit(d["c"]), "states": [lit(x) for x in d["states"]],
                "ops": d["ops"]}
        prov = c17_sde.run_cache_impl(case)
        cur = 0
        for i, (op, pv) in enumerate(zip(case["ops"], prov)):
            if op[0] == "set":
                cur = op[1]
            elif pv != cur:
                ctx.violation(payload["site"], payload["signature"],
                              "accessor %s (op %d) returns a value computed from state %d, "
                              "current is %d" % (op[1], i, pv, cur),
                              dict(d, impl_provenance=prov))
                break
    elif kind == "steptimes":
        seen, err = step_time_case(d["open"], d["method"], d["den"], d["targets"], d["dt"])
        if seen == d.get("seen"):            # the recorded observation reproduces
            ctx.violation(payload["site"], payload["signature"],
                          "step indices seen per integrate() call: %r" % (seen,), dict(d))
    elif kind == "history":
        c = d.get("case") or d
        desc, found = history_case(c["open"], c["method"], c["het"], c["feedback"], c["hseed"])
        for site, sig, msg, step in found:
            if site == payload["site"] and sig == payload["signature"]:
                ctx.violation(site, sig, msg, {"kind": kind, "case": desc, "step": step})
                break
    elif kind == "convergence":
        convergence_exploration(ctx)
    elif kind == "order":
        strong_order_check(ctx)
    elif kind == "partition":
        c = d.get("case") or d
        desc, bad = partition_case(c["open"], c["method"], c["het"],
                                   d.get("tdep", c.get("time_dependent_H", False)),
                                   d.get("nsc", c.get("n_sc_ops", 1)), c["pseed"])
        if bad:
            ctx.violation(payload["site"], payload["signature"],
                          "one go vs %s differ by %.3g" % (bad[0][0], bad[0][1]),
                          {"kind": kind, "case": desc})
    elif "noise_shapes" in d:
        skipped_step_case(ctx)
