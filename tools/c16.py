"""C16 - Monte-Carlo trajectories are realisations of the quantum-jump process.

Proof step : coq/Props/C16.v (+ Props/C16_gen.v, MathComp generator algebra).
Tie (K)    : the real qutip.solver.mcsolve.MCIntegrator is run around a
             scripted ODE integrator, scripted collapse operators and a
             scripted random stream; every number it obtains from them (and
             from np.log) is recorded into oracle tables, and the Coq model
             (coq/Model/C16.v, instantiated on IEEE doubles / PrimFloat) is
             evaluated by vm_compute on the same tables.  All decisions, all
             mcstep requests, all collapse times / channels, all thresholds
             and returned times must agree bit for bit.
Tie (T)    : tools/tx_c16_rhs.py re-reads MCSolver.__init__ and regenerates
             coq/Gen/C16_rhs.v, over which Props/C16_gen.v is re-proved.
Oracle     : real mcsolve trajectories (several channels, dark channels,
             time-dependent H, superoperator form, mixed states, improved
             sampling, several ODE methods and tolerances) replayed jump by
             jump against an independent NumPy/SciPy reference that consumes
             the same random stream.
"""
import json
import math
import os
import random
import re
import sys
import time

import numpy as np

import vlib
from vlib import cnat, cbool, clist

HEADER = ("From Coq Require Import List Bool Arith ZArith Floats.\n"
          "Import ListNotations.\nFrom QV Require Import Model.C16.\n"
          "Local Open Scope nat_scope.\n")


# ----------------------------------------------------------------- literals
def cf(x):
    x = float(x)
    if math.isnan(x):
        return "nan"
    if math.isinf(x):
        return "infinity" if x > 0 else "neg_infinity"
    h = x.hex()
    if h.startswith("-"):
        return "(%s)%%float" % h
    return "%s%%float" % h


_TOK = re.compile(r"neg_infinity|infinity|nan|true|false|Some|None|"
                  r"-?\d+\.?\d*(?:e[+-]?\d+)?|[\[\]();,]")


def parse_val(s):
    toks = _TOK.findall(s)
    pos = [0]

    def nxt():
        t = toks[pos[0]]
        pos[0] += 1
        return t

    def peek():
        return toks[pos[0]] if pos[0] < len(toks) else None

    def val():
        t = nxt()
        if t == "[":
            out = []
            if peek() == "]":
                nxt()
                return out
            while True:
                out.append(val())
                t2 = nxt()
                if t2 == "]":
                    return out
                assert t2 == ";", (t2, s[:300])
        if t == "(":
            items = [val()]
            while peek() == ",":
                nxt()
                items.append(val())
            assert nxt() == ")"
            return items[0] if len(items) == 1 else tuple(items)
        if t == "true":
            return True
        if t == "false":
            return False
        if t == "None":
            return None
        if t == "Some":
            return ("Some", val())
        if t == "nan":
            return float("nan")
        if t == "infinity":
            return float("inf")
        if t == "neg_infinity":
            return float("-inf")
        return float(t)

    items = [val()]
    while peek() == ",":
        nxt()
        items.append(val())
    return items[0] if len(items) == 1 else tuple(items)


def flat(v):
    """Coq prints nested pairs ((a, b), c) as (a, b, c): already flat in the
    printed form; tuples parsed by parse_val are flat too."""
    return v


def fkey(x):
    """canonical exact form of a float for comparisons (nan-safe)."""
    x = float(x)
    if math.isnan(x):
        return "nan"
    return x.hex()


# ------------------------------------------------- scripted implementation run
class _LogProxy:
    """stands for `np` inside qutip.solver.mcsolve: records np.log calls."""

    def __init__(self, real, table):
        self._real = real
        self._table = table

    def log(self, x):
        with np.errstate(all="ignore"):
            v = self._real.log(x)
        self._table.append((float(x), float(v)))
        return v

    def __getattr__(self, name):
        return getattr(self._real, name)


def profile(seg_spec, dt):
    """amplitude factor of a segment's flow at elapsed time dt."""
    kind = seg_spec["kind"]
    g = seg_spec["gamma"]
    if kind == "exp":
        return math.exp(-g * dt / 2)
    if kind == "lin":
        return max(1.0 - g * dt / 2, 0.03125)
    if kind == "flat":
        return 1.0
    if kind == "bump":          # malformed: not monotone
        return math.exp(-g * dt / 2) * (1.0 + 0.25 * math.sin(9.0 * dt) ** 2)
    if kind == "grow":          # malformed: norm increases
        return 1.0 + g * dt / 4
    raise ValueError(kind)


class _MartSolver:
    """stands for the NonMarkovianMCSolver seen by InfluenceMartingale."""

    def __init__(self, case, tabs):
        self.case, self.tabs = case, tabs

    def rate(self, t, i):
        v = self.case["rates"][int(i) % len(self.case["rates"])] * (1.0 + t / 4)
        self.tabs["rate"][(float(t), int(i))] = v
        return np.float64(v)       # nm_solver.rate returns np.real(...)

    def rate_shift(self, t):
        v = self.case["shift"] * (1.0 + t / 8)
        self.tabs["shift"][float(t)] = v
        return v


def _mart_proxies(case, tabs, real_np):
    class _Integrate:
        @staticmethod
        def quad(f, t1, t2, limit=None, full_output=False, **kw):
            v = case["c"] * (t2 - t1) + case["d"] * (t2 * t2 - t1 * t1)
            tabs["integ"][(float(t1), float(t2))] = v
            return (v, 0.0, {"neval": 21})

    class _Scipy:
        integrate = _Integrate

    class _Np:
        def exp(self, x):
            with real_np.errstate(all="ignore"):
                v = float(real_np.exp(x))
            tabs["exp"][float(x)] = v
            return v

        def __getattr__(self, name):
            return getattr(real_np, name)

    return _Np(), _Scipy


def run_impl(case, nmcase=None):
    """Drive the real MCIntegrator with scripted parts; record oracle tables
    and the trace."""
    import qutip
    mcs = sys.modules["qutip.solver.mcsolve"]
    import qutip.core.data as _data

    segs = case["segs"]
    chans = case["chan"]
    nch = len(chans)
    issuper = case["issuper"]
    tabs = {"nrm2": {}, "lg": [], "stp": {}, "rate": {}, "jnorm": {}}
    info = {}            # id(Data) -> ("flow", seg, t) | ("jump", seg, tcol, s, k)
    keep = []            # keep Data objects alive so ids stay unique
    trace = {"reqlog": [], "sets": [], "illegal": 0, "ndraw": 0,
             "validation": []}
    last_jump = {}

    def reg(obj, tag):
        keep.append(obj)
        info[id(obj)] = tag
        return obj

    class ScriptedIntegrator:
        method = "scripted"
        name = "scripted"

        def __init__(self):
            self.seg = -1
            self._is_set = False

        def set_state(self, t, state0):
            self.seg += 1
            self.spec = segs[self.seg % len(segs)]
            self.t0 = t
            self.psi0 = np.array(state0.to_array(), dtype=complex).copy()
            self.cur = t
            self.back = t
            self.front = t
            self._is_set = True
            if self.seg > 0:
                src = last_jump.get("src")
                trace["sets"].append((t, src))
                # validation (labelled): the state handed over is normalised
                if issuper:
                    nn = float(np.trace(self.psi0.reshape(2, 2)).real)
                else:
                    nn = float(np.linalg.norm(self.psi0))
                trace["validation"].append(abs(nn - 1.0))

        def _state(self, t):
            a = profile(self.spec, t - self.t0)
            return reg(_data.Dense(self.psi0 * a), ("flow", self.seg, t))

        def get_state(self, copy=True):
            return self.cur, self._state(self.cur)

        def mcstep(self, t, copy=True):
            trace["reqlog"].append(t)
            cur = self.cur
            h = self.spec["h"]
            if t != t:                          # nan request
                t_ret = cur
            elif t > self.front:
                t_ret = min(t, cur + h)
                self.back = cur
                self.front = t_ret
            elif t >= cur:
                # forward inside the dense range
                t_ret = min(t, cur + h / 8) if self.spec.get("trunc") else t
            else:
                if t < self.back:
                    trace["illegal"] += 1
                t_ret = t
            tabs["stp"][(self.seg, cur, t)] = t_ret
            self.cur = t_ret
            return t_ret, self._state(t_ret)

        def reset(self, hard=False):
            pass

        def arguments(self, args):
            pass

    class FakeOp:
        def __init__(self, k):
            self.k = k
            self.issuper = issuper
            self.isoper = not issuper

        def _tag(self, state):
            return info.get(id(state), ("?", -1, float("nan")))

        def expect_data(self, t, state):
            tag = self._tag(state)
            arr = state.to_array()
            if issuper:
                n2 = complex(np.trace(arr.reshape(2, 2)))
            else:
                n2 = complex(np.vdot(arr, arr))
            v = chans[self.k]["r"] * n2
            if chans[self.k].get("imag"):
                v = v + 0.5j       # only the real part may be used
            tabs["rate"][(tag[1], t, tag[2], self.k)] = float(v.real)
            return v

        def matmul_data(self, t, state):
            tag = self._tag(state)
            out = _data.Dense(state.to_array() * chans[self.k]["s"])
            last_jump["src"] = (tag[2], self.k)
            return reg(out, ("jump", tag[1], t, tag[2], self.k))

        def arguments(self, args):
            pass

    class FakeSystem:
        def __init__(self):
            self.c_ops = [FakeOp(k) for k in range(nch)]
            self.n_ops = self.c_ops

        def _register_feedback(self, key, val):
            pass

    class ScriptedGenerator:
        def __init__(self, vals):
            self.vals = list(vals)

        def random(self):
            i = trace["ndraw"]
            trace["ndraw"] += 1
            return self.vals[i] if i < len(self.vals) else float("nan")

    opts = dict(case["opts"])
    integ = ScriptedIntegrator()
    nmtabs = None
    if nmcase is None:
        mci = mcs.MCIntegrator(integ, FakeSystem(), opts)
    else:
        # NmMCIntegrator around the same scripted parts, with a real
        # InfluenceMartingale around a scripted solver / quadrature / exp
        nmod = sys.modules["qutip.solver.nm_mcsolve"]
        nmtabs = {"integ": {}, "exp": {}, "rate": {}, "shift": {}}
        nm_real = (nmod.np, nmod.scipy)
        nmod.np, nmod.scipy = _mart_proxies(nmcase, nmtabs, nmod.np)
        im = nmod.InfluenceMartingale(_MartSolver(nmcase, nmtabs), nmcase["a"], 100)
        mci = nmod.NmMCIntegrator(integ, FakeSystem(), opts, **{"__martingale": im})
    real_prob, real_norm = mci._prob_func, mci._norm_func

    def prob(state):
        v = float(real_prob(state))
        tag = info.get(id(state))
        if tag and tag[0] == "flow":
            tabs["nrm2"][(tag[1], tag[2])] = v
        return v

    def norm(state):
        v = float(real_norm(state))
        tag = info.get(id(state))
        if tag and tag[0] == "jump":
            tabs["jnorm"][(tag[1], tag[2], tag[3], tag[4])] = v
        return v

    mci._prob_func = prob
    mci._norm_func = norm
    finds = []
    real_find = mci._find_collapse_time

    def find(norm_old, norm_, t_prev, t_final):
        call = {"seg": integ.seg, "norm_old": float(norm_old), "norm": float(norm_),
                "t_prev": float(t_prev), "t_final": float(t_final),
                "target": float(mci.target_norm), "raised": False, "ret": None}
        n0 = len(trace["reqlog"])
        finds.append(call)
        try:
            res = real_find(norm_old, norm_, t_prev, t_final)
        except RuntimeError:
            call["raised"] = True
            call["reqs"] = [float(x) for x in trace["reqlog"][n0:]]
            raise
        call["reqs"] = [float(x) for x in trace["reqlog"][n0:]]
        tag = info.get(id(res[1]), ("?", -1, float("nan")))
        call["ret"] = (float(res[0]), float(tag[2]))
        return res

    mci._find_collapse_time = find
    real_np = mcs.np
    mcs.np = _LogProxy(real_np, tabs["lg"])
    rets = []
    ret_norm_dev = 0.0
    status = 0
    err = None
    if issuper:
        psi0 = _data.Dense(np.array([[1.0], [0.0], [0.0], [0.0]], dtype=complex))
    else:
        psi0 = _data.Dense(np.array([[0.6], [0.8j]], dtype=complex))
    tl = case["tlist"]
    nm_out = None
    try:
        with np.errstate(all="ignore"):
            if nmcase is not None:
                im.initialize(tl[0], cache=list(tl))
            mci.set_state(tl[0], psi0, ScriptedGenerator(case["rnd"]),
                          no_jump=case["no_jump"],
                          jump_prob_floor=case["floor"])
            try:
                for t, state in mci.run(tl):
                    rets.append(t)
                    arr = state.to_array()
                    nn = (float(np.trace(arr.reshape(2, 2)).real) if issuper
                          else float(np.linalg.norm(arr)))
                    ret_norm_dev = max(ret_norm_dev, abs(nn - 1.0))
            except RuntimeError as e:
                status = 1
                err = str(e)[:60]
            except IndexError as e:
                status = 3
                err = "IndexError " + str(e)[:60]
        if nmcase is not None:
            with np.errstate(all="ignore"):
                tr = []
                for t in tl:
                    try:
                        tr.append(fkey(float(im.value(t))))
                    except RuntimeError:
                        tr.append(None)
            nm_out = {"trace": tr,
                      "disc": [(fkey(t), fkey(f)) for t, f in (im._discrete_martingale or [])],
                      "tabs": nmtabs}
    finally:
        mcs.np = real_np
        if nmcase is not None:
            nmod.np, nmod.scipy = nm_real
    cols = [(float(t), int(w)) for t, w in mci.collapses]
    # sets: (time given, source state time, channel or nch)
    sets = []
    ci = 0
    for (t, src) in trace["sets"]:
        s_time, k = src if src else (float("nan"), nch)
        if ci < len(cols) and cols[ci][0] == t and cols[ci][1] == k:
            sets.append((t, s_time, k))
            ci += 1
        else:
            sets.append((t, s_time, nch))
    return {"status": status, "err": err, "rets": rets, "cols": cols,
            "sets": sets, "reqlog": trace["reqlog"], "ndraw": trace["ndraw"],
            "target": float(mci.target_norm), "cur": integ.cur,
            "illegal": trace["illegal"], "tabs": tabs,
            "state_norm_dev": max(trace["validation"] + [0.0]),
            "ret_norm_dev": ret_norm_dev, "finds": finds, "nm": nm_out}


# ------------------------------------------------------------------- model
def coq_tabs(tabs, rnd):
    def ent(k, v):
        return "((%s, %s, %s, %s), %s)" % (cnat(k[0]), cf(k[1]), cf(k[2]),
                                           cnat(k[3]), cf(v))
    nrm2 = [ent((s, t, 0.0, 0), v) for (s, t), v in tabs["nrm2"].items()]
    lg = [ent((0, x, 0.0, 0), v) for x, v in tabs["lg"]]
    stp = [ent((s, c, t, 0), v) for (s, c, t), v in tabs["stp"].items()]
    rate = [ent(k, v) for k, v in tabs["rate"].items()]
    jn = [ent(k, v) for k, v in tabs["jnorm"].items()]
    return ("(mkTabs %s %s %s %s %s %s)" % (
        clist(nrm2), clist(lg), clist(stp), clist(rate), clist(jn),
        clist(rnd, cf)))


def coq_expr(case, r):
    o = case["opts"]
    return ("f_observe (mkOpts FN %s %s %s %s) %s %s %s %s %s %s %s" % (
        cnat(o["norm_steps"]), cf(o["norm_t_tol"]), cf(o["norm_tol"]),
        cf(o["mc_corr_eps"]), coq_tabs(r["tabs"], case["rnd"]),
        cnat(len(case["chan"])), cnat(case.get("fuel", 400)),
        cf(case["tlist"][0]), clist(case["tlist"][1:], cf),
        cbool(case["no_jump"]), cf(case["floor"])))


def canon_impl(r):
    return {"status": r["status"],
            "rets": [fkey(x) for x in r["rets"]],
            "cols": [(fkey(t), w) for t, w in r["cols"]],
            "sets": [(fkey(t), fkey(s), k) for t, s, k in r["sets"]],
            "reqlog": [fkey(x) for x in r["reqlog"]],
            "ndraw": r["ndraw"], "target": fkey(r["target"]),
            "cur": fkey(r["cur"]) if r["status"] == 0 else None}


def canon_model(v):
    tag, rets, cols, sets, reqlog, last = v
    nd, target, cur = last
    return {"status": int(tag),
            "rets": [fkey(x) for x in rets],
            "cols": [(fkey(t), int(w)) for t, w in cols],
            "sets": [(fkey(t), fkey(s), int(k)) for t, s, k in sets],
            "reqlog": [fkey(x) for x in reqlog],
            "ndraw": int(nd), "target": fkey(target),
            "cur": fkey(cur) if int(tag) == 0 else None}


# ---------------------------------------------------------------- generator
def dy(rng, lo, hi, bits=10):
    """a dyadic rational in [lo, hi]."""
    n = 1 << bits
    return lo + (hi - lo) * rng.randrange(0, n + 1) / n


def gen_case(rng, malformed=False):
    nch = rng.choice([1, 1, 2, 3, 4])
    issuper = rng.random() < 0.25
    nseg = rng.randint(1, 4)
    segs = []
    for _ in range(nseg):
        kind = rng.choice(["exp", "exp", "exp", "lin"])
        if malformed:
            kind = rng.choice(["exp", "bump", "grow", "flat", "lin"])
        segs.append({"kind": kind, "gamma": dy(rng, 0.25, 6.0, 6),
                     "h": rng.choice([0.0625, 0.125, 0.25, 0.5, 1.0, 3.0]),
                     "trunc": malformed and rng.random() < 0.3})
    chans = []
    for k in range(nch):
        s = rng.choice([0.0, 0.5, 1.0, 1.5, 2.0, 0.25])
        if nch == 1 and not malformed and rng.random() < 0.8:
            s = rng.choice([0.5, 1.0, 2.0])
        r = s * s
        if malformed and rng.random() < 0.3:
            r = rng.choice([0.0, 1.0, 3.0])     # rate inconsistent with c_k
        chans.append({"r": r, "s": s, "imag": rng.random() < 0.2})
    if not malformed and all(c["s"] == 0.0 for c in chans):
        chans[-1] = {"r": 1.0, "s": 1.0, "imag": False}
    nt = rng.randint(2, 5)
    t0 = rng.choice([0.0, 0.0, 0.5, -1.0])
    tl = [t0]
    for _ in range(nt - 1):
        tl.append(tl[-1] + rng.choice([0.25, 0.5, 1.0, 1.5]))
    nr = 60
    rnd = []
    for _ in range(nr):
        x = rng.random()
        if x < 0.06:
            rnd.append(0.0)
        elif x < 0.5:
            rnd.append(rng.randrange(0, 1 << 8) / (1 << 8))
        else:
            rnd.append(rng.random())
    opts = {"norm_steps": rng.choice([1, 2, 3, 5, 5, 5, 8, 12]),
            "norm_t_tol": rng.choice([1e-6, 1e-6, 1e-3, 0.0625, 2.0 ** -20]),
            "norm_tol": rng.choice([1e-4, 1e-4, 1e-2, 0.25, 2.0 ** -12]),
            "mc_corr_eps": rng.choice([1e-10, 1e-10, 0.125])}
    if malformed:
        opts["norm_steps"] = rng.choice([0, 1, 2, 5])
        opts["norm_tol"] = rng.choice([0.0, 1e-4, 1.5])
    no_jump = rng.random() < 0.1
    floor = 0.0
    if not no_jump and rng.random() < 0.3:
        floor = rng.choice([0.25, 0.5, 0.0625, 0.9990234375])
    return {"opts": opts, "segs": segs, "chan": chans, "issuper": issuper,
            "tlist": tl, "rnd": rnd, "no_jump": no_jump, "floor": floor,
            "malformed": malformed}


def eval_model(cases, impls, name="cases_C16"):
    exprs = [coq_expr(c, r) for c, r in zip(cases, impls)]
    vals = vlib.coq_eval_values(name, HEADER, exprs, chunk=60)
    return [canon_model(parse_val(v)) for v in vals]



# ===================================================================
# Implementation-level oracle: real mcsolve vs an independent reference
# ===================================================================
SX = np.array([[0, 1], [1, 0]], dtype=complex)
SY = np.array([[0, -1j], [1j, 0]], dtype=complex)
SZ = np.array([[1, 0], [0, -1]], dtype=complex)
SM = np.array([[0, 1], [0, 0]], dtype=complex)     # qutip sigmam() = |1><0| ... see below


def _destroy(n):
    return np.diag(np.sqrt(np.arange(1, n)), 1).astype(complex)


def gen_system(rng):
    """A physical problem as plain NumPy data (JSON-able)."""
    kind = rng.choice(["decay", "multi", "dark", "cavity", "td", "super",
                       "random", "mixed", "td_c"])
    spec = {"kind": kind}
    g = lambda lo, hi: dy(rng, lo, hi, 6)
    if kind in ("decay", "td", "mixed", "super", "td_c"):
        d = 2
        H0 = 0.5 * g(0.5, 3.0) * SZ + g(0.0, 2.0) * SX
        cs = [math.sqrt(g(0.25, 2.0)) * SM.T.conj()]
        if kind in ("mixed", "super") or rng.random() < 0.4:
            cs.append(math.sqrt(g(0.125, 1.0)) * SZ)
    elif kind == "multi":
        d = 2
        H0 = 0.5 * g(0.5, 3.0) * SZ + g(0.2, 2.0) * SX + g(0.0, 1.0) * SY
        cs = [math.sqrt(g(0.25, 2.0)) * SM.T.conj(), math.sqrt(g(0.125, 1.0)) * SZ,
              math.sqrt(g(0.125, 1.0)) * SM, math.sqrt(g(0.125, 0.5)) * SX]
        cs = cs[:rng.randint(2, 4)]
    elif kind == "dark":
        # channels that annihilate the state: the ground state is dark for
        # sigma-minus, and a zero operator is listed as a channel
        d = 3
        a = _destroy(3)
        H0 = g(0.5, 2.0) * (a.T.conj() @ a) + g(0.2, 1.0) * (a + a.T.conj())
        cs = [math.sqrt(g(0.5, 2.0)) * a, np.zeros((3, 3), dtype=complex),
              math.sqrt(g(0.25, 1.0)) * np.diag([0.0, 1.0, 0.0]).astype(complex)]
    elif kind == "cavity":
        d = rng.choice([3, 4])
        a = _destroy(d)
        H0 = g(0.5, 2.0) * (a.T.conj() @ a) + g(0.2, 1.5) * (a + a.T.conj())
        cs = [math.sqrt(g(0.25, 1.5)) * a, math.sqrt(g(0.0625, 0.5)) * a.T.conj()]
    else:   # random
        d = rng.choice([2, 3])
        def rmat():
            return np.array([[complex(rng.randint(-4, 4), rng.randint(-4, 4)) / 4
                              for _ in range(d)] for _ in range(d)])
        A = rmat()
        H0 = (A + A.T.conj()) / 2
        cs = [rmat() * 0.5 for _ in range(rng.randint(1, 3))]
    spec["d"] = d
    spec["H0"] = H0
    spec["cs"] = cs
    spec["H1"] = None
    spec["w"] = 0.0
    if kind in ("td", "td_c") or (kind in ("multi", "cavity") and rng.random() < 0.3):
        spec["H1"] = g(0.25, 1.5) * (SX if d == 2 else (_destroy(d) + _destroy(d).T.conj()))
        spec["w"] = g(0.5, 4.0)
    spec["c_td"] = (kind == "td_c")        # first collapse operator * exp(-t/4)
    spec["super_det"] = None
    if kind == "super":
        spec["super_det"] = math.sqrt(g(0.125, 0.75)) * SX  # deterministic channel in L
    # initial state
    if kind == "mixed":
        p = g(0.2, 0.8)
        v = np.array([math.cos(0.4), math.sin(0.4) * 1j])
        w = np.array([-math.sin(0.4) * -1j, math.cos(0.4)])
        w = np.array([1j * math.sin(0.4), math.cos(0.4)])
        w = w - v * np.vdot(v, w)
        w = w / np.linalg.norm(w)
        spec["rho0"] = p * np.outer(v, v.conj()) + (1 - p) * np.outer(w, w.conj())
        spec["psi0"] = None
    elif kind == "super":
        v = np.array([0.6, 0.8j])
        spec["rho0"] = 0.75 * np.outer(v, v.conj()) + 0.25 * np.eye(2) / 2
        spec["psi0"] = None
    else:
        if kind == "dark" and rng.random() < 0.5:
            v = np.zeros(d, dtype=complex)
            v[1] = 1.0
        else:
            v = np.array([complex(rng.randint(-3, 3), rng.randint(-3, 3)) for _ in range(d)])
            if np.linalg.norm(v) == 0:
                v[0] = 1.0
            if kind in ("decay", "td", "td_c") :
                v = v + np.array([0, 2])[:d]
        spec["psi0"] = v / np.linalg.norm(v)
        spec["rho0"] = None
    nt = rng.randint(2, 6)
    T = g(1.0, 4.0)
    spec["tlist"] = [T * k / nt for k in range(nt + 1)] if rng.random() < 0.7 else \
        sorted(set([0.0, T] + [g(0.0, T) for _ in range(nt - 1)]))
    spec["method"] = rng.choice(["adams", "adams", "dop853", "vern7", "lsoda", "bdf", "vern9"])
    spec["norm_tol"] = rng.choice([1e-4, 1e-4, 1e-6, 1e-3])
    spec["norm_t_tol"] = rng.choice([1e-6, 1e-6, 1e-8, 1e-4])
    spec["norm_steps"] = rng.choice([5, 5, 8, 12])
    spec["improved"] = rng.random() < 0.35
    spec["ntraj"] = rng.randint(3, 6)
    spec["seed"] = rng.randrange(1 << 30)
    return spec


def spec_to_json(spec):
    def enc(x):
        if isinstance(x, np.ndarray):
            return {"re": x.real.tolist(), "im": x.imag.tolist()}
        if isinstance(x, list):
            return [enc(y) for y in x]
        return x
    return {k: enc(v) for k, v in spec.items() if not k.startswith("_")}


def spec_from_json(js):
    def dec(x):
        if isinstance(x, dict) and "re" in x:
            return np.array(x["re"]) + 1j * np.array(x["im"])
        if isinstance(x, list):
            return [dec(y) for y in x]
        return x
    return {k: dec(v) for k, v in js.items()}


def _td_coeff(t, w):
    return math.cos(w * t)


def _c_coeff(t):
    return math.exp(-t / 4)


class _Hcoef:
    def __init__(self, w):
        self.w = w

    def __call__(self, t):
        return math.cos(self.w * t)


def run_qutip(spec):
    """the implementation under test."""
    import qutip
    d = spec["d"]
    H = qutip.Qobj(spec["H0"])
    if spec["H1"] is not None:
        H = qutip.QobjEvo([H, [qutip.Qobj(spec["H1"]), _Hcoef(spec["w"])]])
    cs = [qutip.Qobj(c) for c in spec["cs"]]
    if spec["c_td"]:
        cs[0] = qutip.QobjEvo([cs[0], _c_coeff])
    if spec["super_det"] is not None:
        H = qutip.liouvillian(H, [qutip.Qobj(spec["super_det"])])
    opts = {"method": spec["method"], "norm_tol": spec["norm_tol"],
            "norm_t_tol": spec["norm_t_tol"], "norm_steps": spec["norm_steps"],
            "improved_sampling": spec["improved"], "keep_runs_results": True,
            "store_states": True, "progress_bar": "", "map": "serial",
            # keep the ODE error well below the jump-search tolerances that are
            # being checked (bdf at its default rtol 1e-6 drifts by 3e-5 over t = 4)
            "atol": 1e-10, "rtol": 1e-8}
    solver = qutip.MCSolver(H, cs, options=opts)
    if spec["psi0"] is not None:
        st = qutip.Qobj(spec["psi0"].reshape(d, 1))
    else:
        st = qutip.Qobj(spec["rho0"])
    mcs = sys.modules["qutip.solver.mcsolve"]
    orig = mcs.MCIntegrator._find_collapse_time
    calls = spec.setdefault("_finds", [])
    del calls[:]

    def recording(self, norm_old, norm, t_prev, t_final):
        call = {"t_prev": float(t_prev), "t_final": float(t_final), "target": float(self.target_norm),
                "recs": [], "raised": False}
        calls.append(call)
        real = self._integrator.mcstep

        def ms(t, copy=True):
            r = real(t, copy)
            call["recs"].append((float(t), float(self._prob_func(r[1]))))
            return r
        self._integrator.mcstep = ms
        try:
            return orig(self, norm_old, norm, t_prev, t_final)
        except RuntimeError:
            call["raised"] = True
            raise
        finally:
            del self._integrator.mcstep

    mcs.MCIntegrator._find_collapse_time = recording
    from qutip.solver.integrator.scipy_integrator import IntegratorScipyDop853 as D
    d_orig = D.mcstep
    steps = spec.setdefault("_mcsteps", [])
    del steps[:]

    def d_mcstep(self, t, copy=True):
        t_from = float(self._ode_solver.t)
        rec = [t_from, float(t), None]
        steps.append(rec)
        del steps[:-3]
        r = d_orig(self, t, copy)
        rec[2] = float(r[0])
        return r

    if spec["method"] == "dop853":
        D.mcstep = d_mcstep
    try:
        res = solver.run(st, spec["tlist"], ntraj=spec["ntraj"], seeds=spec["seed"])
    finally:
        mcs.MCIntegrator._find_collapse_time = orig
        D.mcstep = d_orig
    return res


class RefSystem:
    """Independent reference: effective generator built with NumPy, flow by
    scipy solve_ivp (DOP853, rtol 1e-11) with dense output."""

    def __init__(self, spec):
        self.spec = spec
        d = spec["d"]
        self.d = d
        self.issuper = spec["super_det"] is not None
        self.cs = [np.array(c, dtype=complex) for c in spec["cs"]]
        self.nch = len(self.cs)
        I = np.eye(d)
        if self.issuper:
            L = spec["super_det"]
            self.extra = [L]
        else:
            self.extra = []

    def cmat(self, k, t):
        c = self.cs[k]
        if k == 0 and self.spec["c_td"]:
            return c * math.exp(-t / 4)
        return c

    def H(self, t):
        H = self.spec["H0"]
        if self.spec["H1"] is not None:
            H = H + math.cos(self.spec["w"] * t) * self.spec["H1"]
        return H

    def rhs(self, t, y):
        d = self.d
        if not self.issuper:
            G = -1j * self.H(t)
            for k in range(self.nch):
                c = self.cmat(k, t)
                G = G - 0.5 * (c.conj().T @ c)
            return G @ y
        rho = y.reshape(d, d, order="F")
        H = self.H(t)
        out = -1j * (H @ rho - rho @ H)
        for L in self.extra:
            LdL = L.conj().T @ L
            out = out + L @ rho @ L.conj().T - 0.5 * (LdL @ rho + rho @ LdL)
        for k in range(self.nch):
            c = self.cmat(k, t)
            cdc = c.conj().T @ c
            out = out - 0.5 * (cdc @ rho + rho @ cdc)
        return out.reshape(-1, order="F")

    def prob(self, y):
        if self.issuper:
            return float(np.trace(y.reshape(self.d, self.d, order="F")).real)
        return float(np.vdot(y, y).real)

    def normalise(self, y):
        if self.issuper:
            return y / self.prob(y)
        return y / math.sqrt(self.prob(y))

    def rates(self, t, y):
        out = []
        for k in range(self.nch):
            c = self.cmat(k, t)
            if self.issuper:
                rho = y.reshape(self.d, self.d, order="F")
                out.append(float(np.trace(c @ rho @ c.conj().T).real))
            else:
                v = c @ y
                out.append(float(np.vdot(v, v).real))
        return out

    def jump(self, k, t, y):
        c = self.cmat(k, t)
        if self.issuper:
            rho = y.reshape(self.d, self.d, order="F")
            return (c @ rho @ c.conj().T).reshape(-1, order="F")
        return c @ y

    def jnorm(self, y):
        if self.issuper:
            return self.prob(y)
        return math.sqrt(self.prob(y))

    def gnorm(self):
        G = -1j * self.H(0.0)
        for c in self.cs:
            G = G - 0.5 * c.conj().T @ c
        extra = sum(np.linalg.norm(L, 2) ** 2 for L in self.extra)
        return float(np.linalg.norm(G, 2)) * (2 if self.issuper else 1) + 2 * extra

    def flow(self, t0, y0, t1):
        from scipy.integrate import solve_ivp
        if t1 <= t0:
            return lambda t: y0
        sol = solve_ivp(self.rhs, (t0, t1), y0, method="DOP853", rtol=1e-11,
                        atol=1e-13, dense_output=True)
        return sol.sol


def check_trajectory(ref, y0, tlist, seed, opts, floor, no_jump, collapses,
                     states):
    """Replay one implementation trajectory jump by jump.  Returns a list of
    (signature, message, detail)."""
    from scipy.optimize import brentq
    bad = []
    gen = np.random.default_rng(seed)
    target = 0.0 if no_jump else gen.random() * (1 - floor) + floor
    T = tlist[-1]
    gn = ref.gnorm()
    slack_t = 5e-6
    slack_n = 2e-5
    y = ref.normalise(np.array(y0, dtype=complex))
    t_cur = tlist[0]
    cols = [(float(t), int(k)) for t, k in collapses]
    ci = 0
    njump = 0
    si = 0            # next index in tlist/states to compare

    def cmp_states(sol, t_lo, t_hi, last):
        nonlocal si
        while si < len(tlist) and (tlist[si] < t_hi or (last and tlist[si] <= t_hi)):
            t = tlist[si]
            if states is not None:
                yr = ref.normalise(sol(t)) if t > t_lo else ref.normalise(sol(t_lo))
                ys = states[si]
                nn = ref.jnorm(ys)
                if abs(nn - 1.0) > 1e-9:
                    bad.append(("state-not-normalised", "reported state at t=%r has norm %r" % (t, nn),
                                {"t": t, "norm": nn}))
                    return False
                tol = (3e-5 + 4 * gn * opts["norm_t_tol"] + 2 * opts["norm_tol"]) * (1 + njump)
                err = float(np.linalg.norm(ys - yr))
                if err > tol:
                    bad.append(("state-differs", "state at t=%r differs from the jump-process "
                                "reference by %.3g (tolerance %.3g) after %d jumps" % (t, err, tol, njump),
                                {"t": t, "err": err, "tol": tol, "njump": njump}))
                    return False
            si += 1
        return True

    for _ in range(10000):
        sol = ref.flow(t_cur, y, T)
        N = lambda t: ref.prob(sol(t))
        NT = N(T) if T > t_cur else ref.prob(y)
        crossing = None
        if T > t_cur and NT <= target:
            crossing = brentq(lambda t: N(t) - target, t_cur, T, xtol=1e-13, rtol=1e-14)
        if ci >= len(cols):
            # the implementation reports no further collapse
            if crossing is not None and NT < target * (1 - opts["norm_tol"]) - slack_n \
                    and T - crossing > opts["norm_t_tol"] + slack_t:
                # could be the numerical-error branch: chosen channel kills the state
                u = gen.random() if ref.nch > 1 else None
                yc = sol(crossing)
                r = ref.rates(crossing, yc)
                k = 0
                if u is not None:
                    cum = np.cumsum(r)
                    k = int(sum(1 for c in cum if c < cum[-1] * u))
                    k = min(k, ref.nch - 1)
                if ref.jnorm(ref.jump(k, crossing, yc)) < 1e-10:
                    if not cmp_states(sol, t_cur, crossing, False):
                        return bad
                    y = ref.normalise(yc)
                    t_cur = crossing
                    continue
                bad.append(("missing-collapse", "squared norm reaches the threshold %.6g at t=%.6g "
                            "(norm2(T)=%.6g) but no collapse is recorded" % (target, crossing, NT),
                            {"target": target, "t_cross": crossing, "norm2_T": NT, "njump": njump}))
                return bad
            cmp_states(sol, t_cur, T, True)
            return bad
        tc, k = cols[ci]
        if not (t_cur <= tc <= T):
            bad.append(("collapse-time-out-of-order", "collapse time %r outside (%r, %r]" % (tc, t_cur, T),
                        {"tc": tc, "t_cur": t_cur}))
            return bad
        Ntc = N(tc) if tc > t_cur else ref.prob(y)
        ok_norm = abs(Ntc - target) <= opts["norm_tol"] * target + slack_n
        ok_time = crossing is not None and abs(tc - crossing) <= opts["norm_t_tol"] + slack_t
        if not (ok_norm or ok_time):
            bad.append(("collapse-time-off",
                        "collapse #%d at t=%.9g: reference squared norm there is %.9g, threshold %.9g "
                        "(norm_tol %g), reference crossing at %s (norm_t_tol %g)" % (
                            njump, tc, Ntc, target, opts["norm_tol"],
                            "%.9g" % crossing if crossing is not None else "none", opts["norm_t_tol"]),
                        {"tc": tc, "norm2_ref": Ntc, "target": target, "t_cross": crossing,
                         "njump": njump}))
            return bad
        if not cmp_states(sol, t_cur, tc, False):
            return bad
        yc = sol(tc) if tc > t_cur else y
        r = ref.rates(tc, yc)
        if ref.nch > 1:
            u = gen.random()
            cum = []
            acc = 0.0
            for x in r:
                acc += x
                cum.append(acc)
            v = acc * u
            kref = 0
            while kref < ref.nch - 1 and not (v <= cum[kref]):
                kref += 1
            margin = min(abs(v - c) for c in cum[:-1]) if ref.nch > 1 else 1.0
            if k != kref and margin > (1e-6 + 4 * opts["norm_tol"]) * max(acc, 1e-300):
                bad.append(("wrong-channel",
                            "collapse #%d at t=%.9g: channel %d recorded, the rule gives %d "
                            "(rates %s, u=%.9g)" % (njump, tc, k, kref, ["%.6g" % x for x in r], u),
                            {"tc": tc, "k": k, "kref": kref, "rates": r, "u": u, "njump": njump}))
                return bad
        if not (0 <= k < ref.nch):
            bad.append(("wrong-channel", "channel index %r out of range" % k, {"k": k}))
            return bad
        yj = ref.jump(k, tc, yc)
        jn = ref.jnorm(yj)
        if jn < 1e-10:
            bad.append(("zero-rate-channel", "collapse #%d recorded on channel %d whose image of the "
                        "state vanishes (rates %s)" % (njump, k, ["%.6g" % x for x in r]),
                        {"tc": tc, "k": k, "rates": r}))
            return bad
        y = yj / jn
        t_cur = tc
        target = gen.random()
        ci += 1
        njump += 1
    return bad


def check_run(spec):
    """Run qutip on the problem and check every trajectory and the weights.
    Returns (list of (signature, message, detail), stats)."""
    ref = RefSystem(spec)
    stats = {"traj": 0, "jumps": 0}
    try:
        res = run_qutip(spec)
    except Exception as e:            # noqa
        msg = "%s: %s" % (type(e).__name__, str(e)[:200])
        calls = spec.get("_finds", [])
        if isinstance(e, RuntimeError) and "collapse time" in str(e) and calls and calls[-1]["raised"]:
            c = calls[-1]
            succ, stag = analyse_search(spec["norm_steps"], spec["norm_t_tol"], spec["norm_tol"],
                                        c["target"], c["t_prev"], c["t_final"], c["recs"])
            det = {"error": msg, "search": c}
            if succ not in (None, "inconsistent"):
                sig = LAST_SIG if succ == spec["norm_steps"] else "raises-although-found-earlier"
                return [("find:" + sig, msg + " (try %d of %d had found it)" % (succ, spec["norm_steps"]),
                         det)], stats
            if stag:
                return [("find:" + STAG_SIG, msg + " (the same guess t_prev + norm_t_tol was repeated)",
                         det)], stats
            stats["search_exhausted"] = 1
            return [], stats          # documented behaviour: tolerance not reachable [NUM]
        steps = spec.get("_mcsteps", [])
        if (spec["method"] == "dop853" and "step size becomes too small" in str(e)
                and steps and steps[-1][2] is None and steps[-1][0] == steps[-1][1]
                and calls and calls[-1]["recs"] and calls[-1]["recs"][-1][0] == steps[-1][1]):
            return [("find:" + STAG_SIG, msg + " (the search repeated the guess t_prev + norm_t_tol = %r; "
                     "dop853.mcstep cannot be asked for its current time)" % steps[-1][1],
                     {"error": msg, "search": calls[-1], "mcsteps": [list(x) for x in steps]})], stats
        if (spec["method"] == "dop853" and "step size becomes too small" in str(e)
                and len(steps) >= 2 and steps[-1][2] is None and steps[-2][2] is not None
                and steps[-2][2] < steps[-2][1] and steps[-1][1] == steps[-2][1]
                and steps[-2][1] - steps[-2][2] <= 4 * np.spacing(abs(steps[-2][1]))):
            return [("dop853:" + DOP_SIG, msg + " (integrate(%r) stopped at %r, one rounding error short; "
                     "the next mcstep over that gap fails)" % (steps[-2][1], steps[-2][2]),
                     {"error": msg, "mcsteps": [list(x) for x in steps]})], stats
        return [("mcsolve-raised:" + type(e).__name__, msg, {"error": msg})], stats
    bad = []
    opts = {"norm_tol": spec["norm_tol"], "norm_t_tol": spec["norm_t_tol"]}
    tl = list(spec["tlist"])

    def vec(q):
        a = q.full()
        if ref.issuper:
            return a.reshape(-1, order="F")
        if a.shape[1] != 1:
            return None
        return a[:, 0]

    det = list(res.deterministic_trajectories)
    detw = list(res.deterministic_weights)
    trajs = list(res.trajectories)
    # initial states and mixture weights
    if spec["psi0"] is not None or ref.issuper:
        y0 = spec["psi0"] if spec["psi0"] is not None else spec["rho0"].reshape(-1, order="F")
        inits = [(y0, 1.0)]
    else:
        ev, U = np.linalg.eigh(spec["rho0"])
        inits = [(U[:, i], float(ev[i])) for i in range(len(ev)) if ev[i] > 0]

    def find_init(traj):
        v0 = vec(traj.states[0])
        best = None
        for (y0, w) in inits:
            y0n = ref.normalise(np.array(y0, dtype=complex))
            if ref.issuper:
                e = np.linalg.norm(v0 - y0n)
            else:
                e = 1 - abs(np.vdot(v0, y0n))
            if best is None or e < best[0]:
                best = (e, v0, w)
        return best

    p0s = {}
    for j, tr in enumerate(det):
        e, v0, w = find_init(tr)
        if e > 1e-8:
            bad.append(("initial-state", "deterministic trajectory does not start from a component "
                        "of the initial mixture (distance %.3g)" % e, {"dist": e}))
            continue
        states = [vec(s) for s in tr.states]
        b = check_trajectory(ref, v0, tl, 0, opts, 0.0, True, tr.collapse if hasattr(tr, "collapse") else [],
                             states)
        bad += [("no-jump:" + s, m, d) for s, m, d in b]
        sol = ref.flow(tl[0], ref.normalise(v0), tl[-1])
        p0 = ref.prob(sol(tl[-1]))
        p0s[j] = (v0, p0, w)
        if abs(detw[j] - p0 * w) > 2e-5:
            bad.append(("no-jump-weight", "weight of the no-jump trajectory is %.9g, the final squared "
                        "norm of the effective evolution times the mixture weight is %.9g" % (detw[j], p0 * w),
                        {"weight": detw[j], "expected": p0 * w}))
        stats["traj"] += 1
    for i, tr in enumerate(trajs):
        e, v0, w = find_init(tr)
        if e > 1e-8:
            bad.append(("initial-state", "trajectory %d does not start from a component of the initial "
                        "mixture (distance %.3g)" % (i, e), {"dist": e}))
            continue
        floor = 0.0
        if spec["improved"]:
            # the floor is the no-jump probability of this trajectory's initial state
            cand = [p0 for (vv, p0, ww) in p0s.values()
                    if (np.linalg.norm(vv - v0) < 1e-8)]
            floor = cand[0] if cand else 0.0
            if not cand:
                bad.append(("no-jump-missing", "improved sampling: no deterministic trajectory for "
                            "the initial state of trajectory %d" % i, {}))
                continue
        states = [vec(s) for s in tr.states]
        if spec["improved"] and floor >= 1 - spec["norm_tol"]:
            stats["traj"] += 1
            continue
        b = check_trajectory(ref, v0, tl, res.seeds[i], opts, floor, False, tr.collapse, states)
        bad += b
        stats["traj"] += 1
        stats["jumps"] += len(tr.collapse)
        if spec["improved"] and not b and len(tr.collapse) == 0:
            bad.append(("improved-sampling-no-jump", "improved sampling produced a sampled trajectory "
                        "without any collapse (floor %.6g)" % floor, {"floor": floor}))
    # weights
    tot = sum(detw) + sum(res.runs_weights)
    if trajs and abs(tot - 1.0) > 1e-6 + (spec["norm_tol"] if spec["improved"] else 0):
        bad.append(("weights-total", "absolute weights %s plus relative weights sum to %.9g, not 1"
                    % (["%.6g" % x for x in detw], tot), {"total": tot, "det": detw}))
    if spec["improved"] and trajs and spec["rho0"] is None:
        p0 = list(p0s.values())[0][1] if p0s else None
        if p0 is not None and p0 < 1 - spec["norm_tol"]:
            for wgt in res.runs_weights:
                if abs(wgt * len(trajs) - (1 - p0)) > 2e-5:
                    bad.append(("relative-weight", "relative weight %.9g of a sampled trajectory is not "
                                "1 - p0 = %.9g" % (wgt * len(trajs), 1 - p0),
                                {"weight": wgt * len(trajs), "expected": 1 - p0}))
                    break
    return bad, stats


def sig_of(spec, s):
    return s


def simulate_ref(ref, y0, tlist, seed, floor, no_jump, eps=1e-10):
    """free-running reference trajectory: list of (t, k) it prescribes."""
    from scipy.optimize import brentq
    gen = np.random.default_rng(seed)
    target = 0.0 if no_jump else gen.random() * (1 - floor) + floor
    T = tlist[-1]
    y = ref.normalise(np.array(y0, dtype=complex))
    t_cur = tlist[0]
    out = []
    for _ in range(1000):
        if T <= t_cur:
            break
        sol = ref.flow(t_cur, y, T)
        if ref.prob(sol(T)) > target:
            break
        tc = brentq(lambda t: ref.prob(sol(t)) - target, t_cur, T, xtol=1e-13, rtol=1e-14)
        yc = sol(tc)
        k = 0
        if ref.nch > 1:
            u = gen.random()
            cum = np.cumsum(ref.rates(tc, yc))
            k = min(int(sum(1 for c in cum if c < cum[-1] * u)), ref.nch - 1)
        yj = ref.jump(k, tc, yc)
        if ref.jnorm(yj) < eps:
            y = ref.normalise(yc)
        else:
            y = yj / ref.jnorm(yj)
            out.append((tc, k))
            target = gen.random()
        t_cur = tc
    return out


# ---------------------------------------------- integrator-level mcstep oracle
def check_mcstep(method, t0, rng):
    """Contract of Integrator.mcstep used by MCIntegrator: after
    set_state(t0, psi) a forward request returns a time in (t0, t] with the
    state of the flow at that time; a request back inside the last step
    returns the state at exactly that time."""
    import qutip
    import qutip.core.data as _data
    from scipy.linalg import expm
    H = 0.5 * SZ + 0.75 * SX
    c = 0.75 * SM.T.conj()
    G = -1j * H - 0.5 * c.conj().T @ c
    rhs = qutip.QobjEvo(qutip.Qobj(G))
    cls = qutip.MCSolver.avail_integrators()[method]
    integ = cls(rhs, {})
    psi = np.array([[0.6], [0.8j]], dtype=complex)
    bad = []
    t_set = [t0]
    try:
        integ.set_state(t0, _data.Dense(psi.copy()))
        t_prev = t0
        for _round in range(5):
            t_req = t_prev + 0.75
            t_ret, st = integ.mcstep(t_req, copy=True)
            if not (t_prev < t_ret <= t_req):
                return [("forward-step-returns-time-outside-range",
                         "%s: set_state(t0=%r) then mcstep(%r) from t=%r returned t=%r"
                         % (method, t0, t_req, t_prev, t_ret),
                         {"method": method, "t0": t0, "t_req": t_req, "t_ret": float(t_ret),
                          "t_set": t_set[0], "first_after_set": t_prev == t_set[0]})]
            refst = expm(G * (t_ret - t0)) @ psi
            err = float(np.linalg.norm(st.to_array() - refst))
            if err > 1e-4:
                return [("forward-step-wrong-state", "%s: state after mcstep to %r is off by %.3g"
                         % (method, t_ret, err), {"method": method, "t0": t0, "err": err})]
            if t_ret - t_prev < 1e-9:
                # start-up step of a multistep method: nothing to search in
                t_prev = t_ret
                continue
            # requests inside the last step, as the secant search makes them:
            # backward, then forward again but still inside the step
            fr = [rng.choice([0.25, 0.5, 0.75]), 0.125, rng.choice([0.875, 0.9375]), 0.625]
            tb = t_ret
            for f in fr[:rng.randint(1, 4)]:
                tb = t_prev + (t_ret - t_prev) * f
                t_b, st_b = integ.mcstep(tb, copy=True)
                refb = expm(G * (tb - t0)) @ psi
                errb = float(np.linalg.norm(st_b.to_array() - refb))
                if t_b != tb or errb > 1e-4:
                    return [("step-inside-last-step-wrong", "%s: mcstep to %r inside the last step "
                             "(%r, %r] returned t=%r, state error %.3g" % (method, tb, t_prev, t_ret, t_b, errb),
                             {"method": method, "t0": t0, "tb": tb, "t_b": float(t_b), "err": errb})]
            # asking again for the time the integrator stands at must be a no-op
            # (the search does it when its bracket stops shrinking)
            try:
                t_b2, st_b2 = integ.mcstep(tb, copy=True)
                same = (t_b2 == tb and float(np.linalg.norm(st_b2.to_array() - st_b.to_array())) < 1e-9)
                why = "returned t=%r" % (t_b2,)
            except Exception as e:      # noqa
                same = False
                why = "raised %s: %s" % (type(e).__name__, str(e)[:80])
            if not same and not bad:
                bad.append(("request-at-current-time-fails", "%s: mcstep(%r) while standing at %r %s"
                            % (method, tb, tb, why), {"method": method, "t0": t0, "tb": tb}))
            # as after a collapse: restart the integrator at the last time asked
            integ.set_state(tb, _data.Dense(expm(G * (tb - t0)) @ psi))
            t_set[0] = tb
            t_prev = tb
    except Exception as e:      # noqa
        return [("mcstep-raised:" + type(e).__name__, "%s: %s: %s" % (method, type(e).__name__, str(e)[:120]),
                 {"method": method, "t0": t0, "t_set": t_set[0], "first_after_set": t_prev == t_set[0]})]
    return bad


STAG_SIG = "search-stagnates-when-bracket-width-equals-norm_t_tol"
LAST_SIG = "success-on-last-allowed-try-raises"
DOP_SIG = "integrate-stops-one-ulp-short-then-step-size-too-small"


def analyse_search(norm_steps, t_tol, n_tol, target, tp, tf, recs):
    """recs: [(t_guess, norm2 seen)] of one _find_collapse_time call.
    Returns (first successful try or None, stagnated?)."""
    succ = None
    recs = list(recs)
    prev_g = None
    stag = False
    for tries in range(1, norm_steps + 1):
        if tf <= tp + t_tol:
            succ = tries
            break
        if not recs:
            return "inconsistent", False
        g, n2 = recs.pop(0)
        if prev_g is not None and g == prev_g:
            stag = True
        prev_g = g
        if abs(target - n2) < n_tol * target:
            succ = tries
            break
        elif n2 < target:
            tf = g
        else:
            tp = g
    return succ, stag



# ------------------------------------------ property oracle on scripted runs
def analyse_scripted(case, r):
    """The property itself on a scripted MCIntegrator run, from the recorded
    oracle values only (independent of the Coq model).  Returns a list of
    (site, signature, message)."""
    out = []
    o = case["opts"]
    nch = len(case["chan"])
    tabs = r["tabs"]
    rnd = case["rnd"]
    # threshold drawn by set_state
    # replay the consumption of the random stream
    di = 0
    if case["no_jump"]:
        tgt = 0.0
    else:
        tgt = rnd[0] * (1 - case["floor"]) + case["floor"]
        di = 1
    seg = 0
    ci = 0
    for (t, s, k) in r["sets"]:
        if nch > 1:
            u = rnd[di] if di < len(rnd) else float("nan")
            di += 1
            rates = [tabs["rate"].get((seg, t, s, j)) for j in range(nch)]
            if None not in rates and u == u:
                cum = []
                acc = None
                for x in rates:
                    acc = x if acc is None else acc + x
                    cum.append(acc)
                v = cum[-1] * u
                kk = 0
                while kk < nch and cum[kk] < v:
                    kk += 1
                chosen = k if k < nch else None
                if chosen is None:
                    # numerical-error branch: the channel tried is the one of
                    # the last matmul; recover it from the jnorm table
                    tried = [j for j in range(nch) if (seg, t, s, j) in tabs["jnorm"]]
                    chosen = tried[0] if tried else None
                if chosen is not None and chosen != kk and min(rates) >= 0:
                    out.append(("mcsolve.MCIntegrator._do_collapse", "channel-not-by-cumulative-rule",
                                "channel %r chosen, cumulative rates %r and u=%r give %r" % (chosen, cum, u, kk)))
        if k < nch:
            jn = tabs["jnorm"].get((seg, t, s, k))
            if jn is not None and jn < o["mc_corr_eps"]:
                out.append(("mcsolve.MCIntegrator._do_collapse", "collapse-recorded-below-mc_corr_eps",
                            "collapse recorded although |c psi| = %r < mc_corr_eps" % jn))
            tgt = rnd[di] if di < len(rnd) else float("nan")
            di += 1
            ci += 1
        seg += 1
    if r["status"] == 0 and di != r["ndraw"]:
        out.append(("mcsolve.MCIntegrator", "random-stream-consumption",
                    "%d random numbers consumed, the jump process prescribes %d" % (r["ndraw"], di)))
    if r["status"] == 0 and fkey(tgt) != fkey(r["target"]):
        out.append(("mcsolve.MCIntegrator", "threshold-not-from-stream",
                    "final threshold %r, prescribed %r" % (r["target"], tgt)))
    if r["state_norm_dev"] > 1e-12:
        out.append(("mcsolve.MCIntegrator._do_collapse", "post-jump-state-not-normalised",
                    "state handed to the integrator after a collapse has norm deviating by %.3g"
                    % r["state_norm_dev"]))
    if r["ret_norm_dev"] > 1e-12:
        out.append(("mcsolve.MCIntegrator.integrate", "returned-state-not-normalised",
                    "state returned by integrate has norm deviating by %.3g" % r["ret_norm_dev"]))
    cols = r["cols"]
    for a, b in zip(cols, cols[1:]):
        if b[0] < a[0]:
            out.append(("mcsolve.MCIntegrator", "collapse-times-decrease", "%r then %r" % (a, b)))
    if not case["malformed"] and r["illegal"]:
        out.append(("mcsolve.MCIntegrator._find_collapse_time", "request-outside-dense-range",
                    "%d mcstep requests before the start of the last step" % r["illegal"]))
    # every call of _find_collapse_time
    for call in r.get("finds", []):
        sg = call["seg"]
        recs = []
        cur = call["t_final"]
        okrec = True
        for g in call["reqs"]:
            s_t = tabs["stp"].get((sg, cur, g), g)
            cur = s_t
            n2 = tabs["nrm2"].get((sg, s_t))
            if n2 is None:
                okrec = False
                break
            recs.append((g, n2))
        if not okrec:
            continue
        succ, stag = analyse_search(o["norm_steps"], o["norm_t_tol"], o["norm_tol"], call["target"],
                                    call["t_prev"], call["t_final"], recs)
        if succ == "inconsistent":
            continue
        site = "mcsolve.MCIntegrator._find_collapse_time"
        if call["raised"] and succ is not None:
            if succ == o["norm_steps"]:
                out.append((site, LAST_SIG,
                            "norm_steps=%d: try %d found the collapse (bracket width or norm within "
                            "tolerance) but RuntimeError is raised" % (o["norm_steps"], succ)))
            else:
                out.append((site, "raises-although-found-earlier",
                            "try %d of %d found the collapse but RuntimeError is raised"
                            % (succ, o["norm_steps"])))
        if call["raised"] and succ is None and stag and not case["malformed"]:
            out.append((site, STAG_SIG,
                        "the crossing lies within norm_t_tol after t_prev: the guess is clamped to "
                        "t_prev + norm_t_tol = t_final again and again (bracket width == norm_t_tol is "
                        "not < norm_t_tol) until norm_steps=%d is exhausted" % o["norm_steps"]))
        if (not call["raised"]) and succ is None:
            out.append((site, "returns-without-meeting-tolerance",
                        "a collapse time is returned although no try met norm_tol / norm_t_tol"))
        if (not call["raised"]) and succ is not None and not case["malformed"]:
            tcol, s_time = call["ret"]
            if not (call["t_prev"] <= tcol <= call["t_final"]):
                out.append((site, "collapse-time-outside-step",
                            "t=%r outside [%r, %r]" % (tcol, call["t_prev"], call["t_final"])))
    return out


# ----------------------------------------------------------- fixed witnesses
WITNESS_SCRIPTED = {
    # the refuted theorem's shape: one allowed try, which succeeds
    "opts": {"norm_steps": 1, "norm_t_tol": 1e-6, "norm_tol": 0.75, "mc_corr_eps": 1e-10},
    "segs": [{"kind": "exp", "gamma": 1.5, "h": 1.0, "trunc": False}],
    "chan": [{"r": 1.0, "s": 1.0, "imag": False}], "issuper": False,
    "tlist": [0.0, 1.0], "rnd": [0.5] + [0.25] * 20, "no_jump": False, "floor": 0.0,
    "malformed": False}


def witness_real_norm_steps():
    """real mcsolve: norm_steps=1 and a very loose norm_tol: the first guess
    is within tolerance, yet the RuntimeError is raised."""
    import qutip
    H = 0.5 * qutip.sigmaz()
    try:
        qutip.mcsolve(H, qutip.basis(2, 0), [0.0, 2.0, 4.0], [qutip.sigmam()], ntraj=3, seeds=7,
                      options={"norm_steps": 1, "norm_tol": 0.9, "progress_bar": "",
                               "method": "vern7"})
    except RuntimeError as e:
        return str(e)[:80]
    return None


LSODA_SIG = "first-mcstep-after-set_state-at-abs-t-above-2-fails"


def lsoda_signature(detail):
    """stable signature of the lsoda defect: the failing request is the first
    forward mcstep after a set_state at |t| > 2 (fl(t + 1e-15) - t < 2*uround*|t|)."""
    return LSODA_SIG


# ---------------------------------------------------------------------- run
def compare_scripted(ctx, cases, label):
    impls = [run_impl(c) for c in cases]
    try:
        models = eval_model(cases, impls, "cases_C16_" + label)
    except (RuntimeError, AssertionError, ValueError) as e:
        ctx.violation("corr:C16:model-eval", "coqc", "model evaluation failed",
                      {"log": str(e)[-2000:]}, found_input=False)
        return impls
    mism = 0
    for c, r, m in zip(cases, impls, models):
        im = canon_impl(r)
        ctx.cov["traces_validated_against_impl"] += 1
        ctx.count_case(("scripted", json.dumps(c, sort_keys=True)),
                       nontrivial=len(r["cols"]) + len(r["finds"]) > 0)
        if im != m:
            mism += 1
            if mism <= 3:
                keys = [k for k in im if im[k] != m[k]]
                props = analyse_scripted(c, r)
                unknown = [p for p in props if p[1] not in (LAST_SIG, STAG_SIG)]
                ctx.violation("corr:mcsolve.MCIntegrator", "model-differs:" + keys[0],
                              "MCIntegrator and the Coq model disagree on %s for a scripted run%s"
                              % (keys, ("; the run violates the property: " + unknown[0][2]) if unknown else ""),
                              {"kind": "scripted", "case": c,
                               "impl": {k: im[k] for k in keys}, "model": {k: m[k] for k in keys}},
                              found_input=True)
    return impls


def run(ctx):
    rng = random.Random(ctx.seed * 7919 + 16)
    ctx.cov["rule"] = (
        "scripted case = (options, segment flow profiles and step sizes, channel "
        "rate/amplitude tables, random stream, output times, no_jump/floor); evaluated on the real "
        "MCIntegrator and on the Coq model; non-trivial when a collapse search ran; distinct by the "
        "full case.  trajectory case = (system kind, H, c_ops, initial state, ODE method, "
        "norm_tol/norm_t_tol/norm_steps, improved_sampling, seed); counted per trajectory replayed "
        "against the NumPy/SciPy reference.  martingale case = (a, scripted quadrature/rates/shift, history "
        "of reset/initialize/add_collapse/value calls on dyadic times); mixed case = (dyadic weights, "
        "ntraj as number or list, ids), incl. malformed ones")
    ctx.cov["trusted_base"] += [
        "oracles of Model/C16.v (Section variables / function arguments): ODE flow and its squared "
        "norm nrm2, np.log (assumed positive and monotone above 1 in C16_search_requests_inside_bracket), "
        "time reached by mcstep stp (assumed exact for interpolation requests), rates, jump norms, "
        "random stream",
        "the two order laws of the comparisons (order_laws); proved for Q, assumed for IEEE doubles "
        "(false only for NaN)",
        "np.searchsorted(side='left') on a sorted array = number of leading elements < v; np.cumsum "
        "adds left to right",
        "Model/C16.v is hand-written; tied to mcsolve.py by the bit-exact trace correspondence on "
        "PrimFloat; the generator algebra is tied by tools/tx_c16_rhs.py",
        "independent reference of the oracle: scipy.integrate.solve_ivp(DOP853, rtol 1e-11) and brentq",
        "nm_mcsolve: InfluenceMartingale is modelled (Model/C16_nm.v) with scipy.integrate.quad and "
        "np.exp as oracles (assumed: quadrature additive over adjacent intervals, exp(x+y)=exp x exp y, "
        "exp 0 = 1); the completion operator's construction (eigendecomposition, sqrtm) and the "
        "trace-weighted averages of NmmcResult are covered by the implementation-level oracle only",
        "NmMCIntegrator (set_state / _do_collapse overrides) and _run_one_traj's trace are modelled in "
        "Model/C16_nmint.v on top of the two models and tied by bit-exact correspondence around the same "
        "scripted parts; _check_completeness is regenerated by tools/tx_c16_nmc.py, with sqrtm (Hermitian "
        "square root of its argument) and the largest eigenvalue as oracles; the mcstep-contract theorems "
        "are about Model/C11_zvode.v (adams/bdf), tied by exact trace correspondence on search-pattern "
        "call histories of the real integrators; dop853 is modelled in Model/C16_dop.v (SciPy's "
        "integrate as an oracle: exact, or short by a rounding error going forward; work[6] recorded) and "
        "tied the same way; lsoda and the Verner integrators are covered by the mcstep contract test only",
        "_InitialConditions is modelled over exact rational weights (Model/C16_mix.v); np.ceil and the "
        "float ratio ordering are exact for the dyadic weights of the correspondence",
    ]
    props = ["Props/C16.v", "Props/C16_nm.v", "Props/C16_mix.v", "Props/C16_nmint.v",
             "Props/C16_mcstep.v", "Props/C16_dop.v"]
    targets = ["Props/C16.vo", "Props/C16_nm.vo", "Props/C16_mix.vo", "Props/C16_nmint.vo",
               "Props/C16_mcstep.vo", "Props/C16_dop.vo"]
    gen_ok = True
    try:
        import tx_c16_rhs
        import tx_c16_nmc
        info = tx_c16_rhs.generate()
        info2 = tx_c16_nmc.generate()
        ctx.sample({"generated_rhs": info, "generated_check_completeness": info2})
        props += ["Props/C16_gen.v", "Props/C16_nm_gen.v", "Props/C16_nm_complete.v"]
        targets += ["Gen/C16_rhs.vo", "Gen/C16_nm_complete.vo", "Props/C16_gen.vo",
                    "Props/C16_nm_gen.vo", "Props/C16_nm_complete.vo"]
    except ImportError:
        gen_ok = False
    except Exception as e:      # translator failed closed
        gen_ok = False
        ctx.violation("tx:mcsolve.MCSolver.__init__", "translator-failed-closed",
                      "MCSolver.__init__ / _check_completeness is outside the translators' subset: %s" % str(e)[:200],
                      {"error": str(e)[:2000]}, found_input=False)

    def search(failed, log):
        r2 = random.Random(ctx.seed + 99)
        for _ in range(40):
            spec = gen_system(r2)
            bad, _st = check_run(spec)
            bad = [b for b in bad if not b[0].startswith("mcsolve-raised") or spec["method"] != "lsoda"]
            if bad:
                ctx.violation("mcsolve:trajectory-oracle", bad[0][0], bad[0][1],
                              {"kind": "system", "spec": spec_to_json(spec), "failed_theorems": failed,
                               "detail": bad[0][2]})
                return
        for _ in range(40):
            spec = gen_nm_system(r2)
            try:
                bad, _st = with_timeout(30, check_nm, spec)
            except _Timeout:
                continue
            if bad:
                ctx.violation("nm_mcsolve:trajectory-oracle", bad[0][0], bad[0][1],
                              {"kind": "nm", "spec": spec_to_json(spec), "failed_theorems": failed,
                               "detail": bad[0][2]})
                return

    vlib.standard_proof_step(ctx, targets, props, search)
    ctx.log("proof step done")

    # ---- correspondence: corpus, fixed witness, random
    n_sc = 240 if ctx.quick else 1600
    cases = []
    cdir = os.path.join(vlib.VERIF, "corpus", "C16")
    sys_corpus = []
    if os.path.isdir(cdir):
        for f in sorted(os.listdir(cdir)):
            if f.startswith("sc_"):
                cases.append(json.load(open(os.path.join(cdir, f))))
            elif f.startswith("sys_"):
                sys_corpus.append(spec_from_json(json.load(open(os.path.join(cdir, f)))))
    cases.append(WITNESS_SCRIPTED)
    while len(cases) < n_sc:
        cases.append(gen_case(rng, malformed=(len(cases) % 4 == 3)))
    impls = compare_scripted(ctx, cases, "a")
    ctx.log("correspondence done: %d scripted cases" % len(cases))
    dist = {"scripted_status": {}, "scripted_collapses": {}, "scripted_malformed": 0,
            "system_kind": {}, "method": {}}
    for c, r in zip(cases, impls):
        dist["scripted_status"][str(r["status"])] = dist["scripted_status"].get(str(r["status"]), 0) + 1
        nc = min(len(r["cols"]), 6)
        dist["scripted_collapses"][str(nc)] = dist["scripted_collapses"].get(str(nc), 0) + 1
        dist["scripted_malformed"] += 1 if c["malformed"] else 0
        for site, sig, msg in analyse_scripted(c, r):
            ctx.violation(site, sig, msg, {"kind": "scripted", "case": c})
    ctx.sample({"scripted_case": cases[-1], "impl_trace": canon_impl(impls[-1])})

    # ---- InfluenceMartingale and _InitialConditions: exact correspondence
    compare_martingale(ctx, 150 if ctx.quick else 1500, rng)
    compare_mixed(ctx, 200 if ctx.quick else 2000, rng)
    compare_nmint(ctx, 60 if ctx.quick else 500, rng)
    compare_zvode_pattern(ctx, 25 if ctx.quick else 250, rng)
    import warnings
    with warnings.catch_warnings():
        warnings.simplefilter("ignore")
        compare_dop853(ctx, 40 if ctx.quick else 400, rng)
    ctx.log("martingale, mixed-state, NmMCIntegrator and zvode-pattern correspondence done")

    # ---- the former last-try defect (norm_steps=1) on the real solver: must not raise
    msg = witness_real_norm_steps()
    ctx.count_case("witness-real-norm_steps")
    if msg is not None:
        ctx.violation("mcsolve.MCIntegrator._find_collapse_time",
                      "success-on-last-allowed-try-raises",
                      "mcsolve(options={'norm_steps': 1, 'norm_tol': 0.9}) raises '%s' although the "
                      "only allowed try is within tolerance" % msg,
                      {"kind": "witness-real"})

    # ---- integrator-level mcstep contract
    import qutip
    for m in sorted(qutip.MCSolver.avail_integrators().keys()):
        for t0 in [0.0, 1.0, 2.5, 10.0, -3.0] + ([100.0, 0.5, 7.25] if not ctx.quick else []):
            import warnings
            with warnings.catch_warnings():
                warnings.simplefilter("ignore")
                bad = check_mcstep(m, t0, rng)
            ctx.count_case(("mcstep", m, t0))
            dist["method"][m] = dist["method"].get(m, 0) + 1
            for sig, message, det in bad:
                site = "integrator.mcstep:" + m
                if (m == "lsoda" and abs(det.get("t_set", t0)) > 2.0
                        and det.get("first_after_set", True)):
                    site = "scipy_integrator.IntegratorScipylsoda._one_step"
                    sig = LSODA_SIG
                ctx.violation(site, sig, message, {"kind": "mcstep", "method": m, "t0": t0})

    # ---- trajectory oracle on real mcsolve
    n_sys = 36 if ctx.quick else 400
    ntraj = 0
    njump = 0
    t_or = time.time()
    for i in range(n_sys):
        spec = sys_corpus[i] if i < len(sys_corpus) else gen_system(rng)
        dist["system_kind"][spec["kind"]] = dist["system_kind"].get(spec["kind"], 0) + 1
        import warnings
        with warnings.catch_warnings():
            warnings.simplefilter("ignore")
            try:
                bad, st = with_timeout(20, check_run, spec)
            except _Timeout:
                bad, st = [("mcsolve-raised:Timeout", "mcsolve did not finish %d trajectories within 20 s "
                            "(method %s)" % (spec["ntraj"], spec["method"]), {})], {"traj": 0, "jumps": 0}
        ntraj += st["traj"]
        njump += st["jumps"]
        ctx.count_case(("system", json.dumps(spec_to_json(spec), sort_keys=True)),
                       nontrivial=st["jumps"] > 0)
        for sig, message, det in bad[:2]:
            site, sig = classify(spec, sig)
            ctx.violation(site, sig, message,
                          {"kind": "system", "spec": spec_to_json(spec), "detail": det})
        if i < 2:
            ctx.sample({"system": {k: spec_to_json(spec)[k] for k in
                                   ("kind", "method", "norm_tol", "norm_t_tol", "improved", "ntraj", "seed")},
                        "trajectories_checked": st})
    ctx.log("trajectory oracle: %d systems, %d trajectories, %d collapses, %.1fs"
            % (n_sys, ntraj, njump, time.time() - t_or))
    ctx.cov["traces_validated_against_impl"] += ntraj

    # ---- nm_mcsolve: jump process with shifted rates, influence martingale,
    #      trace-weighted averages
    n_nm = 10 if ctx.quick else 80
    nm_traj = 0
    nm_jumps = 0
    for i in range(n_nm):
        spec = gen_nm_system(rng)
        dist["system_kind"][spec["kind"]] = dist["system_kind"].get(spec["kind"], 0) + 1
        import warnings
        with warnings.catch_warnings():
            warnings.simplefilter("ignore")
            try:
                bad, st = with_timeout(30, check_nm, spec)
            except _Timeout:
                bad, st = [("nm-raised:Timeout", "nm_mcsolve did not finish within 30 s", {})], \
                    {"traj": 0, "jumps": 0}
        nm_traj += st["traj"]
        nm_jumps += st["jumps"]
        ctx.count_case(("nm", json.dumps(spec_to_json(spec), sort_keys=True)), nontrivial=st["jumps"] > 0)
        for sig, message, det in bad[:2]:
            ctx.violation("nm_mcsolve:trajectory-oracle", sig, message,
                          {"kind": "nm", "spec": spec_to_json(spec), "detail": det})
    ctx.log("nm_mcsolve oracle: %d systems, %d trajectories, %d collapses" % (n_nm, nm_traj, nm_jumps))
    ctx.cov["traces_validated_against_impl"] += nm_traj

    # ---- exploration (labelled): ensemble mean vs mesolve
    explore_ensemble(ctx, rng)
    explore_nm_ensemble(ctx, rng)

    ctx.cov["input_distribution"] = dist
    ctx.cov["explanation"] = (
        "Props/C16.v: %d theorems over the model of MCIntegrator for every option set, flow, "
        "stream and history; model tied to mcsolve.py by bit-exact trace equality on %d scripted "
        "runs (PrimFloat); the property itself checked on %d real mcsolve trajectories (%d "
        "collapses) against an independent reference sharing the random stream; "
        "Props/C16_gen.v%s." % (len(ctx.cov.get("theorems", [])), len(cases), ntraj, njump,
                                 " re-proved over the regenerated generator" if gen_ok else
                                 " (generator translator not run)"))


class _Timeout(BaseException):
    pass


def with_timeout(seconds, fn, *args):
    """run fn(*args); raise _Timeout after `seconds` (SIGALRM, main thread)."""
    import signal

    def handler(signum, frame):
        raise _Timeout()
    old = signal.signal(signal.SIGALRM, handler)
    signal.alarm(int(seconds))
    try:
        return fn(*args)
    finally:
        signal.alarm(0)
        signal.signal(signal.SIGALRM, old)


def classify(spec, sig):
    """site and stable signature of a trajectory-oracle finding."""
    site = "mcsolve:trajectory-oracle"
    if sig.startswith("find:"):
        return "mcsolve.MCIntegrator._find_collapse_time", sig[5:]
    if sig.startswith("dop853:"):
        return "scipy_integrator.IntegratorScipyDop853.mcstep", sig[7:]
    if spec["method"] == "lsoda" and sig.startswith("mcsolve-raised"):
        # attribute to the lsoda restart defect only if the reference
        # prescribes a collapse later than t = 2 in some trajectory
        if lsoda_late_collapse(spec):
            return "scipy_integrator.IntegratorScipylsoda._one_step", LSODA_SIG
    return site, sig


def lsoda_late_collapse(spec):
    ref = RefSystem(spec)
    if spec["psi0"] is None:
        return True     # mixed / super: do not resolve further
    from numpy.random import SeedSequence
    seeds = SeedSequence(spec["seed"]).spawn(spec["ntraj"])
    floor = 0.0
    if spec["improved"]:
        y0 = ref.normalise(np.array(spec["psi0"], dtype=complex))
        floor = ref.prob(ref.flow(spec["tlist"][0], y0, spec["tlist"][-1])(spec["tlist"][-1]))
    for sd in seeds:
        cols = simulate_ref(ref, spec["psi0"], spec["tlist"], sd, floor, False)
        if any(abs(t) > 2.0 for t, _ in cols):
            return True
    return False


def explore_ensemble(ctx, rng):
    """exploration, not part of any proof obligation: ensemble average vs the
    master equation within 5 standard errors."""
    import qutip
    H = 0.5 * qutip.sigmaz() + 0.5 * qutip.sigmax()
    cs = [0.75 * qutip.sigmam(), 0.5 * qutip.sigmaz()]
    tl = np.linspace(0, 2.0, 5)
    e = [qutip.sigmaz(), qutip.sigmax()]
    nt = 150 if ctx.quick else 1500
    for improved in (False, True):
        try:
            res = qutip.mcsolve(H, qutip.basis(2, 0), tl, cs, e_ops=e, ntraj=nt,
                                seeds=rng.randrange(1 << 30),
                                options={"progress_bar": "", "improved_sampling": improved,
                                         "method": "vern7"})
        except Exception as ex:      # noqa
            ctx.violation("mcsolve:ensemble-vs-mesolve", "raised:" + type(ex).__name__,
                          "exploration: mcsolve(improved_sampling=%s) raised %s: %s"
                          % (improved, type(ex).__name__, str(ex)[:120]),
                          {"kind": "ensemble", "improved": improved})
            continue
        me = qutip.mesolve(H, qutip.basis(2, 0), tl, cs, e_ops=e)
        worst = 0.0
        for a, s, b in zip(res.average_expect, res.std_expect, me.expect):
            se = np.maximum(np.asarray(s) / math.sqrt(nt), 1e-3)
            worst = max(worst, float(np.max(np.abs(np.asarray(a) - np.asarray(b)) / se)))
        ctx.count_case(("ensemble", improved), nontrivial=False)
        ctx.notes.append("exploration: ensemble (ntraj=%d, improved_sampling=%s) vs mesolve: worst "
                         "deviation %.2f standard errors" % (nt, improved, worst))
        if worst > 5.0:
            ctx.violation("mcsolve:ensemble-vs-mesolve", "mean-off-by-more-than-5-sigma",
                          "exploration: ensemble average deviates from mesolve by %.1f standard errors "
                          "(improved_sampling=%s)" % (worst, improved),
                          {"kind": "ensemble", "improved": improved, "worst_sigma": worst})


def replay(ctx, payload):
    d = payload["detail"]
    kind = d.get("kind")
    if kind == "scripted":
        c = d["case"]
        r = run_impl(c)
        for site, sig, msg in analyse_scripted(c, r):
            ctx.violation(site, sig, msg, {"kind": "scripted", "case": c})
        m = eval_model([c], [r], "replay_C16")[0]
        im = canon_impl(r)
        if im != m:
            keys = [k for k in im if im[k] != m[k]]
            ctx.violation("corr:mcsolve.MCIntegrator", "model-differs:" + keys[0],
                          "MCIntegrator and the Coq model disagree on %s" % keys,
                          {"kind": "scripted", "case": c, "impl": {k: im[k] for k in keys},
                           "model": {k: m[k] for k in keys}})
    elif kind == "system":
        spec = spec_from_json(d["spec"])
        bad, st = check_run(spec)
        for sig, message, det in bad[:2]:
            site, sig = classify(spec, sig)
            ctx.violation(site, sig, message, {"kind": "system", "spec": d["spec"], "detail": det})
    elif kind == "mart":
        c = d["case"]
        r = run_mart_impl(c)
        v = vlib.coq_eval_values("replay_C16_nm", HEADER_NM, [coq_mart_expr(c, r)])[0]
        m, im = canon_mart_model(parse_val(v)), canon_mart_impl(r)
        if m != im:
            keys = [k for k in im if im[k] != m[k]]
            ctx.violation(payload["site"], "model-differs:" + keys[0],
                          "InfluenceMartingale and the Coq model disagree on %s" % keys,
                          {"kind": "mart", "case": c})
    elif kind == "nmint":
        c, m = d["case"], d["nmcase"]
        r = run_impl(c, m)
        v = vlib.coq_eval_values("replay_C16_nmint", HEADER_NMINT, [coq_nmint_expr(c, m, r)])[0]
        status, rets, cols, disc, raised, tr = parse_val(v)
        model = ([(fkey(t), fkey(f)) for t, f in disc], [None if x is None else fkey(x[1]) for x in tr])
        if raised or model != (r["nm"]["disc"], r["nm"]["trace"]):
            ctx.violation(payload["site"], payload["signature"],
                          "NmMCIntegrator/InfluenceMartingale and the Coq model disagree",
                          {"kind": "nmint", "case": c, "nmcase": m})
    elif kind == "dop853":
        views, zops = run_dop_impl(d["case"])
        for z, vw in zip(zops, views):
            if z[0] == "mc" and vw[2] and z[2] == 0 and (
                    vw[0] or abs(vw[1] - z[1]) > 4 * np.spacing(max(abs(z[1]), abs(z[5])))):
                ctx.violation(payload["site"], payload["signature"],
                              "mcstep(%r) returned %r (raised=%r)" % (z[1], vw[1], vw[0]), d)
                break
    elif kind == "zvode-search":
        import c11
        views, oracle, bad = c11.run_zvode_impl(dict(d["case"]))
        for b in bad:
            ctx.violation(payload["site"], b.split(":")[0], b, d)
    elif kind == "mix":
        c = d["case"]
        r = run_mix_impl(c)
        v = vlib.coq_eval_values("replay_C16_mix", HEADER_MIX, [coq_mix_expr(c)])[0]
        st, counts, idx = parse_val(v)
        model = (int(st), [int(x) for x in counts], [None if x is None else int(x[1]) for x in idx])
        if model != (r["status"], r["counts"], r["idx"]):
            ctx.violation(payload["site"], "model-differs",
                          "_InitialConditions and the Coq model disagree", {"kind": "mix", "case": c})
    elif kind == "nm":
        spec = spec_from_json(d["spec"])
        bad, st = check_nm(spec)
        for sig, message, det in bad[:2]:
            ctx.violation(payload["site"], sig, message, {"kind": "nm", "spec": d["spec"], "detail": det})
    elif kind == "nm-ensemble":
        explore_nm_ensemble(ctx, random.Random(payload.get("seed", 0)))
    elif kind == "mcstep":
        bad = check_mcstep(d["method"], d["t0"], random.Random(0))
        for sig, message, det in bad:
            ctx.violation(payload["site"], payload["signature"], message, d)
    elif kind == "witness-real":
        msg = witness_real_norm_steps()
        if msg is not None:
            ctx.violation(payload["site"], payload["signature"], msg, d)
    elif kind == "ensemble":
        explore_ensemble(ctx, random.Random(payload.get("seed", 0)))


# ===================================================================
# nm_mcsolve: influence martingale and trace weighting (implementation level)
# ===================================================================
class _Rate:
    """gamma(t) = c0 + c1*sin(w*t + ph); picklable, callable as a coefficient."""

    def __init__(self, c0, c1, w, ph):
        self.c0, self.c1, self.w, self.ph = c0, c1, w, ph

    def __call__(self, t):
        return self.c0 + self.c1 * math.sin(self.w * t + self.ph)


def gen_nm_system(rng):
    g = lambda lo, hi: dy(rng, lo, hi, 6)
    kind = rng.choice(["pm", "pauli", "incomplete"])
    H0 = 0.5 * g(0.5, 2.0) * SZ + g(0.0, 1.0) * SX
    if kind == "pm":
        ops = [SM.T.conj(), SM]
    elif kind == "pauli":
        ops = [SX, SY, SZ]
    else:
        ops = [SM.T.conj()]
    rates = []
    for k in range(len(ops)):
        if k == 0 and kind != "pauli":
            rates.append((g(0.5, 1.5), 0.0, 0.0, 0.0))
        else:
            rates.append((g(-0.1, 0.5), g(0.1, 0.6), g(0.5, 3.0), g(0.0, 3.0)))
    if kind == "incomplete":
        rates[0] = (g(0.2, 0.8), g(0.3, 1.0), g(1.0, 3.0), g(0.0, 3.0))
    v = np.array([complex(rng.randint(-3, 3), rng.randint(-3, 3)) for _ in range(2)])
    if np.linalg.norm(v) == 0:
        v[0] = 1.0
    nt = rng.randint(3, 6)
    T = g(1.5, 4.0)
    return {"kind": "nm_" + kind, "d": 2, "H0": H0, "ops": ops, "rates": rates,
            "psi0": v / np.linalg.norm(v), "tlist": [T * k / nt for k in range(nt + 1)],
            "method": rng.choice(["adams", "vern7", "dop853"]),
            "norm_tol": rng.choice([1e-4, 1e-6]), "norm_t_tol": rng.choice([1e-6, 1e-8]),
            "norm_steps": rng.choice([5, 8]), "ntraj": rng.randint(4, 7),
            "seed": rng.randrange(1 << 30)}


class NmRef(RefSystem):
    """reference for the jump process nm_mcsolve samples: collapse operators
    sqrt(gamma_k(t) + shift(t)) L_k with shift = 2|min(0, gamma_1, ...)|, the
    list completed by sqrt(a - sum L^dag L) (rate 0) when the L's are not
    complete."""

    def __init__(self, spec):
        self.spec = spec
        self.d = spec["d"]
        self.issuper = False
        self.extra = []
        self.Ls = [np.array(x, dtype=complex) for x in spec["ops"]]
        self.gam = [_Rate(*r) for r in spec["rates"]]
        op = sum(L.conj().T @ L for L in self.Ls)
        a_c = np.trace(op).real / self.d
        if np.allclose(op, a_c * np.eye(self.d), rtol=1e-5, atol=1e-8):
            self.a = float(a_c)
        else:
            ev, U = np.linalg.eigh(op)
            self.a = float(ev.max())
            M = self.a * np.eye(self.d) - op
            ev2, U2 = np.linalg.eigh(M)
            self.Ls.append(U2 @ np.diag(np.sqrt(np.clip(ev2, 0, None))) @ U2.conj().T)
            self.gam.append(_Rate(0.0, 0.0, 0.0, 0.0))
        self.nch = len(self.Ls)
        self.cs = self.Ls

    def shift(self, t):
        return 2 * abs(min([0.0] + [gm(t) for gm in self.gam]))

    def H(self, t):
        return self.spec["H0"]

    def cmat(self, k, t):
        return math.sqrt(max(self.gam[k](t) + self.shift(t), 0.0)) * self.Ls[k]

    def gnorm(self):
        G = -1j * self.H(0.0)
        return float(np.linalg.norm(G, 2)) + 0.5 * self.a * 4.0

    def martingale(self, t0, t, collapses):
        from scipy.integrate import quad
        val = 0.0
        if t > t0:
            # break the integral at every sign change of a rate (kinks of the
            # shift; a short negative excursion must not be stepped over)
            pts = set(np.linspace(t0, t, 33)[1:-1].tolist())
            for gm in self.gam:
                if gm.c1 != 0.0 and gm.w != 0.0 and abs(gm.c0 / gm.c1) <= 1.0:
                    th = math.asin(-gm.c0 / gm.c1)
                    for base in (th, math.pi - th):
                        k0 = int(math.floor((gm.w * t0 + gm.ph - base) / (2 * math.pi))) - 1
                        k1 = int(math.ceil((gm.w * t + gm.ph - base) / (2 * math.pi))) + 1
                        for k in range(k0, k1 + 1):
                            z = (base + 2 * math.pi * k - gm.ph) / gm.w
                            if t0 < z < t:
                                pts.add(z)
            grid = [t0] + sorted(pts) + [t]
            for a_, b_ in zip(grid, grid[1:]):
                v, _ = quad(self.shift, a_, b_, limit=200, epsabs=1e-13, epsrel=1e-12)
                val += v
        mu = math.exp(self.a * val)
        for (tc, k) in collapses:
            if t > tc:
                gk = self.gam[k](tc)
                mu *= gk / (gk + self.shift(tc))
        return mu


def run_nm(spec):
    import qutip
    from qutip.solver.nm_mcsolve import NonMarkovianMCSolver
    ops_and_rates = []
    for L, r in zip(spec["ops"], spec["rates"]):
        rate = r[0] if (r[1] == 0.0) else qutip.coefficient(_Rate(*r))
        ops_and_rates.append((qutip.Qobj(L), rate))
    opts = {"method": spec["method"], "norm_tol": spec["norm_tol"],
            "norm_t_tol": spec["norm_t_tol"], "norm_steps": spec["norm_steps"],
            "keep_runs_results": True, "store_states": True, "progress_bar": "", "map": "serial",
            # the shifted rates have kinks where a rate changes sign: keep the
            # ODE error well below the jump-search tolerances
            "atol": 1e-10, "rtol": 1e-8}
    solver = NonMarkovianMCSolver(qutip.Qobj(spec["H0"]), ops_and_rates, options=opts)
    e_ops = [qutip.sigmaz(), qutip.sigmax()]
    res = solver.run(qutip.Qobj(spec["psi0"].reshape(2, 1)), spec["tlist"], ntraj=spec["ntraj"],
                     seeds=spec["seed"], e_ops=e_ops)
    return res, solver


def check_nm(spec):
    """nm_mcsolve: (1) every trajectory is the jump process with the shifted
    rates; (2) its recorded martingale is exp(a*int shift) * prod gamma/(gamma+shift)
    over its recorded collapses; (3) averages are the martingale-weighted means."""
    ref = NmRef(spec)
    stats = {"traj": 0, "jumps": 0}
    bad = []
    try:
        res, solver = run_nm(spec)
    except Exception as e:      # noqa
        msg = "%s: %s" % (type(e).__name__, str(e)[:200])
        if isinstance(e, RuntimeError) and "collapse time" in str(e):
            stats["search_exhausted"] = 1
            return [], stats
        return [("nm-raised:" + type(e).__name__, msg, {"error": msg})], stats
    tl = list(spec["tlist"])
    opts = {"norm_tol": spec["norm_tol"], "norm_t_tol": spec["norm_t_tol"]}
    a_impl = float(solver._martingale._a_parameter) if hasattr(solver, "_martingale") else None
    if a_impl is not None and abs(a_impl - ref.a) > 1e-9:
        bad.append(("nm-completeness-constant", "a = %r, sum L^dag L gives %r" % (a_impl, ref.a), {}))
    tot = sum((L.dag() * L).full() for L in solver.ops)
    if a_impl is not None and np.max(np.abs(tot - a_impl * np.eye(ref.d))) > 1e-8:
        bad.append(("nm-family-not-complete", "after _check_completeness sum L^dag L = %s is not a*1 "
                    "with a = %r" % (np.round(tot, 6).tolist(), a_impl), {}))
        return bad, stats
    if len(solver.ops) != ref.nch:
        bad.append(("nm-completion-operator", "%d operators after completion, expected %d"
                    % (len(solver.ops), ref.nch), {}))
        return bad, stats
    trajs = list(res.trajectories)
    W = []
    for i, tr in enumerate(trajs):
        states = [s.full()[:, 0] for s in tr.states]
        b = check_trajectory(ref, spec["psi0"], tl, res.seeds[i], opts, 0.0, False, tr.collapse, states)
        bad += [("nm-" + s, m, d) for s, m, d in b]
        stats["traj"] += 1
        stats["jumps"] += len(tr.collapse)
        cols = [(float(t), int(k)) for t, k in tr.collapse]
        mu_ref = [ref.martingale(tl[0], t, cols) for t in tl]
        mu = [float(x) for x in tr.trace]
        W.append(mu)
        for j, (x, y) in enumerate(zip(mu, mu_ref)):
            # the implementation integrates the shift with scipy.quad at its
            # default tolerance over kinks: allow quadrature error, nothing more
            if abs(x - y) > 1e-5 * max(1.0, abs(y)):
                bad.append(("nm-martingale-value",
                            "trajectory %d, t=%r: recorded martingale %.12g, exp(a*int shift)*prod "
                            "gamma/(gamma+shift) over its %d collapses gives %.12g"
                            % (i, tl[j], x, len([c for c in cols if c[0] < tl[j]]), y),
                            {"traj": i, "t": tl[j], "got": x, "expected": y, "collapses": cols}))
                break
    if bad:
        return bad, stats
    W = np.array(W)
    N = len(trajs)
    # trace weighting of the averages (C15's formula with weights mu_i(t))
    avg_tr = np.asarray(res.average_trace, dtype=float)
    if np.max(np.abs(avg_tr - W.mean(axis=0))) > 1e-10:
        bad.append(("nm-average-trace", "average_trace is not the mean of the martingales", {}))
    for k in range(2):
        want = np.mean([W[i] * np.asarray(trajs[i].expect[k]) for i in range(N)], axis=0)
        got = np.asarray(res.average_expect[k])
        if np.max(np.abs(got - want)) > 1e-10:
            bad.append(("nm-average-expect", "average_expect[%d] is not mean(martingale * expect): "
                        "max deviation %.3g" % (k, float(np.max(np.abs(got - want)))), {}))
    for j in range(len(tl)):
        want = sum(W[i][j] * np.outer(trajs[i].states[j].full()[:, 0],
                                      trajs[i].states[j].full()[:, 0].conj()) for i in range(N)) / N
        got = res.average_states[j].full()
        if np.max(np.abs(got - want)) > 1e-10:
            bad.append(("nm-average-states", "average_states[%d] is not mean(martingale * |psi><psi|): "
                        "max deviation %.3g" % (j, float(np.max(np.abs(got - want)))), {}))
            break
    return bad, stats


def nm_spec_to_json(spec):
    return spec_to_json(spec)


def explore_nm_ensemble(ctx, rng):
    """exploration: martingale-weighted ensemble mean vs the master equation
    with (temporarily negative) rates, within 5 standard errors."""
    import qutip
    from qutip.solver.nm_mcsolve import NonMarkovianMCSolver
    H = 0.5 * qutip.sigmaz() + 0.4 * qutip.sigmax()
    r2 = _Rate(0.1, 0.4, 2.0, 0.5)
    ops = [(qutip.sigmam(), 1.0), (qutip.sigmap(), qutip.coefficient(r2))]
    tl = np.linspace(0, 2.5, 6)
    e = [qutip.sigmaz(), qutip.sigmax()]
    nt = 300 if ctx.quick else 3000
    try:
        s = NonMarkovianMCSolver(H, ops, options={"progress_bar": "", "keep_runs_results": True,
                                                  "method": "vern7", "norm_steps": 20,
                                                  "atol": 1e-10, "rtol": 1e-8})
        res = s.run(qutip.basis(2, 0), tl, ntraj=nt, seeds=rng.randrange(1 << 30), e_ops=e)
        L = qutip.QobjEvo([qutip.liouvillian(H, [qutip.sigmam()]),
                           [qutip.lindblad_dissipator(qutip.sigmap()), qutip.coefficient(r2)]])
        me = qutip.mesolve(L, qutip.basis(2, 0), tl, e_ops=e)
    except RuntimeError as ex:
        if "collapse time" in str(ex):
            ctx.notes.append("exploration: nm_mcsolve ensemble not evaluated (collapse-time search "
                             "exhausted norm_steps on one trajectory) [NUM]")
            return
        raise
    except Exception as ex:      # noqa
        ctx.violation("nm_mcsolve:ensemble-vs-mesolve", "raised:" + type(ex).__name__,
                      "exploration: nm_mcsolve raised %s: %s" % (type(ex).__name__, str(ex)[:120]),
                      {"kind": "nm-ensemble"})
        return
    worst = 0.0
    for k in range(2):
        vals = np.array([np.asarray(tr.trace, dtype=float) * np.asarray(tr.expect[k]).real
                         for tr in res.trajectories])
        se = np.maximum(vals.std(axis=0) / math.sqrt(nt), 1e-3)
        worst = max(worst, float(np.max(np.abs(vals.mean(axis=0) - np.asarray(me.expect[k])) / se)))
    ctx.count_case(("nm-ensemble",), nontrivial=False)
    ctx.notes.append("exploration: nm_mcsolve ensemble (ntraj=%d, negative rate phases) vs mesolve: "
                     "worst deviation %.2f standard errors" % (nt, worst))
    if worst > 5.0:
        ctx.violation("nm_mcsolve:ensemble-vs-mesolve", "mean-off-by-more-than-5-sigma",
                      "exploration: martingale-weighted ensemble average deviates from mesolve by "
                      "%.1f standard errors" % worst, {"kind": "nm-ensemble", "worst_sigma": worst})


# ===================================================================
# InfluenceMartingale: exact correspondence with Model/C16_nm.v
# ===================================================================
HEADER_NM = ("From Coq Require Import List Bool Arith ZArith Floats.\n"
             "Import ListNotations.\nFrom QV Require Import Model.C16 Model.C16_nm.\n"
             "Local Open Scope nat_scope.\n")


def gen_mart_case(rng):
    times = [k / 8 for k in range(0, 33)]
    a = rng.choice([1.0, 0.5, 2.0, 3.0, 1.25])
    c = rng.choice([0.0, 0.25, 0.5, 1.0])            # scripted integral = c*(t2-t1) + d*(t2^2-t1^2)
    d = rng.choice([0.0, 0.125])
    nch = rng.randint(1, 3)
    rates = [rng.choice([0.75, 1.0, -0.25, 0.5, 2.0]) for _ in range(nch)]
    sh = rng.choice([0.0, 0.5, 1.0, 0.25])
    ops = []
    started = rng.random() < 0.85
    if started:
        ops.append(("init", rng.choice(times[:8]), rng.choice(["clear", "keep", "times", "times"]),
                    sorted(rng.sample(times, rng.randint(0, 6)))))
    for _ in range(rng.randint(2, 14)):
        x = rng.random()
        if x < 0.5:
            ops.append(("value", rng.choice(times)))
        elif x < 0.8:
            ops.append(("collapse", rng.choice(times), rng.randrange(nch)))
        elif x < 0.92:
            ops.append(("init", rng.choice(times[:8]), rng.choice(["clear", "keep", "times"]),
                        sorted(rng.sample(times, rng.randint(0, 6)))))
        else:
            ops.append(("reset",))
    return {"a": a, "c": c, "d": d, "rates": rates, "shift": sh, "ops": ops}


def run_mart_impl(case):
    """the real InfluenceMartingale around a scripted solver, scripted
    quadrature and a recording exp."""
    import qutip                       # noqa
    nm = sys.modules["qutip.solver.nm_mcsolve"]
    tabs = {"integ": {}, "exp": {}, "rate": {}, "shift": {}}
    real_np, real_sp = nm.np, nm.scipy
    nm.np, nm.scipy = _mart_proxies(case, tabs, real_np)
    outs = []
    try:
        im = nm.InfluenceMartingale(_MartSolver(case, tabs), case["a"], 100)
        np.seterr(all="ignore")
        for op in case["ops"]:
            try:
                if op[0] == "reset":
                    im.reset()
                elif op[0] == "init":
                    cache = op[2] if op[2] in ("clear", "keep") else list(op[3])
                    im.initialize(op[1], cache=cache)
                elif op[0] == "collapse":
                    im.add_collapse(op[1], op[2])
                else:
                    outs.append(float(im.value(op[1])))
            except RuntimeError:
                outs.append(None)
        st = {"t_prev": im._t_prev,
              "cm_prev": None if im._t_prev is None else float(im._continuous_martingale_at_t_prev),
              "cache": {fkey(k): fkey(v) for k, v in im._precomputed_continuous_martingale.items()},
              "disc": None if im._discrete_martingale is None else
              [(fkey(t), fkey(f)) for t, f in im._discrete_martingale]}
    finally:
        nm.np, nm.scipy = real_np, real_sp
    return {"outs": [None if x is None else fkey(x) for x in outs], "state": st, "tabs": tabs}


def coq_mart_expr(case, r):
    def ent(k, v):
        return "((%s, %s, %s, %s), %s)" % (cnat(k[0]), cf(k[1]), cf(k[2]), cnat(k[3]), cf(v))
    t = r["tabs"]
    ti = [ent((0, a, b, 0), v) for (a, b), v in t["integ"].items()]
    te = [ent((0, x, 0.0, 0), v) for x, v in t["exp"].items()]
    tr = [ent((0, tt, 0.0, i), v) for (tt, i), v in t["rate"].items()]
    ts = [ent((0, tt, 0.0, 0), v) for tt, v in t["shift"].items()]
    ops = []
    for op in case["ops"]:
        if op[0] == "reset":
            ops.append("OReset FN")
        elif op[0] == "init":
            c = {"clear": "(Clear FN)", "keep": "(Keep FN)"}.get(op[2]) or \
                "(Times FN %s)" % clist(op[3], cf)
            ops.append("OInit FN %s %s" % (cf(op[1]), c))
        elif op[0] == "collapse":
            ops.append("OCollapse FN %s %s" % (cf(op[1]), cnat(op[2])))
        else:
            ops.append("OValue FN %s" % cf(op[1]))
    return "f_mart_run %s %s %s %s %s %s" % (cf(case["a"]), clist(ti), clist(te), clist(tr),
                                             clist(ts), clist(ops))


def canon_mart_model(v):
    outs, tprev, cm, cache, disc = v
    started = tprev is not None
    d = {}
    for k, x in cache:
        d[fkey(k)] = fkey(x)
    return {"outs": [None if o is None else fkey(o[1]) for o in outs],
            "started": started,
            "t_prev": fkey(tprev[1]) if started else None,
            "cm_prev": fkey(cm) if started else None,
            "cache": d,
            "disc": [(fkey(t), fkey(f)) for t, f in disc] if started else None}


def canon_mart_impl(r):
    st = r["state"]
    started = st["t_prev"] is not None
    return {"outs": r["outs"], "started": started,
            "t_prev": fkey(st["t_prev"]) if started else None,
            "cm_prev": fkey(st["cm_prev"]) if started else None,
            "cache": st["cache"], "disc": st["disc"] if started else None}


def compare_martingale(ctx, n, rng):
    cases = [gen_mart_case(rng) for _ in range(n)]
    impls = [run_mart_impl(c) for c in cases]
    try:
        vals = vlib.coq_eval_values("cases_C16_nm", HEADER_NM,
                                    [coq_mart_expr(c, r) for c, r in zip(cases, impls)], chunk=100)
        models = [canon_mart_model(parse_val(v)) for v in vals]
    except (RuntimeError, AssertionError, ValueError) as e:
        ctx.violation("corr:C16:nm-model-eval", "coqc", "martingale model evaluation failed",
                      {"log": str(e)[-2000:]}, found_input=False)
        return
    mism = 0
    for c, r, m in zip(cases, impls, models):
        im = canon_mart_impl(r)
        ctx.cov["traces_validated_against_impl"] += 1
        ctx.count_case(("mart", json.dumps(c, sort_keys=True)),
                       nontrivial=sum(1 for o in c["ops"] if o[0] == "value") > 0)
        if im != m:
            mism += 1
            if mism <= 3:
                keys = [k for k in im if im[k] != m[k]]
                ctx.violation("corr:nm_mcsolve.InfluenceMartingale", "model-differs:" + keys[0],
                              "InfluenceMartingale and the Coq model disagree on %s" % keys,
                              {"kind": "mart", "case": c, "impl": {k: im[k] for k in keys},
                               "model": {k: m[k] for k in keys}})
    ctx.sample({"martingale_case": cases[-1], "impl_outs": impls[-1]["outs"]})


# ===================================================================
# _InitialConditions: exact correspondence with Model/C16_mix.v
# ===================================================================
HEADER_MIX = ("From Coq Require Import List Bool Arith ZArith QArith.\n"
              "Import ListNotations.\nFrom QV Require Import Model.C16_mix.\n"
              "Local Open Scope nat_scope.\n")


def gen_mix_case(rng):
    k = rng.randint(1, 6)
    den = 64
    if rng.random() < 0.75:
        # weights k_i/64 with sum 1
        cuts = sorted(rng.sample(range(1, den), k - 1)) if k > 1 else []
        parts = [b - a for a, b in zip([0] + cuts, cuts + [den])]
        if rng.random() < 0.2 and k > 1:
            j = rng.randrange(k)                       # a zero weight
            parts[(j + 1) % k] += parts[j]
            parts[j] = 0
    else:
        parts = [rng.randint(0, 40) for _ in range(k)]  # malformed: any sum
    if rng.random() < 0.7:
        ntraj = rng.choice([1, 2, 3, 5, 7, 10, 16, 33, 64, 100, 129])
    else:
        ntraj = [rng.randint(0 if rng.random() < 0.2 else 1, 9)
                 for _ in range(k if rng.random() < 0.85 else k + 1)]
    tot = ntraj if isinstance(ntraj, int) else sum(ntraj)
    ids = sorted(set([0, max(tot - 1, 0), tot, tot + 1] + [rng.randrange(0, tot + 2) for _ in range(6)]))
    return {"parts": parts, "den": den, "ntraj": ntraj, "ids": ids}


def run_mix_impl(case):
    from qutip.solver.multitraj import _InitialConditions
    ws = [p / case["den"] for p in case["parts"]]
    try:
        ic = _InitialConditions([(None, w) for w in ws], case["ntraj"])
    except ValueError:
        return {"status": 1, "counts": [], "idx": [], "corr": []}
    except IndexError:
        return {"status": 2, "counts": [], "idx": [], "corr": []}
    idx = []
    corr = []
    for i in case["ids"]:
        try:
            k = int(ic.get_state_index(i))
            idx.append(k)
            corr.append(float(ic.get_state_and_weight(i)[1]))
        except IndexError:
            idx.append(None)
            corr.append(None)
    return {"status": 0, "counts": [int(x) for x in ic.ntraj], "idx": idx, "corr": corr,
            "total": int(ic.ntraj_total)}


def coq_mix_expr(case):
    ws = clist(case["parts"], lambda p: "(%d # %d)%%Q" % (p, case["den"]))
    nt = ("(inl %s)" % cnat(case["ntraj"]) if isinstance(case["ntraj"], int)
          else "(inr %s)" % clist(case["ntraj"], cnat))
    return "mix_observe %s %s %s" % (ws, nt, clist(case["ids"], cnat))


def compare_mixed(ctx, n, rng):
    cases = [gen_mix_case(rng) for _ in range(n)]
    impls = [run_mix_impl(c) for c in cases]
    try:
        vals = vlib.coq_eval_values("cases_C16_mix", HEADER_MIX, [coq_mix_expr(c) for c in cases],
                                    chunk=150)
    except RuntimeError as e:
        ctx.violation("corr:C16:mix-model-eval", "coqc", "mixed-state model evaluation failed",
                      {"log": str(e)[-2000:]}, found_input=False)
        return
    mism = 0
    for c, r, v in zip(cases, impls, vals):
        st, counts, idx = parse_val(v)
        model = (int(st), [int(x) for x in counts],
                 [None if x is None else int(x[1]) for x in idx])
        impl = (r["status"], r["counts"], r["idx"])
        ctx.cov["traces_validated_against_impl"] += 1
        ctx.count_case(("mix", json.dumps(c, sort_keys=True)), nontrivial=len(c["parts"]) > 1)
        bad = []
        if r["status"] == 0:
            # the property itself on the implementation's answer
            ws = [p / c["den"] for p in c["parts"]]
            N = r["total"]
            if isinstance(c["ntraj"], int) and sum(r["counts"]) != c["ntraj"] and sum(c["parts"]) == c["den"]:
                bad.append(("counts-do-not-sum-to-ntraj", "trajectory numbers %r do not sum to ntraj=%r"
                            % (r["counts"], c["ntraj"])))
            seen = {}
            for i, k, cw in zip(c["ids"], r["idx"], r["corr"]):
                if k is not None:
                    seen[k] = cw
            tw = sum(r["counts"][k] * cw / N for k, cw in seen.items())
            if len(seen) == len(ws) and abs(tw - sum(ws)) > 1e-12:
                bad.append(("weights-do-not-sum", "weights of the trajectories sum to %r, the mixture "
                            "weights to %r" % (tw, sum(ws))))
        for sig, b in bad:
            ctx.violation("multitraj._InitialConditions", sig, b, {"kind": "mix", "case": c})
        if model != impl:
            mism += 1
            if mism <= 3:
                ctx.violation("corr:multitraj._InitialConditions", "model-differs",
                              "_InitialConditions and the Coq model disagree",
                              {"kind": "mix", "case": c, "impl": impl, "model": model})
    ctx.sample({"mixed_case": cases[-1], "impl": impls[-1]})


# ===================================================================
# NmMCIntegrator + InfluenceMartingale composed: correspondence with
# Model/C16_nmint.v
# ===================================================================
HEADER_NMINT = ("From Coq Require Import List Bool Arith ZArith Floats.\n"
                "Import ListNotations.\nFrom QV Require Import Model.C16 Model.C16_nm Model.C16_nmint.\n"
                "Local Open Scope nat_scope.\n")


def coq_nmint_expr(case, nmc, r):
    def ent(k, v):
        return "((%s, %s, %s, %s), %s)" % (cnat(k[0]), cf(k[1]), cf(k[2]), cnat(k[3]), cf(v))
    o = case["opts"]
    t = r["nm"]["tabs"]
    ti = [ent((0, a, b, 0), v) for (a, b), v in t["integ"].items()]
    te = [ent((0, x, 0.0, 0), v) for x, v in t["exp"].items()]
    tr = [ent((0, tt, 0.0, i), v) for (tt, i), v in t["rate"].items()]
    ts = [ent((0, tt, 0.0, 0), v) for tt, v in t["shift"].items()]
    return ("f_nm_observe (mkOpts FN %s %s %s %s) %s %s %s %s %s %s %s %s %s %s %s %s" % (
        cnat(o["norm_steps"]), cf(o["norm_t_tol"]), cf(o["norm_tol"]), cf(o["mc_corr_eps"]),
        coq_tabs(r["tabs"], case["rnd"]), cnat(len(case["chan"])), cnat(case.get("fuel", 400)),
        cf(case["tlist"][0]), clist(case["tlist"][1:], cf), cbool(case["no_jump"]), cf(case["floor"]),
        cf(nmc["a"]), clist(ti), clist(te), clist(tr), clist(ts)))


def compare_nmint(ctx, n, rng):
    cases = []
    while len(cases) < n:
        c = gen_case(rng, malformed=False)
        c["opts"]["norm_steps"] = max(c["opts"]["norm_steps"], 5)
        if len(cases) % 2 == 1:
            # a channel whose image is below mc_corr_eps but is chosen often:
            # collapse attempts that are discarded, between recorded ones
            c["opts"]["mc_corr_eps"] = 0.125
            c["chan"] = [{"r": 1.0, "s": 0.125, "imag": False},
                         {"r": 1.0, "s": 1.0, "imag": False}] + c["chan"][:1]
            c["segs"] = [dict(sg, gamma=max(sg["gamma"], 3.0)) for sg in c["segs"]]
        cases.append((c, gen_mart_case(rng)))
    impls = [run_impl(c, m) for c, m in cases]
    try:
        vals = vlib.coq_eval_values("cases_C16_nmint", HEADER_NMINT,
                                    [coq_nmint_expr(c, m, r) for (c, m), r in zip(cases, impls)],
                                    chunk=40)
    except RuntimeError as e:
        ctx.violation("corr:C16:nmint-model-eval", "coqc", "NmMCIntegrator model evaluation failed",
                      {"log": str(e)[-2000:]}, found_input=False)
        return
    mism = 0
    for (c, m), r, v in zip(cases, impls, vals):
        status, rets, cols, disc, raised, tr = parse_val(v)
        model = {"status": int(status), "rets": [fkey(x) for x in rets],
                 "cols": [(fkey(t), int(k)) for t, k in cols],
                 "disc": [(fkey(t), fkey(f)) for t, f in disc],
                 "trace": [None if x is None else fkey(x[1]) for x in tr]}
        impl = {"status": r["status"], "rets": [fkey(x) for x in r["rets"]],
                "cols": [(fkey(t), k) for t, k in r["cols"]],
                "disc": r["nm"]["disc"], "trace": r["nm"]["trace"]}
        ctx.cov["traces_validated_against_impl"] += 1
        ctx.count_case(("nmint", json.dumps([c, m], sort_keys=True)), nontrivial=len(r["cols"]) > 0)
        # the property on the implementation's own record: one martingale
        # factor per recorded collapse, in order, at the collapse times
        if [t for t, _ in impl["disc"]] != [t for t, _ in impl["cols"]]:
            ctx.violation("nm_mcsolve.NmMCIntegrator._do_collapse", "martingale-record-out-of-sync",
                          "the martingale recorded collapses at %r, the trajectory at %r"
                          % (impl["disc"], impl["cols"]), {"kind": "nmint", "case": c, "nmcase": m})
        if raised or model != impl:
            mism += 1
            if mism <= 3:
                keys = [k for k in impl if impl[k] != model[k]] or ["raised"]
                ctx.violation("corr:nm_mcsolve.NmMCIntegrator", "model-differs:" + keys[0],
                              "NmMCIntegrator/InfluenceMartingale and the Coq model disagree on %s" % keys,
                              {"kind": "nmint", "case": c, "nmcase": m,
                               "impl": {k: impl[k] for k in keys if k in impl},
                               "model": {k: model[k] for k in keys if k in model}})
    ctx.sample({"nmint_case": [cases[-1][0]["opts"], cases[-1][1]["rates"]],
                "collapses": impls[-1]["cols"][:4], "trace": impls[-1]["nm"]["trace"]})


# ===================================================================
# the search pattern on the real zvode integrators vs Model/C11_zvode.v
# (the model the mcstep-contract theorems of Props/C16_mcstep.v are about)
# ===================================================================
def gen_zvode_search_case(rng):
    ops = [["set", rng.randint(-8, 24) / 8.0]]
    for _ in range(rng.randint(1, 4)):
        ops.append(["rel", "beyond", rng.choice([0.02, 0.25, 1.0, 3.0])])
        for _ in range(rng.randint(0, 6)):
            ops.append(["rel", "in", rng.choice([0.125, 0.25, 0.5, 0.75, 0.875, 1.0])])
        if rng.random() < 0.4:
            ops.append(["rel", "same", 0])
        if rng.random() < 0.6:
            ops.append(["rel", "in", rng.choice([0.25, 0.5, 0.75])])
            # restart where the integrator stands (as after a collapse)
            ops.append(["set_here"])
        else:
            ops.append(["rel", "front", 0])
    return {"method": rng.choice(["adams", "bdf"]), "ops": ops}


def compare_zvode_pattern(ctx, n, rng):
    from fractions import Fraction
    import c11
    cases, runs, exprs, scs = [], [], [], []
    for _ in range(n):
        c = gen_zvode_search_case(rng)
        # resolve "set_here" lazily: run_zvode_impl only knows set/mc/rel, so
        # replace it by a relative request followed by a set at that time
        ops = []
        for op in c["ops"]:
            if op[0] == "set_here":
                ops.append(["rel", "same", 0])
                ops.append(["set_same"])
            else:
                ops.append(op)
        # two passes: the first finds the times, the second replays them
        probe = {"method": c["method"], "ops": [o for o in ops if o[0] != "set_same"]}
        views, _, _ = c11.run_zvode_impl(probe)
        probe.pop("_model_t", None)
        concrete, vi = [], 0
        for op in ops:
            if op[0] == "set_same":
                concrete.append(["set", float(views[vi - 1][1])])
            else:
                concrete.append(list(probe["ops"][vi]))
                vi += 1
        case = {"method": c["method"], "ops": concrete}
        views, oracle, bad = c11.run_zvode_impl(case)
        mts = case.pop("_model_t")
        vals_ = [op[1] for op in case["ops"]] + list(oracle) + list(mts)
        for v in views:
            vals_ += [v[1], v[3], v[4], v[5]]
        den = 1
        for x in vals_:
            den = max(den, Fraction(float(x)).denominator)
        sc = (lambda d: (lambda x: int(Fraction(float(x)) * d)))(den)
        zops = ["ZSet %s" % vlib.cz(sc(op[1])) if op[0] == "set"
                else "ZMc %s %s" % (vlib.cz(sc(mt)), vlib.cz(sc(o)))
                for op, o, mt in zip(case["ops"], oracle, mts)]
        exprs.append("z_trace z_new %s" % clist(zops))
        cases.append(case)
        runs.append((views, bad))
        scs.append(sc)
    try:
        vals = vlib.coq_eval_values("cases_C16_zv", c11.ZV_HEADER, exprs, chunk=100)
    except RuntimeError as e:
        ctx.violation("corr:C16:zvode-model-eval", "coqc", "zvode window model evaluation failed",
                      {"log": str(e)[-2000:]}, found_input=False)
        return
    for c, (views, bad), sc, v in zip(cases, runs, scs, vals):
        model = [(x[0], x[1], x[2][0], x[2][1], x[2][2], x[2][3]) for x in vlib.parse_coq_value(v)]
        im = [(a, sc(b), d, sc(e), sc(f), sc(g)) for a, b, d, e, f, g in views]
        ctx.count_case(("zvode-search", json.dumps(c)), nontrivial=len(c["ops"]) >= 4)
        ctx.cov["traces_validated_against_impl"] += 1
        if bad:
            ctx.violation("integrator.mcstep:" + c["method"], bad[0].split(":")[0], bad[0],
                          {"kind": "zvode-search", "case": c})
        # the contract itself on the real integrator: a request inside the
        # window is answered at exactly that time, without error
        for op, vw, prev in zip(c["ops"][1:], views[1:], views[:-1]):
            if op[0] == "mc" and prev[2] and prev[3] <= op[1] <= prev[4] and (vw[0] or vw[1] != op[1]):
                if abs(vw[1] - op[1]) > 256 * np.spacing(abs(op[1])) or vw[0]:
                    ctx.violation("integrator.mcstep:" + c["method"], "window-request-not-exact",
                                  "mcstep(%r) inside the window [%r, %r] returned %r (raised=%r)"
                                  % (op[1], prev[3], prev[4], vw[1], vw[0]),
                                  {"kind": "zvode-search", "case": c})
                    break
        if im != model:
            ctx.violation("corr:scipy_integrator.IntegratorScipyAdams", "model-differs",
                          "IntegratorScipyAdams/BDF and the window model disagree on a search-pattern history",
                          {"kind": "zvode-search", "case": c}, found_input=bool(bad))
    ctx.sample({"zvode_search_case": cases[-1]})


# ===================================================================
# IntegratorScipyDop853.mcstep: exact correspondence with Model/C16_dop.v
# ===================================================================
HEADER_DOP = ("From Coq Require Import List ZArith Bool.\nImport ListNotations.\n"
              "From QV Require Import Model.C16_dop.\nOpen Scope Z_scope.\n")


def gen_dop_case(rng):
    ops = []
    ops.append(["set", rng.choice([0.0, 0.0, 1.0, -0.5, 1 / 3, 2.5])])
    for _ in range(rng.randint(1, 4)):
        ops.append(["fwd", rng.choice([1 / 3, 0.25, 1.0, 0.385416666, 0.1, 2.0])])
        for _ in range(rng.randint(0, 5)):
            ops.append(["in", rng.choice([0.125, 0.25, 0.5, 0.75, 0.875, 1.0, 1 / 3])])
        if rng.random() < 0.5:
            ops.append(["same"])
        if rng.random() < 0.6:
            ops.append(["set_here"])
    return {"ops": ops}


def run_dop_impl(case):
    """a real IntegratorScipyDop853 (real SciPy dop853) driven like
    MCIntegrator drives it; records work[6] and the time scipy reports."""
    import qutip
    from qutip.solver.integrator.integrator import IntegratorException
    H = qutip.Qobj(0.5 * SZ + 0.75 * SX)
    I = qutip.SESolver(H, options={"method": "dop853"})._integrator
    y0 = qutip.basis(2, 0).data
    raw = {}
    real_integrate = I._ode_solver.integrate

    def integrate(t, *a, **k):
        out = real_integrate(t, *a, **k)
        raw["r"] = float(I._ode_solver.t)
        return out
    I._ode_solver.integrate = integrate
    views, zops = [], []
    errs = case.setdefault("_errs", [])
    del errs[:]
    lo = hi = None            # the last forward step (t_old, t_step]
    for op in case["ops"]:
        cur = float(I._ode_solver.t)
        raised = False
        if op[0] in ("set", "set_here"):
            t = cur if op[0] == "set_here" else float(op[1])
            I.set_state(t, y0)
            lo = hi = t
            zops.append(("set", t))
            views.append((False, t, bool(I._is_set), float(I._ode_solver.t)))
            continue
        if op[0] == "mc_abs":
            t = float(op[1])
        elif op[0] == "fwd":
            t = (hi if hi is not None else cur) + float(op[1])
        elif op[0] == "in":
            t = lo + float(op[1]) * (hi - lo) if hi is not None else cur
        else:
            t = cur
        # requests within rounding distance of the current time are outside
        # the search pattern (norm_t_tol is far above an ulp): ask for the
        # current time itself
        if t != cur and abs(t - cur) <= 64 * np.spacing(max(abs(t), abs(cur), 1e-300)):
            t = cur
        dt = float(I._ode_solver._integrator.work[6])
        raw.pop("r", None)
        try:
            tout, _y = I.mcstep(t)
            tout = float(tout)
        except Exception as e:      # noqa  (IntegratorException, or whatever a broken mcstep raises)
            raised = True
            tout = float(I._ode_solver.t)
            errs.append("%s: %s" % (type(e).__name__, str(e)[:80]))
        target = t if (dt == 0 or not cur <= t) else min(cur + dt, t)
        r = raw.get("r", cur)
        near = bool(0 < target - r <= 2 * np.spacing(abs(target)))
        if op[0] == "fwd" and not raised:
            lo, hi = cur, tout
        zops.append(("mc", t, dt, r, near, cur))
        views.append((raised, tout, bool(I._is_set), float(I._ode_solver.t)))
    return views, zops


def compare_dop853(ctx, n, rng):
    from fractions import Fraction
    cases, exprs, runs, scs = [], [], [], []
    for _ in range(n):
        c = gen_dop_case(rng)
        views, zops = run_dop_impl(c)
        vals_ = []
        for z in zops:
            vals_ += list(z[1:4]) if z[0] == "mc" else [z[1]]
        for v in views:
            vals_ += [v[1], v[3]]
        den = 1
        for x in vals_:
            den = max(den, Fraction(float(x)).denominator)
        sc = (lambda d: (lambda x: int(Fraction(float(x)) * d)))(den)
        ops = ["DSet %s" % vlib.cz(sc(z[1])) if z[0] == "set"
               else "DMc %s %s %s %s" % (vlib.cz(sc(z[1])), vlib.cz(sc(z[2])), vlib.cz(sc(z[3])), cbool(z[4]))
               for z in zops]
        exprs.append("d_trace d_new %s" % clist(ops))
        cases.append(c)
        runs.append((views, zops))
        scs.append(sc)
    try:
        vals = vlib.coq_eval_values("cases_C16_dop", HEADER_DOP, exprs, chunk=100)
    except RuntimeError as e:
        ctx.violation("corr:C16:dop-model-eval", "coqc", "dop853 model evaluation failed",
                      {"log": str(e)[-2000:]}, found_input=False)
        return
    nz_dt = 0
    off_contract = 0
    for c, (views, zops), sc, v in zip(cases, runs, scs, vals):
        model = [(x[0], x[1], x[2][0], x[2][1]) for x in vlib.parse_coq_value(v)]
        im = [(a, sc(b), d, sc(e)) for a, b, d, e in views]
        ctx.count_case(("dop853", json.dumps(c)), nontrivial=len(c["ops"]) >= 4)
        ctx.cov["traces_validated_against_impl"] += 1
        nz_dt += sum(1 for z in zops if z[0] == "mc" and z[2] != 0)
        # scipy's contract, and the property: once set, every request is
        # answered at exactly the requested time
        for z, vw in zip(zops, views):
            fwd = z[0] == "mc" and z[5] <= z[1]
            if fwd and z[2] == 0 and z[3] != z[1] and not z[4]:
                off_contract += 1      # scipy neither exact nor short-by-rounding (overshoot by an ulp)
            if z[0] == "mc" and vw[2] and z[2] == 0 and (
                    vw[0] or abs(vw[1] - z[1]) > 4 * np.spacing(max(abs(z[1]), abs(z[5])))):
                errs = c.pop("_errs", [])
                ctx.violation("integrator.mcstep:dop853",
                              "request-raises" if vw[0] else "request-not-answered-exactly",
                              "mcstep(%r) from t=%r returned %r (raised=%r %s) with work[6] = 0"
                              % (z[1], z[5], vw[1], vw[0], errs[:1]),
                              {"kind": "dop853", "case": c})
                break
        c.pop("_errs", None)
        if im != model:
            ctx.violation("corr:scipy_integrator.IntegratorScipyDop853", "model-differs",
                          "IntegratorScipyDop853 and its model disagree on a call history",
                          {"kind": "dop853", "case": c, "impl": [list(map(str, x)) for x in im][:6],
                           "model": [list(map(str, x)) for x in model][:6]})
    ctx.cov["dop853_nonzero_work6_calls"] = nz_dt
    ctx.cov["dop853_forward_calls_outside_oracle_contract"] = off_contract
    ctx.sample({"dop853_case": cases[-1]})
