"""Translator for C17: reads Taylor15.step and Taylor15_imp.step from
qutip/solver/sode/_sode.pyx of the tree under test and writes their update
statements as Coq values (coq/Gen/C17_taylor15.v, type Model.C17_o15.prog).

Supported subset (anything else raises - fail closed):
  cdef declarations and decorators are dropped; the method must consist of
  set_state / num_ops / dw / dz bindings (dz pinned to
  0.5 * (dW[0, :] + dW[1, :] / np.sqrt(3)) * dt), imul_dense(<out>, 0.),
  iadd_dense(<out>, <term>, <coefficient>) statements inside the loop skeleton
  i / j in range(i+1, n) / k in range(j+1, n), and (Taylor15_imp only) the
  final linear solve, which is outside the model.
"""
import ast
import os
import re
import sys

sys.path.insert(0, os.path.join(os.path.dirname(os.path.abspath(__file__)), "..", "lib"))
import vlib

SRC = "qutip/solver/sode/_sode.pyx"
TERMS = {"a": ("Sa", 0), "L0a": ("SL0a", 0), "bi": ("Sb", 1), "Lia": ("SLa", 1),
         "L0bi": ("SL0b", 1), "Libj": ("SLb", 2), "LiLjbk": ("SLLb", 3)}
IX = {"i": "I0", "j": "I1", "k": "I2"}
DZ = "0.5 * (dW[0, :] + dW[1, :] / np.sqrt(3)) * dt"


class Unsupported(Exception):
    pass


def method_source(text, cls):
    m = re.search(r"^cdef class %s\b.*?$" % re.escape(cls), text, flags=re.M)
    if not m:
        raise Unsupported("class %s not found" % cls)
    rest = text[m.end():]
    nxt = re.search(r"^cdef class ", rest, flags=re.M)
    body = rest[:nxt.start()] if nxt else rest
    m2 = re.search(r"^    cdef Data step\(self,[^\n]*\):\n", body, flags=re.M)
    if not m2:
        raise Unsupported("%s.step not found" % cls)
    lines = []
    for ln in body[m2.end():].split("\n"):
        if ln.strip() and not ln.startswith("        "):
            break
        lines.append(ln[4:] if ln.startswith("    ") else ln)
    out = ["def step(self, t, state, dt, dW, out, target=None):"]
    for ln in lines:
        if re.match(r"\s*cdef\s", ln):
            # `cdef T x = expr` keeps no information we use
            continue
        out.append(ln)
    return "\n".join(out) + "\n"


def cx(node):
    if isinstance(node, ast.Name) and node.id == "dt":
        return "Xdt"
    if isinstance(node, ast.Subscript) and isinstance(node.value, ast.Name) \
            and node.value.id in ("dw", "dz") and isinstance(node.slice, ast.Name) \
            and node.slice.id in IX:
        return "(%s %s)" % ("Xdw" if node.value.id == "dw" else "Xdz", IX[node.slice.id])
    if isinstance(node, ast.Constant):
        if node.value == 0.5:
            return "Xhalf"
        if node.value == 1:
            return "Xone"
    if isinstance(node, ast.BinOp):
        if isinstance(node.op, ast.Div) and isinstance(node.left, ast.Constant) \
                and node.left.value == 1 and isinstance(node.right, ast.Constant) \
                and node.right.value == 3.0:
            return "Xthird"
        if isinstance(node.op, ast.Mult):
            return "(Xmul %s %s)" % (cx(node.left), cx(node.right))
        if isinstance(node.op, ast.Sub):
            return "(Xsub %s %s)" % (cx(node.left), cx(node.right))
    raise Unsupported("coefficient %s" % ast.dump(node)[:120])


def term(node):
    if isinstance(node, ast.Name) and node.id == "state":
        return "Sstate"
    if isinstance(node, ast.Call) and isinstance(node.func, ast.Attribute) \
            and isinstance(node.func.value, ast.Name) and node.func.value.id == "system" \
            and node.func.attr in TERMS:
        name, ar = TERMS[node.func.attr]
        if len(node.args) != ar or not all(isinstance(a, ast.Name) and a.id in IX
                                           for a in node.args):
            raise Unsupported("arguments of %s" % node.func.attr)
        return name if ar == 0 else "(%s %s)" % (name, " ".join(IX[a.id] for a in node.args))
    raise Unsupported("term %s" % ast.dump(node)[:120])


def is_range(node, var, lower):
    """for <var> in range(num_ops) / range(<lower>+1, num_ops)"""
    if not (isinstance(node.target, ast.Name) and node.target.id == var
            and isinstance(node.iter, ast.Call) and isinstance(node.iter.func, ast.Name)
            and node.iter.func.id == "range" and not node.orelse):
        return False
    a = node.iter.args
    if lower is None:
        return len(a) == 1 and isinstance(a[0], ast.Name) and a[0].id == "num_ops"
    return (len(a) == 2 and ast.unparse(a[0]).replace(" ", "") == "%s+1" % lower
            and isinstance(a[1], ast.Name) and a[1].id == "num_ops")


def translate(cls, text):
    fn = ast.parse(method_source(text, cls)).body[0]
    lists = {0: [], 1: [], 2: [], 3: []}
    seen = {"dz": False, "zero": False, "outname": None}

    def iadd(st, depth):
        c = st.value
        if not (isinstance(c.args[0], ast.Name) and c.args[0].id in ("out", "target")
                and len(c.args) == 3):
            raise Unsupported("iadd_dense target")
        if seen["outname"] not in (None, c.args[0].id):
            raise Unsupported("two accumulators")
        seen["outname"] = c.args[0].id
        lists[depth].append("(%s, %s)" % (term(c.args[1]), cx(c.args[2])))

    def block(stmts, depth):
        loops = ["i", "j", "k"]
        after_loop = False
        for st in stmts:
            if after_loop and not (depth == 0 and isinstance(st, (ast.If, ast.Return))):
                raise Unsupported("statement after the nested loop at depth %d" % depth)
            if isinstance(st, ast.Expr) and isinstance(st.value, ast.Constant) \
                    and isinstance(st.value.value, str):
                continue                                   # docstring
            if isinstance(st, ast.Expr) and isinstance(st.value, ast.Call) \
                    and isinstance(st.value.func, ast.Name):
                f = st.value.func.id
                if f == "iadd_dense":
                    iadd(st, depth)
                    continue
                if f == "imul_dense" and depth == 0 and ast.unparse(st.value.args[1]) == "0.0":
                    if lists[0]:
                        raise Unsupported("imul_dense after an iadd_dense")
                    seen["zero"] = True
                    continue
            if isinstance(st, ast.Expr) and ast.unparse(st) == "system.set_state(t, state)" \
                    and depth == 0:
                continue
            if isinstance(st, ast.Assign) and depth == 0:
                src = ast.unparse(st)
                if src in ("num_ops = system.num_collapse", "dw = dW[0, :]"):
                    continue
                if src == "dz = " + DZ:
                    seen["dz"] = True
                    continue
            if isinstance(st, ast.For) and depth < 3 and \
                    is_range(st, loops[depth], None if depth == 0 else loops[depth - 1]):
                if lists[depth + 1] if depth + 1 <= 3 else True:
                    raise Unsupported("two loops at one level")
                block(st.body, depth + 1)
                after_loop = True
                continue
            if depth == 0 and cls == "Taylor15_imp" and isinstance(st, (ast.If, ast.Return)):
                continue                 # the linear solve: outside the model
            if depth == 0 and isinstance(st, ast.Return) and ast.unparse(st) == "return out":
                continue
            raise Unsupported("statement %s" % ast.unparse(st)[:100])
        # statements after a nested loop at the same level would change the order
    block(fn.body, 0)
    if not (seen["dz"] and seen["zero"]):
        raise Unsupported("dz binding or zeroing of the accumulator not found")
    return lists


def coq_prog(name, lists):
    def l(x):
        return "[" + ";\n      ".join(x) + "]"
    return ("Definition %s : prog :=\n  {| p_pre := %s;\n     p_i := %s;\n     p_ij := %s;\n"
            "     p_ijk := %s |}.\n" % (name, l(lists[0]), l(lists[1]), l(lists[2]), l(lists[3])))


def generate():
    text = open(os.path.join(vlib.REPO, SRC)).read()
    out = ["(* generated by tools/tx_c17_o15.py from %s - do not edit *)" % SRC,
           "From Coq Require Import List.", "Import ListNotations.",
           "From QV Require Import Model.C17_o15.", ""]
    out.append(coq_prog("taylor15_prog", translate("Taylor15", text)))
    out.append(coq_prog("taylor15_imp_prog", translate("Taylor15_imp", text)))
    gen = os.path.join(vlib.COQ, "Gen")
    os.makedirs(gen, exist_ok=True)
    path = os.path.join(gen, "C17_taylor15.v")
    new = "\n".join(out)
    if not os.path.exists(path) or open(path).read() != new:
        with open(path, "w") as f:
            f.write(new)
    return path


if __name__ == "__main__":
    print(generate())
