"""Translator (T) for C08: reads `_super_tofrom_choi` of
qutip/core/superop_reps.py with `ast` and regenerates, as Coq terms, the
literal constants the theorems of Props/C08.v are about:

  * the two guards (issuper / superrep in ('super', 'choi')),
  * new_dims = [[dims[1][1], dims[0][1]], [dims[1][0], dims[0][0]]],
  * s0 = np.prod(dims[0][0]), s1 = np.prod(dims[1][1]),
    d0/d1 = np.prod(flatten(new_dims[0/1])),
  * data.reshape([s0, s1, s0, s1]).transpose(3, 1, 2, 0).reshape([d0, d1]),
  * the tag of the result.

Output: coq/Gen/C08_shuffle.v with one `Theorem C08_gen_*` per constant
stating that what the source says is what Model/C08.v says.  Anything outside
this shape raises (fail closed).
"""
import ast
import os

import vlib

FUNC = "_super_tofrom_choi"


class Refuse(Exception):
    pass


def _sub2(node, base):
    """base[i][j] -> (i, j)"""
    if (isinstance(node, ast.Subscript) and isinstance(node.value, ast.Subscript)
            and isinstance(node.value.value, ast.Name) and node.value.value.id == base):
        i = node.value.slice
        j = node.slice
        if isinstance(i, ast.Constant) and isinstance(j, ast.Constant):
            return (int(i.value), int(j.value))
    raise Refuse("expected %s[i][j], got %s" % (base, ast.dump(node)))


def _call_name(node):
    f = node.func
    if isinstance(f, ast.Attribute):
        return f.attr
    if isinstance(f, ast.Name):
        return f.id
    raise Refuse("call target")


def _names(node):
    if isinstance(node, (ast.List, ast.Tuple)):
        out = []
        for e in node.elts:
            if not isinstance(e, ast.Name):
                raise Refuse("shape entries must be names")
            out.append(e.id)
        return out
    raise Refuse("shape must be a list")


def generate():
    path = os.path.join(vlib.REPO, "qutip", "core", "superop_reps.py")
    tree = ast.parse(open(path).read())
    fn = [n for n in tree.body if isinstance(n, ast.FunctionDef) and n.name == FUNC]
    if len(fn) != 1:
        raise Refuse("function %s not found" % FUNC)
    fn = fn[0]
    body = [s for s in fn.body
            if not (isinstance(s, ast.Expr) and isinstance(s.value, ast.Constant))]
    info = {}
    guards = []
    assigns = {}
    ret = None
    for s in body:
        if isinstance(s, ast.If):
            if not (len(s.body) == 1 and isinstance(s.body[0], ast.Raise) and not s.orelse):
                raise Refuse("unexpected if")
            guards.append(ast.unparse(s.test))
        elif isinstance(s, ast.Assign) and len(s.targets) == 1 and isinstance(s.targets[0], ast.Name):
            assigns.setdefault(s.targets[0].id, []).append(s.value)
        elif isinstance(s, ast.Return):
            ret = s.value
        else:
            raise Refuse("unexpected statement %s" % ast.dump(s)[:80])
    if guards != ["not q_oper.issuper", "q_oper.superrep not in ('super', 'choi')"]:
        raise Refuse("guards changed: %r" % guards)
    for k in ("data", "dims", "new_dims", "d0", "d1", "s0", "s1"):
        if k not in assigns:
            raise Refuse("missing assignment to %s" % k)
    if ast.unparse(assigns["dims"][0]) != "q_oper.dims" or len(assigns["dims"]) != 1:
        raise Refuse("dims is not q_oper.dims")
    if len(assigns["data"]) != 2 or ast.unparse(assigns["data"][0]) != "q_oper.data.to_array()":
        raise Refuse("data pipeline changed")
    # new_dims
    nd = assigns["new_dims"][0]
    if not (isinstance(nd, ast.List) and len(nd.elts) == 2 and
            all(isinstance(e, ast.List) and len(e.elts) == 2 for e in nd.elts)):
        raise Refuse("new_dims shape")
    new_dims = [[_sub2(e, "dims") for e in row.elts] for row in nd.elts]
    # s0 s1
    sv = {}
    for k in ("s0", "s1"):
        v = assigns[k][0]
        if not (isinstance(v, ast.Call) and _call_name(v) == "prod" and len(v.args) == 1
                and not v.keywords):
            raise Refuse("%s is not np.prod(..)" % k)
        sv[k] = _sub2(v.args[0], "dims")
    dv = {}
    for k in ("d0", "d1"):
        v = assigns[k][0]
        ok = (isinstance(v, ast.Call) and _call_name(v) == "prod" and len(v.args) == 1
              and isinstance(v.args[0], ast.Call) and _call_name(v.args[0]) == "flatten"
              and isinstance(v.args[0].args[0], ast.Subscript)
              and isinstance(v.args[0].args[0].value, ast.Name)
              and v.args[0].args[0].value.id == "new_dims"
              and isinstance(v.args[0].args[0].slice, ast.Constant))
        if not ok:
            raise Refuse("%s is not np.prod(flatten(new_dims[k]))" % k)
        dv[k] = int(v.args[0].args[0].slice.value)
    # data.reshape(A).transpose(*axes).reshape(B)
    e = assigns["data"][1]
    chain = []
    while isinstance(e, ast.Call) and isinstance(e.func, ast.Attribute):
        chain.append((e.func.attr, e.args, e.keywords))
        e = e.func.value
    if not (isinstance(e, ast.Name) and e.id == "data"):
        raise Refuse("pipeline does not start from data")
    chain.reverse()
    if [c[0] for c in chain] != ["reshape", "transpose", "reshape"] or any(c[2] for c in chain):
        raise Refuse("pipeline is not reshape.transpose.reshape: %r" % [c[0] for c in chain])
    shape1 = _names(chain[0][1][0]) if len(chain[0][1]) == 1 else None
    if shape1 is None:
        raise Refuse("first reshape")
    targs = chain[1][1]
    if len(targs) == 1 and isinstance(targs[0], (ast.Tuple, ast.List)):
        targs = targs[0].elts
    axes = []
    for a in targs:
        if not isinstance(a, ast.Constant) or not isinstance(a.value, int):
            raise Refuse("transpose axes must be literals")
        axes.append(a.value)
    shape2 = _names(chain[2][1][0]) if len(chain[2][1]) == 1 else None
    if shape2 != ["d0", "d1"]:
        raise Refuse("second reshape is not [d0, d1]")
    if not set(shape1) <= {"s0", "s1"}:
        raise Refuse("first reshape uses other names")
    # return Qobj(data, dims=new_dims, superrep=.., copy=False)
    if not (isinstance(ret, ast.Call) and _call_name(ret) == "Qobj"
            and len(ret.args) == 1 and ast.unparse(ret.args[0]) == "data"):
        raise Refuse("return is not Qobj(data, ...)")
    kw = {k.arg: ast.unparse(k.value) for k in ret.keywords}
    if kw.get("dims") != "new_dims":
        raise Refuse("result dims is not new_dims")
    tag = kw.get("superrep")
    if tag == "'super' if q_oper.superrep == 'choi' else 'choi'":
        tagfun = "fun r => match r with Choi => Super | _ => Choi end"
    elif tag == "'choi' if q_oper.superrep == 'super' else 'super'":
        tagfun = "fun r => match r with Super => Choi | _ => Super end"
    else:
        raise Refuse("result tag expression changed: %r" % tag)
    extra = set(kw) - {"dims", "superrep", "copy"}
    if extra:
        raise Refuse("unexpected Qobj keywords %r" % sorted(extra))

    names = [["a", "b"], ["c", "d"]]

    def nm(p):
        try:
            return names[p[0]][p[1]]
        except IndexError:
            raise Refuse("dims index out of range")
    lines = [
        "(* generated by tools/tx_c08_shuffle.py from qutip/core/superop_reps.py::%s - do not edit *)" % FUNC,
        "From Coq Require Import List Arith.", "Import ListNotations.",
        "From QV Require Import Model.C08.", "",
        "Definition src_axes : list nat := [%s]." % "; ".join(str(a) for a in axes),
        "Definition src_shape (s0 s1 : nat) : list nat := [%s]." % "; ".join(shape1),
        "Definition src_new_dims (dm : sdims) : sdims :=",
        "  let '((a, b), (c, d)) := dm in ((%s, %s), (%s, %s))." % (
            nm(new_dims[0][0]), nm(new_dims[0][1]), nm(new_dims[1][0]), nm(new_dims[1][1])),
        "Definition src_s0 (dm : sdims) : nat := let '((a, b), (c, d)) := dm in prodl %s." % nm(sv["s0"]),
        "Definition src_s1 (dm : sdims) : nat := let '((a, b), (c, d)) := dm in prodl %s." % nm(sv["s1"]),
        "Definition src_d0 (nd : sdims) : nat := let '((a, b), (c, d)) := nd in prodl (%s)." % (
            "a ++ b" if dv["d0"] == 0 else "c ++ d"),
        "Definition src_d1 (nd : sdims) : nat := let '((a, b), (c, d)) := nd in prodl (%s)." % (
            "a ++ b" if dv["d1"] == 0 else "c ++ d"),
        "Definition src_tag : rep -> rep := %s." % tagfun, "",
        "Theorem C08_gen_axes : src_axes = shuffle_axes.",
        "Proof. reflexivity. Qed.",
        "Theorem C08_gen_shape : forall s0 s1, src_shape s0 s1 = shuffle_shape s0 s1.",
        "Proof. reflexivity. Qed.",
        "Theorem C08_gen_new_dims : forall dm, src_new_dims dm = shuffle_new_dims dm.",
        "Proof. intros [[a b] [c d]]. reflexivity. Qed.",
        "Theorem C08_gen_s0_s1 : forall dm, src_s0 dm = shuffle_s0 dm /\\ src_s1 dm = shuffle_s1 dm.",
        "Proof. intros [[a b] [c d]]. split; reflexivity. Qed.",
        "Theorem C08_gen_d0_d1 : forall nd, src_d0 nd = sdims_d0 nd /\\ src_d1 nd = sdims_d1 nd.",
        "Proof. intros [[a b] [c d]]. split; reflexivity. Qed.",
        "Theorem C08_gen_tag : forall r, r <> Chi -> src_tag r = flip_rep r.",
        "Proof. intros [| |] H; try reflexivity; congruence. Qed.",
        "Print Assumptions C08_gen_axes.", ""]
    gen = os.path.join(vlib.COQ, "Gen")
    os.makedirs(gen, exist_ok=True)
    out = os.path.join(gen, "C08_shuffle.v")
    text = "\n".join(lines)
    old = open(out).read() if os.path.exists(out) else None
    if old != text:
        with open(out, "w") as f:
            f.write(text)
    return {"source": "qutip/core/superop_reps.py::" + FUNC, "axes": axes, "shape": shape1,
            "new_dims": new_dims, "s0": sv["s0"], "s1": sv["s1"], "tag": tag}


if __name__ == "__main__":
    print(generate())
