#!/bin/sh
# tools/seed_run.sh C11_2 C05_2 ... : evaluate seeds sequentially (serialised by a lock), logs in /tmp/c03/seed_<name>.log
cd /verif
for n in "$@"; do
  pid=$(echo $n | cut -d_ -f1)
  tests=$(/venv/bin/python -c "import json;print(json.load(open('tools/seed_tests.json'))['$pid'])")
  flock /tmp/c03/seed.lock /venv/bin/python tools/seed_eval.py /tmp/seed_$n $pid $n $tests > /tmp/c03/seed_$n.log 2>&1
  echo "== $n"; grep -E '"caught|check_exit|demo_|existing_tests_pass' /tmp/c03/seed_$n.log | head -8; grep -E "^VIOLATION|  ->" /tmp/c03/seed_$n.log | head -3 | cut -c1-300
done
