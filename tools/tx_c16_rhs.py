"""Translator for C16: reads MCSolver.__init__ of qutip/solver/mcsolve.py
with Python's `ast` and regenerates coq/Gen/C16_rhs.v: the effective
generator `rhs`, the jump operators `_c_ops` and the rate operators `_n_ops`
of both branches (H an operator / H a superoperator) as MathComp terms.

Supported subset (anything else raises, i.e. fails closed):
  constants 1j -> iu, 0.5 -> half; unary minus; `*` and `@` between scalar,
  operator and superoperator values; `+`, `-`; `x.dag()`; `QobjEvo(x)` (a
  wrapper, identity on the value); `spre(a)` = X |-> a X; `spost(a)` = X |-> X a;
  list comprehensions / for loops over the collapse operators with `rhs -= e`.
Superoperators are emitted as functions on matrices, beta-normalised.
"""
import ast
import os
import sys

HERE = os.path.dirname(os.path.abspath(__file__))
sys.path.insert(0, os.path.join(os.path.dirname(HERE), "lib"))
import vlib  # noqa: E402


class Unsupported(Exception):
    pass


def _name(node):
    if isinstance(node, ast.Name):
        return node.id
    if (isinstance(node, ast.Attribute) and isinstance(node.value, ast.Name)
            and node.value.id == "self"):
        return "self." + node.attr
    return None


def tr(node, env):
    """-> (kind, value); kind in sc/op/sup; value is Coq text, or for sup a
    Python function from the text of the argument to the text of the image."""
    if isinstance(node, ast.Constant):
        v = node.value
        if isinstance(v, complex) and v == 1j:
            return "sc", "iu"
        if isinstance(v, float) and v == 0.5:
            return "sc", "half"
        raise Unsupported("constant %r" % (v,))
    if isinstance(node, ast.Name):
        if node.id in env:
            return env[node.id]
        raise Unsupported("name %s" % node.id)
    if isinstance(node, ast.UnaryOp) and isinstance(node.op, ast.USub):
        k, v = tr(node.operand, env)
        if k == "sup":
            return "sup", (lambda X, v=v: "(- %s)" % v(X))
        return k, "(- %s)" % v
    if isinstance(node, ast.BinOp):
        ka, a = tr(node.left, env)
        kb, b = tr(node.right, env)
        if isinstance(node.op, (ast.Mult, ast.MatMult)):
            if ka == "sc" and isinstance(node.op, ast.MatMult):
                raise Unsupported("scalar @")
            if ka == "sc" and kb == "sc":
                return "sc", "(%s * %s)" % (a, b)
            if ka == "sc" and kb == "op":
                return "op", "(%s *: %s)" % (a, b)
            if ka == "op" and kb == "sc":
                return "op", "(%s *: %s)" % (b, a)
            if ka == "sc" and kb == "sup":
                return "sup", (lambda X, a=a, b=b: "(%s *: %s)" % (a, b(X)))
            if ka == "op" and kb == "op":
                return "op", "(%s *m %s)" % (a, b)
            if ka == "sup" and kb == "sup":
                return "sup", (lambda X, a=a, b=b: a(b(X)))
            raise Unsupported("product %s %s" % (ka, kb))
        if isinstance(node.op, (ast.Add, ast.Sub)):
            sym = "+" if isinstance(node.op, ast.Add) else "-"
            if ka != kb:
                raise Unsupported("sum of %s and %s" % (ka, kb))
            if ka == "sup":
                return "sup", (lambda X, a=a, b=b: "(%s %s %s)" % (a(X), sym, b(X)))
            return ka, "(%s %s %s)" % (a, sym, b)
        raise Unsupported("operator %s" % type(node.op).__name__)
    if isinstance(node, ast.Call):
        f = node.func
        if isinstance(f, ast.Attribute) and f.attr == "dag" and not node.args:
            k, v = tr(f.value, env)
            if k != "op":
                raise Unsupported("dag of %s" % k)
            return "op", "dag conj %s" % v if v.isidentifier() else "dag conj (%s)" % v
        if isinstance(f, ast.Name) and f.id == "QobjEvo" and len(node.args) == 1 and not node.keywords:
            return tr(node.args[0], env)
        if isinstance(f, ast.Name) and f.id in ("spre", "spost") and len(node.args) == 1:
            k, v = tr(node.args[0], env)
            if k != "op":
                raise Unsupported("%s of %s" % (f.id, k))
            if not v.isidentifier():
                v = "(%s)" % v
            if f.id == "spre":
                return "sup", (lambda X, v=v: "(%s *m %s)" % (v, X))
            return "sup", (lambda X, v=v: "(%s *m %s)" % (X, v))
        raise Unsupported("call %s" % ast.dump(f)[:60])
    raise Unsupported(type(node).__name__)


def _paren(v):
    return v


def _expect(cond, what):
    if not cond:
        raise Unsupported("MCSolver.__init__: expected " + what)


def _listcomp_over(node, var, seq):
    _expect(isinstance(node, ast.ListComp) and len(node.generators) == 1, "a list comprehension")
    g = node.generators[0]
    _expect(isinstance(g.target, ast.Name) and g.target.id == var and _name(g.iter) == seq
            and not g.ifs, "comprehension `for %s in %s`" % (var, seq))
    return node.elt


def generate(write=True):
    path = os.path.join(vlib.REPO, "qutip", "solver", "mcsolve.py")
    tree = ast.parse(open(path).read())
    init = None
    for cls in tree.body:
        if isinstance(cls, ast.ClassDef) and cls.name == "MCSolver":
            for fn in cls.body:
                if isinstance(fn, ast.FunctionDef) and fn.name == "__init__":
                    init = fn
    _expect(init is not None, "class MCSolver with __init__")
    branch = [s for s in init.body if isinstance(s, ast.If)
              and isinstance(s.test, ast.Attribute) and s.test.attr == "issuper"
              and _name(s.test.value) == "H"]
    _expect(len(branch) == 1, "exactly one `if H.issuper:`")
    # c_ops must be the QobjEvo-wrapped list (identity on values)
    pre = [s for s in init.body if isinstance(s, ast.Assign) and _name(s.targets[0]) == "c_ops"]
    for s in pre:
        v = s.value
        ok = (isinstance(v, ast.List) and len(v.elts) == 1 and _name(v.elts[0]) == "c_ops")
        if isinstance(v, ast.ListComp):
            e = _listcomp_over(v, "c_op", "c_ops")
            ok = (isinstance(e, ast.Call) and _name(e.func) == "QobjEvo" and len(e.args) == 1
                  and _name(e.args[0]) == "c_op")
        _expect(ok, "c_ops only re-wrapped before the branch")
    sup, ket = branch[0].body, branch[0].orelse
    out = {}

    # ---- ket branch
    _expect(len(ket) == 4, "4 statements in the operator branch")
    s1, s2, s3, s4 = ket
    _expect(isinstance(s1, ast.Assign) and _name(s1.targets[0]) == "self._c_ops"
            and _name(s1.value) == "c_ops", "self._c_ops = c_ops")
    _expect(isinstance(s2, ast.Assign) and _name(s2.targets[0]) == "self._n_ops", "self._n_ops = [...]")
    e_n = _listcomp_over(s2.value, "c_op", "c_ops")
    k, v = tr(e_n, {"c_op": ("op", "c_op")})
    _expect(k == "op", "an operator for n_op")
    out["ket_n_op"] = v
    _expect(isinstance(s3, ast.Assign) and _name(s3.targets[0]) == "rhs", "rhs = ...")
    k, v = tr(s3.value, {"H": ("op", "H")})
    _expect(k == "op", "an operator for rhs")
    out["ket_rhs0"] = v
    _expect(isinstance(s4, ast.For) and _name(s4.target) == "n_op" and _name(s4.iter) == "self._n_ops"
            and len(s4.body) == 1 and not s4.orelse, "for n_op in self._n_ops: one statement")
    a = s4.body[0]
    _expect(isinstance(a, ast.AugAssign) and _name(a.target) == "rhs"
            and isinstance(a.op, (ast.Sub, ast.Add)), "rhs -= ... / rhs += ...")
    k, v = tr(a.value, {"n_op": ("op", "n_op")})
    _expect(k == "op", "an operator increment")
    out["ket_step"] = "rhs %s %s" % ("-" if isinstance(a.op, ast.Sub) else "+", v)

    # ---- superoperator branch
    _expect(len(sup) == 4, "4 statements in the superoperator branch")
    t1, t2, t3, t4 = sup
    _expect(isinstance(t1, ast.Assign) and _name(t1.targets[0]) == "self._c_ops", "self._c_ops = [...]")
    e_c = _listcomp_over(t1.value, "c_op", "c_ops")
    _expect(isinstance(e_c, ast.IfExp) and isinstance(e_c.test, ast.Attribute)
            and e_c.test.attr == "isoper" and _name(e_c.test.value) == "c_op"
            and _name(e_c.orelse) == "c_op", "`... if c_op.isoper else c_op`")
    k, v = tr(e_c.body, {"c_op": ("op", "c_op")})
    _expect(k == "sup", "a superoperator for c_op")
    out["sup_c_op"] = "(fun X => %s)" % v("X")
    _expect(isinstance(t2, ast.Assign) and _name(t2.targets[0]) == "self._n_ops"
            and _name(t2.value) == "self._c_ops", "self._n_ops = self._c_ops")
    _expect(isinstance(t3, ast.Assign) and _name(t3.targets[0]) == "rhs", "rhs = ...")
    k, v = tr(t3.value, {"H": ("sup", lambda X: "(H %s)" % X)})
    _expect(k == "sup", "a superoperator for rhs")
    out["sup_rhs0"] = "(fun X => %s)" % v("X")
    _expect(isinstance(t4, ast.For) and _name(t4.target) == "c_op" and _name(t4.iter) == "c_ops"
            and len(t4.body) == 2 and not t4.orelse, "for c_op in c_ops: two statements")
    b1, b2 = t4.body
    _expect(isinstance(b1, ast.Assign) and _name(b1.targets[0]) == "cdc", "cdc = ...")
    k, v = tr(b1.value, {"c_op": ("op", "c_op")})
    _expect(k == "op", "an operator for cdc")
    out["sup_cdc"] = v
    _expect(isinstance(b2, ast.AugAssign) and _name(b2.target) == "rhs"
            and isinstance(b2.op, (ast.Sub, ast.Add)), "rhs -= ...")
    k, v = tr(b2.value, {"cdc": ("op", "cdc"), "c_op": ("op", "c_op")})
    _expect(k == "sup", "a superoperator increment")
    out["sup_step"] = "(fun X => rhs X %s %s)" % ("-" if isinstance(b2.op, ast.Sub) else "+", v("X"))

    text = """(* GENERATED by tools/tx_c16_rhs.py from qutip/solver/mcsolve.py MCSolver.__init__ - do not edit *)
From mathcomp Require Import all_ssreflect all_algebra.
From QV Require Import Base.MxHerm.
Set Implicit Arguments. Unset Strict Implicit. Unset Printing Implicit Defensive.
Import GRing.Theory.
Local Open Scope ring_scope.
Section Rhs.
Variable R : fieldType.
Variable conj : {rmorphism R -> R}.
Variables (iu half : R).
Variable n : nat.
Notation op := 'M[R]_n.
Notation sup := (op -> op).
(* else-branch (H is an operator) *)
Definition ket_c_op (c_op : op) : op := c_op.
Definition ket_n_op (c_op : op) : op := %(ket_n_op)s.
Definition ket_rhs0 (H : op) : op := %(ket_rhs0)s.
Definition ket_step (rhs : op) (n_op : op) : op := %(ket_step)s.
Definition ket_rhs (H : op) (c_ops : seq op) : op :=
  foldl ket_step (ket_rhs0 H) (map ket_n_op c_ops).
(* if-branch (H is a superoperator) *)
Definition sup_c_op (c_op : op) : sup := %(sup_c_op)s.
Definition sup_n_op (c_op : op) : sup := sup_c_op c_op.
Definition sup_rhs0 (H : sup) : sup := %(sup_rhs0)s.
Definition sup_step (rhs : sup) (c_op : op) : sup :=
  let cdc := %(sup_cdc)s in
  %(sup_step)s.
Definition sup_rhs (H : sup) (c_ops : seq op) : sup :=
  foldl sup_step (sup_rhs0 H) c_ops.
End Rhs.
""" % out
    if write:
        gen = os.path.join(vlib.COQ, "Gen")
        os.makedirs(gen, exist_ok=True)
        p = os.path.join(gen, "C16_rhs.v")
        old = open(p).read() if os.path.exists(p) else None
        if old != text:
            with open(p, "w") as f:
                f.write(text)
    return out


if __name__ == "__main__":
    for k, v in generate(write="--write" in sys.argv).items():
        print(k, ":=", v)
