"""C03 - cached Hermitian/unitary flags never contradict the matrix.

Tie (T): tools/tx_c03_flags.py regenerates coq/Gen/C03_flags.v from the
current source; Props/C03.v is re-proved against it.
Tie (K): the generated flag functions are evaluated by vm_compute on every
tri-state input and compared with the flags the real operations attach.
Oracle: tools/c03_oracle.py (every definite cached answer vs recomputation).
"""
import itertools
import json

import numpy as np

import vlib
import tx_c03_flags
import c03_oracle

HEADER = ("From Coq Require Import Bool List.\nImport ListNotations.\n"
          "From QV Require Import Base.PyVal Gen.C03_flags.\n")


def pv(x):
    return "PNone" if x is None else ("(PBool true)" if x else "(PBool false)")


def env(ah=None, au=None, bh=None, bu=None, pr=False, pu=False, pa=False, ps=False):
    return ("{| fa_h := %s; fa_u := %s; fb_h := %s; fb_u := %s; p_real := %s; "
            "p_unitmod := %s; p_abs_lt1 := %s; p_same_dims := %s |}" % (
                pv(ah), pv(au), pv(bh), pv(bu), vlib.cbool(pr), vlib.cbool(pu),
                vlib.cbool(pa), vlib.cbool(ps)))


def from_coq(s):
    s = s.strip()
    if s == "PNone":
        return None
    return "true" in s


def operand(herm, unit):
    """A 2x2 operand with the requested truth values."""
    m = {(True, True): [[0, 1], [1, 0]], (True, False): [[2, 1], [1, 3]],
         (False, True): [[1, 0], [0, 1j]], (False, False): [[1, 2], [3j, 4]]}[(herm, unit)]
    return np.array(m, dtype=complex)


def flag_states():
    """(cached value requested, truth of operand) combos: None = not read."""
    out = []
    for h in (None, True, False):
        for u in (None, True, False):
            out.append((h, u))
    return out


def mkobj(h, u):
    from qutip import Qobj
    q = Qobj(operand(bool(h), bool(u)))
    if h is not None:
        assert q.isherm == h
    if u is not None:
        assert q.isunitary == u
    return q


def correspondence(ctx):
    """Generated flag functions vs flags attached by the implementation."""
    import qutip
    cases = []   # (site, coq env, python thunk -> result Qobj)
    S = flag_states()
    scal = {"2": (2.0, True, False), "i": (1j, False, True), "m1": (-1.0, True, True),
            "c": (1 + 1j, False, False)}
    unary = {
        "copy": lambda a: a.copy(), "neg": lambda a: -a, "pow": lambda a: a ** 2,
        "conj": lambda a: a.conj(), "trans": lambda a: a.trans(),
        "expm": lambda a: a.expm(), "logm": lambda a: a.logm(),
        "spre": lambda a: qutip.spre(a), "spost": lambda a: qutip.spost(a),
        "to": lambda a: a.to("dia"),
        "permute": lambda a: a.permute([0]),
    }
    for site, fn in unary.items():
        for (h, u) in S:
            cases.append((site, env(ah=h, au=u), (lambda fn=fn, h=h, u=u: fn(mkobj(h, u))), [site, h, u]))
    binary = {
        "add": lambda a, b: a + b, "sub": lambda a, b: a - b,
        "matmul": lambda a, b: a @ b,
        "tensor_step": lambda a, b: qutip.tensor(a, b),
        "sprepost": lambda a, b: qutip.sprepost(a, b),
    }
    for site, fn in binary.items():
        for (h, u), (h2, u2) in itertools.product(S, S):
            cases.append((site, env(ah=h, au=u, bh=h2, bu=u2),
                          (lambda fn=fn, h=h, u=u, h2=h2, u2=u2: fn(mkobj(h, u), mkobj(h2, u2))),
                          [site, h, u, h2, u2]))
    for name, (z, real, unitmod) in scal.items():
        for (h, u) in S:
            cases.append(("mul", env(ah=h, au=u, pr=real, pu=unitmod),
                          (lambda z=z, h=h, u=u: mkobj(h, u) * z), ["mul", name, h, u]))
            cases.append(("scalar_id", env(pr=real, pu=unitmod),
                          (lambda z=z, h=h, u=u: _promoted(mkobj(h, u), z)),
                          ["scalar_id", name]))
    # dag: shortcut or adjoint
    for (h, u) in S:
        cases.append(("dag", env(ah=h, au=u, ps=True), (lambda h=h, u=u: mkobj(h, u).dag()), ["dag", h, u]))
    exprs = []
    for site, e, _, _ in cases:
        if site == "dag":
            exprs.append("(if truthy (dag_shortcut_guard %s) then (copy_herm %s, copy_unit %s) "
                         "else (dag_herm %s, dag_unit %s))" % (e, e, e, e, e))
        else:
            exprs.append("(%s_herm %s, %s_unit %s)" % (site, e, site, e))
    vals = vlib.coq_eval_values("cases_C03", HEADER, exprs)
    bad = 0
    for (site, e, thunk, key), v in zip(cases, vals):
        mh, mu = [from_coq(x) for x in v.strip("()").split(",")]
        r = thunk()
        ih = None if r._isherm is None else bool(r._isherm)
        iu = None if r._isunitary is None else bool(r._isunitary)
        ctx.count_case(("corr", key), nontrivial=True)
        ctx.cov["traces_validated_against_impl"] += 1
        if site in ("spre", "spost", "sprepost", "solver_state"):
            ok = (mh == ih)          # these sites pass no isunitary
        else:
            ok = (mh, mu) == (ih, iu)
        if not ok:
            bad += 1
            # is the implementation's flag wrong, or only different from the model?
            herr = c03_oracle.truth(r)
            ctx.violation("corr:flags:" + site, [str(k) for k in key],
                          "generated flag expression and run-time flags differ at %s: "
                          "model %s impl %s" % (key, (mh, mu), (ih, iu)),
                          {"site": site, "inputs": key, "model": [mh, mu], "impl": [ih, iu],
                           "recomputed_errors": list(herr)}, found_input=False)
    ctx.sample({"correspondence_case": cases[5][3], "coq_env": cases[5][1]})
    bad += qevo_correspondence(ctx)
    return bad


def qevo_correspondence(ctx):
    """QobjEvo.__call__: the generated init / step / final flag terms folded over
    the term list, against the flag the real call attaches (1-3 terms, each with
    its operator's isherm cache in {None, True, False} and a coefficient that is
    real or not at the evaluation time)."""
    import qutip
    herm = np.array([[0, 1], [1, 0]], dtype=complex)
    nonh = np.array([[0, 1], [0, 0]], dtype=complex)

    def term_obj(flag, k):
        # a different operator in every position (compress() merges equal ones)
        m = (herm + np.diag([k + 1, -k])) if flag in (None, True) else (nonh * (k + 1))
        q = qutip.Qobj(m)
        if flag is not None:
            assert q.isherm == flag
        return q
    coeffs = {True: (lambda t: 0.5 * t), False: (lambda t: 0.5j * t)}
    cases, exprs = [], []
    for n in (1, 2, 3):
        for flags in itertools.product((None, True, False), repeat=n):
            for reals in itertools.product((True, False), repeat=n):
                acc = "(qevo_init_herm %s)" % env(bh=flags[0], pr=reals[0])
                for k in range(1, n):
                    acc = ("(qevo_step_herm {| fa_h := %s; fa_u := PNone; fb_h := %s; fb_u := PNone; "
                           "p_real := %s; p_unitmod := false; p_abs_lt1 := false; p_same_dims := false |})"
                           % (acc, pv(flags[k]), vlib.cbool(reals[k])))
                fin = ("(qevo_final_herm {| fa_h := %s; fa_u := PNone; fb_h := PNone; fb_u := PNone; "
                       "p_real := false; p_unitmod := false; p_abs_lt1 := false; p_same_dims := false |})" % acc)
                exprs.append(fin)
                cases.append((flags, reals))
    vals = vlib.coq_eval_values("cases_C03q", HEADER, exprs)
    bad = 0
    for (flags, reals), v in zip(cases, vals):
        mh = from_coq(v)
        q = qutip.QobjEvo([[term_obj(f, k), coeffs[r]]
                           for k, (f, r) in enumerate(zip(flags, reals))])(2.0)
        ih = None if q._isherm is None else bool(q._isherm)
        ctx.count_case(("corr", "qobjevo_call", str(flags), str(reals)), nontrivial=True)
        ctx.cov["traces_validated_against_impl"] += 1
        if mh != ih:
            bad += 1
            herr = c03_oracle.truth(q)
            wrong = ih is not None and (herr[0] <= 1e-9) != ih
            ctx.violation("corr:flags:qobjevo_call", [str(flags), str(reals)],
                          "generated flag terms of QobjEvo.__call__ and the run-time flag differ for "
                          "terms with cached isherm %s and real-coefficient pattern %s: model %s impl %s"
                          % (flags, reals, mh, ih)
                          + ("; the implementation's flag contradicts the matrix" if wrong else ""),
                          {"site": "qobjevo_call", "flags": list(flags), "real_coeff": list(reals),
                           "model": mh, "impl": ih}, found_input=wrong)
    return bad


def _promoted(a, z):
    """The Qobj that `a + z` promotes z to (observed through the decorator)."""
    import qutip.core.qobj as qq
    seen = {}
    orig = qq.Qobj.__add__.__wrapped__

    def spy(self, other):
        seen["other"] = other
        return orig(self, other)
    dec = qq._require_equal_type(spy)
    dec(a, z)
    return seen["other"]


def run_oracle(ctx, budget, tag=""):
    nfound = [0]

    def report(where, flag, cached, actual, q, history):
        nfound[0] += 1
        ctx.violation("flag:" + where.split(":")[-1], [flag, cached],
                      "cached %s=%s contradicts the matrix (recomputed %s) after %s" % (
                          flag, cached, actual, history),
                      {"operation": where, "flag": flag, "cached": cached,
                       "recomputed": actual, "history": history,
                       "matrix": np.array2string(q.full(), precision=6),
                       "replay": "history is [operand name, cache state] followed by operation "
                                 "names of tools/c03_oracle.py"})

    def count(key):
        ctx.count_case(("oracle", key))
    n = c03_oracle.run_oracle(ctx.seed, budget, report, count)
    return n, nfound[0]


def run(ctx):
    ctx.cov["rule"] = (
        "correspondence: every flag site x every tri-state cache state of the operands "
        "(flags of the real result vs the generated Coq expression, vm_compute); oracle: "
        "pool of 19 exact 2x2 operators x 4 cache states x 60 operations, all pairs for 10 "
        "binary operations, random chains of depth 2-4 with reads interleaved, solver outputs incl. the steady-state functions; "
        "a case is distinct by (operation, operands, cache states / chain)")
    ctx.cov["trusted_base"] += [
        "translator tools/tx_c03_flags.py (supported subset: and/or/not/if-else over the "
        "operands' cached flags, None/True/False and the recognised scalar predicates; "
        "fails closed on anything else and on any new flag site)",
        "Section hypotheses: expm (dag A) = dag (expm A); solver evolution commutes with the "
        "adjoint (Hermiticity-preserving generator); tensor-factor permutation and basis "
        "change are similarities by a unitary matrix",
        "tolerance-based predicates (abs(..) < atol) are modelled by their exact versions",
        "not under a theorem (oracle only): trunc_neg, _superpauli_basis, "
        "_choi_to_stinespring literals, tidyup, data setter; constructor literals in "
        "operators/states/gates/random_objects/energy_restricted are delegated to C20",
        "the translator scans every .py file of the package (and, textually, every Cython "
        "source) for flag sites; a site that is neither translated, waived with a reason nor "
        "in a delegated file fails closed",
        "ss_power: division by a zero trace raises in Python, is 0 in the field model",
        "MathComp 1.15 (ssreflect, algebra, real_closed.mxtens)"]
    trans_ok = True
    try:
        sites = tx_c03_flags.generate()
        ctx.sample({"generated_site": "mul", "terms": sites["mul"]})
        ctx.add_obligation("translator:tx_c03_flags covers every flag site", True)
    except tx_c03_flags.Unsupported as ex:
        trans_ok = False
        ctx.add_obligation("translator:tx_c03_flags covers every flag site", False)
        n, found = run_oracle(ctx, 400)
        if not found:
            ctx.violation("translator:C03", str(ex)[:80],
                          "flag sites of the source are no longer inside the translated "
                          "subset, so the theorems do not cover them: %s" % ex,
                          {"error": str(ex)}, found_input=False)
        return

    def search(failed, log):
        run_oracle(ctx, 600)

    ok = vlib.standard_proof_step(ctx, ["Gen/C03_flags.vo", "Props/C03.vo"],
                                  ["Props/C03.v"], search)
    if ok:
        correspondence(ctx)
    n, found = run_oracle(ctx, 300 if ctx.quick else 6000)
    ctx.cov["oracle_operations"] = n
    ctx.cov["explanation"] = (
        "theorems over generated flag terms (all dimensions, all cache states, all "
        "histories for the fixed-dimension fragment); generated terms validated against "
        "run-time flags; oracle compares every definite cached answer with recomputation.")


def replay(ctx, payload):
    hist = (payload.get("detail") or {}).get("history")
    if hist:
        def report(where, flag, cached, actual, q, history):
            ctx.violation("flag:" + where.split(":")[-1], [flag, cached],
                          "cached %s=%s contradicts the matrix (recomputed %s) after %s" % (
                              flag, cached, actual, history),
                          {"operation": where, "flag": flag, "cached": cached, "recomputed": actual,
                           "history": history})
        try:
            if c03_oracle.replay_history(hist, report):
                return
        except Exception as ex:
            ctx.log("replay of the recorded history raised %s: %s; running the whole oracle" % (
                type(ex).__name__, ex))
    run_oracle(ctx, 300)
